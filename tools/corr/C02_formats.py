"""C02, part 2 — every hash format's checksum equals the executable Lean specification written from the format's published
description (lean/PasslibVerif/Spec/Formats/*.lean, driver word `sfmt`), and independent third implementations
(the C library's crypt(), hashlib.pbkdf2_hmac / hashlib.scrypt, the `bcrypt` package, Django's hashers, plain hashlib
compositions) produce strings that are equal to passlib's and verify under passlib.

    correspond_formats(ctx) -> [Suite / Oracle objects]      (the caller merges them)
    search_formats(ctx)     -> None | {"input", "observed", "expected"}   (no Lean in the loop)
"""
from __future__ import annotations

import base64
import binascii
import contextlib
import hashlib
import hmac
import os
import unicodedata
import warnings

from .common import Oracle, Suite, errname, hx

LENS = [0, 1, 7, 8, 9, 15, 16, 17, 55, 56, 63, 64, 65, 72, 73, 95, 96, 97, 127, 128, 129, 255, 256]
H64 = "./0123456789ABCDEFGHIJKLMNOPQRSTUVWXYZabcdefghijklmnopqrstuvwxyz"
B64BC = "./ABCDEFGHIJKLMNOPQRSTUVWXYZabcdefghijklmnopqrstuvwxyz0123456789"
ALNUM = "0123456789ABCDEFGHIJKLMNOPQRSTUVWXYZabcdefghijklmnopqrstuvwxyz"


# --------------------------------------------------------------------------------------------------
# input generators
def pwd_bytes(rng, n):
    """n bytes, every value 1..255 (NUL is outside the domain of the crypt(3) style formats)"""
    if n >= 255 and rng.random() < 0.5:
        head = list(range(1, 256))
        rng.shuffle(head)
        return bytes(head + [rng.randrange(1, 256) for _ in range(n - 255)])
    return bytes(rng.randrange(1, 256) for _ in range(n))


_CASELESS_POOL = None


#: lower-case already (str.lower is the identity) but changed by casefold / NFKC / upper().lower()
LOWER_STABLE = [c for c in "ß\ufb01\ufb02\u017f\u0149\u01f0\u0390\u03b0\u0587\u1e96\u1e9e\u00aa\u00ba\u00b5\u03c2" if c.lower() == c]


def _caseless_pool():
    """non-ASCII characters on which str.upper / str.lower / NFKC are the identity (so that the ASCII case mapping of the
    specification is the whole case mapping), from every UTF-8 length class"""
    global _CASELESS_POOL
    if _CASELESS_POOL is None:
        pool = []
        for lo, hi in ((0xA1, 0xBF), (0x2190, 0x21FF), (0x2500, 0x257F), (0x3041, 0x3096), (0x4E00, 0x4E80), (0x1F600, 0x1F64F), (0x10300, 0x1031F)):
            for cp in range(lo, hi + 1):
                c = chr(cp)
                if c.upper() == c and c.lower() == c and unicodedata.normalize("NFKC", c) == c and unicodedata.category(c)[0] in "LNSP":
                    pool.append(c)
        _CASELESS_POOL = pool
    return _CASELESS_POOL


def pwd_text(rng, n, caseless=True):
    """n characters: ASCII 1..127 mixed with non-ASCII characters of 2, 3 and 4 UTF-8 bytes (BMP and astral: UTF-16 surrogate pairs)"""
    pool = _caseless_pool()
    out = []
    for _ in range(n):
        r = rng.random()
        if r < 0.6:
            out.append(chr(rng.randrange(1, 128)))
        elif caseless or r < 0.9:
            out.append(rng.choice(pool))
        else:
            out.append(rng.choice("äÖßéÀçñ"))
    t = "".join(out)
    while len(t.encode("utf-8")) > 4096:      # passlib's documented size limit is 4096 (bytes, when bytes are passed)
        t = t[: len(t) - 1 - (len(t.encode("utf-8")) - 4096) // 4]
    return t


def pwd_ascii(rng, n):
    return "".join(chr(rng.randrange(1, 128)) for _ in range(n))


def salt_chars(rng, n, alphabet=H64, k=0):
    if k % 5 == 1:
        return alphabet[0] * n
    if k % 5 == 2:
        return alphabet[-1] * n
    return "".join(rng.choice(alphabet) for _ in range(n))


def salt_bytes(rng, n, k=0):
    if k % 5 == 1:
        return b"\x00" * n
    if k % 5 == 2:
        return b"\xff" * n
    return bytes(rng.randrange(256) for _ in range(n))


def bcrypt_salt(rng, k=0):
    if k % 6 == 1:
        return "." * 22
    if k % 6 == 2:
        return "9" * 21 + "u"
    return "".join(rng.choice(B64BC) for _ in range(21)) + rng.choice(".Oeu")


def lens_for(ctx, cheap=True, cap=None):
    ls = list(LENS)
    if cheap:
        ls += [1024, 4096] if not ctx.thorough else [2, 3, 13, 14, 27, 28, 31, 32, 33, 119, 120, 500, 1024, 2048, 4095, 4096]
    if cap is not None:
        ls = sorted({min(x, cap) for x in ls} | {c for c in range(max(0, cap - 1), cap + 1)})
    return ls


# --------------------------------------------------------------------------------------------------
# backends: the pure-Python implementations are the ones compared with the specification
@contextlib.contextmanager
def builtin_backends():
    from passlib import hash as H

    names = ["des_crypt", "bsdi_crypt", "bcrypt", "sha1_crypt", "scrypt", "md5_crypt", "sha256_crypt", "sha512_crypt"]
    old_env = os.environ.get("PASSLIB_BUILTIN_BCRYPT")
    os.environ["PASSLIB_BUILTIN_BCRYPT"] = "enabled"
    old = {}
    try:
        for n in names:
            h = getattr(H, n)
            try:
                old[n] = h.get_backend()
            except Exception:  # noqa: BLE001
                old[n] = None
            h.set_backend("builtin")
        yield
    finally:
        for n, b in old.items():
            try:
                getattr(H, n).set_backend(b or "default")
            except Exception:  # noqa: BLE001
                pass
        if old_env is None:
            os.environ.pop("PASSLIB_BUILTIN_BCRYPT", None)
        else:
            os.environ["PASSLIB_BUILTIN_BCRYPT"] = old_env


@contextlib.contextmanager
def backend(hname, bname):
    from passlib import hash as H

    h = getattr(H, hname)
    old = h.get_backend()
    h.set_backend(bname)
    try:
        yield
    finally:
        h.set_backend(old)


#: open findings (KNOWN_FINDINGS.jsonl): inputs left out of the grids while they reproduce; `replay_formats` re-checks them on every run
KNOWN = {
    "sun-md5-bare-empty-salt": "sun_md5_crypt: a bare-salt hash with an EMPTY salt ('$md5$$<checksum>', '$md5,rounds=N$$<checksum>', as produced by "
                               "crypt('x', '$md5$') and by passlib's own genhash) is re-read as a '$$' hash with empty salt, so verify() is False",
}

_CRYPT = None


def os_crypt(secret: bytes, setting: str):
    """crypt(3) of the C library (libxcrypt) through ctypes: takes arbitrary non-NUL bytes"""
    global _CRYPT
    if _CRYPT is None:
        import ctypes
        import ctypes.util

        lib = ctypes.CDLL(ctypes.util.find_library("crypt") or "libcrypt.so.1")
        lib.crypt.restype = ctypes.c_char_p
        lib.crypt.argtypes = [ctypes.c_char_p, ctypes.c_char_p]
        _CRYPT = lib.crypt
    r = _CRYPT(secret, setting.encode("ascii"))
    if r is None:
        return None
    r = r.decode("ascii")
    return None if r.startswith("*") else r


def asb(secret):
    return secret.encode("utf-8") if isinstance(secret, str) else secret


def hs(s: str) -> str:
    return hx(s.encode("utf-8"))


def okhex(chk: str) -> str:
    return "ok " + chk.encode("ascii").hex()


# --------------------------------------------------------------------------------------------------
# independent Python helpers (written from the format descriptions, not from passlib)
def ab64(b: bytes) -> str:
    return base64.b64encode(b).decode().rstrip("=").replace("+", ".")


def b64s(b: bytes) -> str:
    return base64.b64encode(b).decode().rstrip("=")


def py_mysql323(p: bytes) -> str:
    nr, nr2, add = 1345345333, 0x12345671, 7
    M = 0xFFFFFFFF
    for c in p:
        if c in (32, 9):
            continue
        nr = (nr ^ ((((nr & 63) + add) * c) + (nr << 8))) & M
        nr2 = (nr2 + (((nr2 << 8) & M) ^ nr)) & M
        add = (add + c) & M
    return "%08x%08x" % (nr & 0x7FFFFFFF, nr2 & 0x7FFFFFFF)


def py_saslprep(s: str) -> str:
    """RFC 4013 SASLprep of a stored string, from the RFC text over the stdlib stringprep tables (independent of passlib):
    map (C.1.2 -> SPACE, B.1 -> nothing), NFKC, prohibit (C.1.2 C.2.1 C.2.2 C.3-C.9, unassigned A.1), bidi (RFC 3454 section 6)"""
    import stringprep as sp

    s = "".join(" " if sp.in_table_c12(c) else c for c in s if not sp.in_table_b1(c))
    s = unicodedata.normalize("NFKC", s)
    for c in s:
        if sp.in_table_c12(c) or sp.in_table_c21_c22(c) or sp.in_table_c3(c) or sp.in_table_c4(c) or sp.in_table_c5(c) or sp.in_table_c6(c) \
                or sp.in_table_c7(c) or sp.in_table_c8(c) or sp.in_table_c9(c) or sp.in_table_a1(c):
            raise ValueError("prohibited")
    if any(sp.in_table_d1(c) for c in s):
        if any(sp.in_table_d2(c) for c in s) or not (sp.in_table_d1(s[0]) and sp.in_table_d1(s[-1])):
            raise ValueError("bidi")
    return s


def py_saslprep_ok(s: str) -> bool:
    """is `s` a fixed point of SASLprep (RFC 4013) that SASLprep accepts?  (computed with the stdlib stringprep tables)"""
    import stringprep as sp

    if unicodedata.normalize("NFKC", s) != s:
        return False
    for c in s:
        if sp.in_table_b1(c) or (sp.in_table_c12(c)) or sp.in_table_c21_c22(c) or sp.in_table_c3(c) or sp.in_table_c4(c) or sp.in_table_c5(c) \
                or sp.in_table_c6(c) or sp.in_table_c7(c) or sp.in_table_c8(c) or sp.in_table_c9(c) or sp.in_table_a1(c):
            return False
    if any(sp.in_table_d1(c) for c in s):
        return False       # keep to left-to-right text: the bidi rule is not exercised
    return True



# --------------------------------------------------------------------------------------------------
def _a(t: str) -> str:
    return hx(t.encode("utf-8"))


#: published test vectors (source in the comment): the Lean specification must reproduce them — no passlib in this loop
PUBLISHED_VECTORS = [
    # RFC 1320 / RFC 1321 / FIPS 180 "abc"
    (f"sfmt hex_md4 {_a('abc')}", "a448017aaf21d8525fc10ae87aa6729d"),
    (f"sfmt hex_md5 {_a('abc')}", "900150983cd24fb0d6963f7d28e17f72"),
    (f"sfmt hex_sha1 {_a('abc')}", "a9993e364706816aba3e25717850c26c9cd0d89d"),
    (f"sfmt hex_sha256 {_a('abc')}", "ba7816bf8f01cfea414140de5dae2223b00361a396177a9cb410ff61f20015ad"),
    (f"sfmt hex_sha512 {_a('abc')}", "ddaf35a193617abacc417349ae20413112e6fa4e89a97ea20a9eeee64b55d39a2192992a274fc1a836ba3c23a3feebbd454d4423643ce80e2a9ac94fa54ca49f"),
    # glibc / libxcrypt crypt(3); BSDi example of the libxcrypt test-suite
    (f"sfmt des_crypt {_a('password')} {_a('ab')}", "JnggxhB/yWI"),
    (f"sfmt bsdi_crypt {_a('password')} {_a('rasm')} {sum(H64.index(c) << (6 * i) for i, c in enumerate('J9..'))}", "EedsvB6g8/6"),
    # passlib documentation examples (bigcrypt / crypt16: Authen::Passphrase test data)
    (f"sfmt bigcrypt {_a('passphrase')} {_a('S/')}", "8NbAAlzbYO66hAa9XZyWy2"),
    (f"sfmt crypt16 {_a('passphrase')} {_a('aa')}", "X/UmCcBrceQ0kQGGWKTbuE"),
    # the classic LM / NT hashes of "password"; the constant second half of a short password
    (f"sfmt lmhash {_a('password')}", "e52cac67419a9a224a3b108f3fa6cb6d"),
    (f"sfmt lmhash {_a('abc')}", "8c6f5d02deb21501aad3b435b51404ee"),
    (f"sfmt nthash {_a('password')}", "8846f7eaee8fb117ad06bdd830b7586c"),
    (f"sfmt msdcc {_a('password')} {_a('Administrator')}", "25fd08fa89795ed54207e6e8442a6ca0"),
    (f"sfmt msdcc2 {_a('password')} {_a('Administrator')}", "4c253e4b65c007a8cd683ea57bc43c76"),
    # Oracle: SYSTEM/MANAGER and SCOTT/TIGER default accounts (Wright & Cid; every Oracle default-password list)
    (f"sfmt oracle10 {_a('MANAGER')} {_a('SYSTEM')}", "D4DF7931AB130E37"),
    (f"sfmt oracle10 {_a('tiger')} {_a('scott')}", "F894844C34402B67"),
    (f"sfmt oracle11 {_a('password')} c886eed9c80450c1b4e6", "4143053633E59B4992A8EA17D2FF542C9EDEB335"),
    # MySQL reference manual: OLD_PASSWORD / PASSWORD('mypass')
    (f"sfmt mysql323 {_a('mypass')}", "6f8c114b58f2ce9e"),
    (f"sfmt mysql41 {_a('mypass')}", "6C8989366EAF75BB670AD8EA7A7FC1176A95CEF4"),
    # D. Litchfield's paper / passlib documentation
    (f"sfmt mssql2000 {_a('password')} 200420c4", "0x0100200420C4988140FD3920894C3EDC188E94F428D57DAD5905F6CC1CBAF950CAD4C63F272B2C91E4DEEB5E6444"),
    (f"sfmt mssql2005 {_a('password')} 6acdf9ff", "0x01006ACDF9FF5D2E211B392EEF1175EFFE13B3A368CE2F94038B"),
    # RFC 2617 section 3.5: HA1 of Mufasa / testrealm@host.com / Circle Of Life
    (f"sfmt htdigest {_a('Circle Of Life')} {_a('Mufasa')} {_a('testrealm@host.com')}", "939e7578ed9e3c518a452acee763bce9"),
    # RFC 2307 style values of "password"
    (f"sfmt ldap_md5 {_a('password')}", "X03MO1qnZdYdgyfeuILPmQ=="),
    (f"sfmt ldap_sha1 {_a('password')}", "W6ph5Mm5Pz8GgiULbPgzG37mj9g="),
    # PHPass test suite ($P$9IQRaTwmfeRo7ud9Fh4E2PdI0S3r.L0 = "test12345")
    (f"sfmt phpass {_a('test12345')} {_a('IQRaTwmf')} 11", "eRo7ud9Fh4E2PdI0S3r.L0"),
    # hashes posted from real Solaris systems (forums.halcyoninc.com t=258, c0t0d0s0.org 4453, cuddletech.com 778, comp.unix.solaris);
    # (the example of the passlib documentation, "$md5,rounds=5000$GUBv0xjJ$$mSwgIswdjlTY0YxV7HBVm0 of passwd", is NOT the hash of
    #  "passwd": libxcrypt, passlib and this specification all give .CELi7blTxp3uq3U/gb171)
    (f"sfmt sun_md5_crypt {_a('Gpcs3_adm')} {_a('zrdhpMlZ')} 0 0", "wBvMOEqbSjU.hu5T2VEP01"),
    (f"sfmt sun_md5_crypt {_a('aa12345678')} {_a('vyy8.OVF')} 0 0", "FY4TWzuauRl4.VQNobqMY."),
    (f"sfmt sun_md5_crypt {_a('this')} {_a('3UqYqndY')} 0 0", "6P.aaWOoucxxq.l00SS9k0"),
    (f"sfmt sun_md5_crypt {_a('passwd')} {_a('RPgLF6IJ')} 0 1", "WTvAlUJ7MqH5xak2FMEwS/"),
    # NetBSD $sha1$ produced by libxcrypt
    (f"sfmt sha1_crypt {_a('password')} {_a('abcd')} 100", "/1Jl.1L4ZL81n6cYxSO/NjR/39Ck"),
    # Openwall crypt_blowfish wrapper.c test vector
    (f"sfmt bcrypt {_a('U*U')} {_a('2a')} {_a('CCCCCCCCCCCCCCCCCCCCC.')} 5", "E5YPO9kmyuRGyh0XouQYb4YMJKvyOeW"),
    # RFC 5802 section 5 / RFC 7677 section 3: SaltedPassword of "pencil"
    ("sfmt scram " + _a("pencil") + " " + base64.b64decode("QSXCR+Q6sek8bf92").hex() + " 4096 sha-1", ab64(bytes.fromhex("1d96ee3a529b5a5f9e47c01f229a2cb8a6e15f7d"))),
    ("sfmt scram " + _a("pencil") + " " + base64.b64decode("W22ZaJ0SNY7soEsUEjb6gQ==").hex() + " 4096 sha-256", ab64(bytes.fromhex("c4a49510323ab4f952cac1fa99441939e78ea74d6be81ddf7096e87513dc615d"))),
    # RFC 6070 vector 2 in pbkdf2_sha1 clothing; RFC 7914 section 12 vector 1 (first 32 octets)
    (f"sfmt pbkdf2_sha1 {_a('password')} {_a('salt')} 2", ab64(bytes.fromhex("ea6c014dc72d6f8ccd1ed92ace1d41f0d8de8957"))),
    ("sfmt scrypt - - 4 1 1", b64s(bytes.fromhex("77d6576238657b203b19ca42c18a0497f16b4844e3074ae8dfdffa3fede21442"))),
    # documentation examples of the PBKDF2 wrappers
    ("sfmt cta_pbkdf2_sha1 " + _a("password") + " " + base64.urlsafe_b64decode("oX9ZZOcNgYoAsYL-8bqxKg==").hex() + " 10000", "AU2JLf2rNxWoZxWxRCluY0u6h6c="),
    (f"sfmt dlitz_pbkdf2_sha1 {_a('password')} {_a('.pPqsEwHD7MiECU0')} 10000", "b8TQ5AMQemtlaSgegw5Je.JBE3QQhLbO"),
    (f"sfmt atlassian_pbkdf2_sha1 {_a('password')} 0d0217254d37f2ee0fec576cb854d8ff", "DQIXJU038u4P7FdsuFTY/+35bm41kfjZa57UrdxHp2Mu3qF2uy+ooD+jF5t1tb8J"),
    (f"sfmt fshp {_a('password')} 3eda2a70651eb66544cbfb91f3bd794c 16384 1", "PtoqcGUetmVEy/uR8715TNqKa8+teMF9qZO1lA9lJNUm1EQBLPZ+qPRLeEPHqy6C"),
    # Cisco: vectors confirmed on an ASA 9.6 device (passlib test-suite notes), Type 7 documentation example
    (f"sfmt cisco_pix {_a('password')} -", "NuLKvvWGg.x9HEKO"),
    (f"sfmt cisco_asa {_a('0123456789abcdef')} -", ".7nfVBEIEu4KbF/1"),
    (f"sfmt cisco_asa {_a('0123456789ab')} {_a('user')}", "f.T4BKdzdNkjxQl7"),
    (f"sfmt cisco_asa {_a('0123456789abc')} {_a('user')}", "8Q/FZeam5ai1A47p"),
    (f"sfmt cisco_asa {_a('0123456789abcdefq')} {_a('365')}", "4fKSSUBHT1ChGqHp"),
    (f"sfmt cisco_type7 {_a('password')} 4", "044B0A151C36435C0D"),
]


# --------------------------------------------------------------------------------------------------
class Case:
    """one evaluation: `fmt` (suite tag), the protocol line for the Lean specification, a thunk producing passlib's hash
    string, and the rule that cuts the checksum characters out of that string"""

    __slots__ = ("tag", "line", "thunk", "cut", "inp", "reject")

    def __init__(self, tag, line, thunk, cut, inp, reject=None):
        self.tag, self.line, self.thunk, self.cut, self.inp, self.reject = tag, line, thunk, cut, inp, reject


def last(sep):
    return lambda s: s.rsplit(sep, 1)[1]


def gen_cases(ctx, only=None):
    """yield Case objects over the property's grid.  `only`: optional set of format names."""
    warnings.simplefilter("ignore")
    from passlib import hash as H

    rng = ctx.rng
    T = ctx.thorough
    want = (lambda n: True) if only is None else (lambda n: n in only)
    rep = 3 if T else 1

    def P(secret):
        return hx(asb(secret))

    # ---------------------------------------------------------------- DES family
    if want("des_crypt"):
        for k, n in enumerate(lens_for(ctx) * rep):
            p, s = pwd_bytes(rng, n), salt_chars(rng, 2, k=k)
            yield Case("des_crypt", f"sfmt des_crypt {P(p)} {hs(s)}", lambda p=p, s=s: H.des_crypt.using(salt=s).hash(p), lambda h: h[2:], {"fmt": "des_crypt", "pwd": p.hex(), "salt": s})
    if want("django_des_crypt"):
        for k, n in enumerate(lens_for(ctx, cheap=False)):
            p, s = pwd_bytes(rng, n), salt_chars(rng, rng.choice([2, 2, 3, 8, 12]), k=k)
            yield Case("django_des_crypt", f"sfmt django_des_crypt {P(p)} {hs(s[:2])}", lambda p=p, s=s: H.django_des_crypt.using(salt=s).hash(p),
                       lambda h: h.rsplit("$", 1)[1][2:], {"fmt": "django_des_crypt", "pwd": p.hex(), "salt": s})
    if want("bsdi_crypt"):
        rgrid = [1, 2, 3, 5, 7, 25, 63, 64, 65, 725] + ([4095, 4097, 16777215 // 4096] if T else [1023])
        cases = [(n, rgrid[k % len(rgrid)]) for k, n in enumerate(lens_for(ctx))] + [(LENS[k % len(LENS)], r) for k, r in enumerate(rgrid)]
        for k, (n, r) in enumerate(cases * rep):
            p, s = pwd_bytes(rng, n), salt_chars(rng, 4, k=k)
            if r % 2:
                th = lambda p=p, s=s, r=r: H.bsdi_crypt.using(salt=s, rounds=r).hash(p)
            else:  # .using() moves an even count to the next odd one (weak-key avoidance): even counts go through the verify path
                th = lambda p=p, s=s, r=r: H.bsdi_crypt.genhash(p, "_" + "".join(H64[(r >> (6 * i)) & 63] for i in range(4)) + s)
            yield Case("bsdi_crypt:" + ("odd" if r % 2 else "even"), f"sfmt bsdi_crypt {P(p)} {hs(s)} {r}", th, lambda h: h[9:],
                       {"fmt": "bsdi_crypt", "pwd": p.hex(), "salt": s, "rounds": r})
    if want("bigcrypt"):
        for k, n in enumerate(lens_for(ctx) * rep):
            p, s = pwd_bytes(rng, n), salt_chars(rng, 2, k=k)
            yield Case("bigcrypt", f"sfmt bigcrypt {P(p)} {hs(s)}", lambda p=p, s=s: H.bigcrypt.using(salt=s).hash(p), lambda h: h[2:], {"fmt": "bigcrypt", "pwd": p.hex(), "salt": s})
    if want("crypt16"):
        for k, n in enumerate(lens_for(ctx) * rep):
            p, s = pwd_bytes(rng, n), salt_chars(rng, 2, k=k)
            yield Case("crypt16", f"sfmt crypt16 {P(p)} {hs(s)}", lambda p=p, s=s: H.crypt16.using(salt=s).hash(p), lambda h: h[2:], {"fmt": "crypt16", "pwd": p.hex(), "salt": s})
    if want("lmhash"):
        for k, n in enumerate((lens_for(ctx) + [2, 6, 13, 14]) * rep):
            p = pwd_bytes(rng, n)  # bytes: taken as already OEM-encoded
            yield Case("lmhash", f"sfmt lmhash {P(p)}", lambda p=p: H.lmhash.hash(p), lambda h: h, {"fmt": "lmhash", "pwd": p.hex()})
        cp437 = [c for c in (bytes([b]).decode("cp437") for b in range(128, 256)) if c.upper() == c and c.lower() == c]
        for n in [1, 7, 8, 14, 15]:
            t = "".join(rng.choice(cp437 + list("abcXYZ09 ~")) for _ in range(n))
            yield Case("lmhash", f"sfmt lmhash {hx(t.encode('cp437'))}", lambda t=t: H.lmhash.hash(t), lambda h: h, {"fmt": "lmhash", "text": t})
    if want("oracle10"):
        for k, n in enumerate(lens_for(ctx, cheap=False) + [1024]):
            t = pwd_text(rng, n) if k % 2 else pwd_ascii(rng, n)
            u = pwd_text(rng, rng.choice([1, 3, 4, 8, 30]))
            sec = t if k % 3 else t.encode("utf-8")
            yield Case("oracle10", f"sfmt oracle10 {hs(t)} {hs(u)}", lambda sec=sec, u=u: H.oracle10.hash(sec, user=u), lambda h: h, {"fmt": "oracle10", "text": t, "user": u})

    # ---------------------------------------------------------------- {CRYPT} wrappers and the public path of the four crypt formats of part 1
    if want("ldap_crypt"):
        for k, n in enumerate(LENS[::2] + [300]):
            p = pwd_bytes(rng, n)
            s2, s4, s8 = salt_chars(rng, 2, k=k), salt_chars(rng, 4, k=k), salt_chars(rng, 8, k=k)
            yield Case("ldap_des_crypt", f"sfmt des_crypt {P(p)} {hs(s2)}", lambda p=p, s=s2: H.ldap_des_crypt.using(salt=s).hash(p), lambda h: h[9:], {"fmt": "ldap_des_crypt", "pwd": p.hex(), "salt": s2})
            yield Case("ldap_bsdi_crypt", f"sfmt bsdi_crypt {P(p)} {hs(s4)} 5", lambda p=p, s=s4: H.ldap_bsdi_crypt.using(salt=s, rounds=5).hash(p), lambda h: h[16:], {"fmt": "ldap_bsdi_crypt", "pwd": p.hex(), "salt": s4})
            yield Case("ldap_sha1_crypt", f"sfmt sha1_crypt {P(p)} {hs(s8)} 3", lambda p=p, s=s8: H.ldap_sha1_crypt.using(salt=s, rounds=3).hash(p), last("$"), {"fmt": "ldap_sha1_crypt", "pwd": p.hex(), "salt": s8})
            sb = bcrypt_salt(rng, k)
            yield Case("ldap_bcrypt", f"sfmt bcrypt {P(p)} {hs('2b')} {hs(sb)} 4", lambda p=p, s=sb: _with_backend("bcrypt", "bcrypt", lambda: H.ldap_bcrypt.using(salt=s, rounds=4).hash(p)), lambda h: h[-31:], {"fmt": "ldap_bcrypt", "pwd": p.hex(), "salt": sb})
            yield Case("ldap_hex_md5", f"sfmt hex_md5 {P(p)}", lambda p=p: H.ldap_hex_md5.hash(p), last("}"), {"fmt": "ldap_hex_md5", "pwd": p.hex()})
            yield Case("ldap_hex_sha1", f"sfmt hex_sha1 {P(p)}", lambda p=p: H.ldap_hex_sha1.hash(p), last("}"), {"fmt": "ldap_hex_sha1", "pwd": p.hex()})
            r = [1000, 1001, 1042, 5000, 1043][k % 5]
            for nm, var, rr in (("md5_crypt", "md5", 0), ("apr_md5_crypt", "apr", 0), ("ldap_md5_crypt", "md5", 0), ("sha256_crypt", "sha256", r), ("sha512_crypt", "sha512", r),
                                ("ldap_sha256_crypt", "sha256", r), ("ldap_sha512_crypt", "sha512", r)):
                h = getattr(H, nm)
                sl = salt_chars(rng, [8, 0, 1, 7][k % 4] if rr == 0 else [16, 0, 1, 15][k % 4], k=k)
                kw = {"salt": sl} if rr == 0 else {"salt": sl, "rounds": rr}
                yield Case(nm + ":public", f"shac spec {var} {P(p)} {hs(sl)} {rr}", lambda h=h, p=p, kw=kw: h.using(**kw).hash(p), last("$"), {"fmt": nm, "pwd": p.hex(), "salt": sl, "rounds": rr})

    # ---------------------------------------------------------------- bcrypt family
    def bc_line(fmt, p, ident, salt, cost):
        return f"sfmt {fmt} {P(p)} {hs(ident)} {hs(salt)} {cost}"

    if want("bcrypt"):
        idents = ["2b", "2a", "2y", "2"]
        lens = lens_for(ctx) + [71, 74]
        # builtin (pure Python) back end: a few, it is slow
        blt = [(0, "2b", 4), (8, "2a", 4), (72, "2b", 4), (73, "2y", 4), (255, "2", 4), (16, "2b", 5)] + ([(n, idents[k % 4], 4 + (k % 3 == 0)) for k, n in enumerate(lens)] if T else [])
        for k, (n, ident, cost) in enumerate(blt):
            p, s = pwd_bytes(rng, n), bcrypt_salt(rng, k)
            yield Case("bcrypt:builtin", bc_line("bcrypt", p, ident, s, cost), lambda p=p, s=s, ident=ident, cost=cost: _with_backend("bcrypt", "builtin", lambda: H.bcrypt.using(salt=s, rounds=cost, ident=ident).hash(p)),
                       lambda h: h[-31:], {"fmt": "bcrypt", "backend": "builtin", "pwd": p.hex(), "salt": s, "ident": ident, "rounds": cost})
        for k, (n, ident) in enumerate([(n, idents[k % 4]) for k, n in enumerate(lens * rep)] + [(n, "2") for n in (0, 1, 2, 3, 5, 7, 35, 36, 37, 71, 72, 73, 74, 144)]):
            cost = [4, 4, 5, 4, 6][k % 5]
            p, s = pwd_bytes(rng, n), bcrypt_salt(rng, k)
            yield Case("bcrypt:bcrypt-pkg", bc_line("bcrypt", p, ident, s, cost), lambda p=p, s=s, ident=ident, cost=cost: _with_backend("bcrypt", "bcrypt", lambda: H.bcrypt.using(salt=s, rounds=cost, ident=ident).hash(p)),
                       lambda h: h[-31:], {"fmt": "bcrypt", "backend": "bcrypt", "pwd": p.hex(), "salt": s, "ident": ident, "rounds": cost})
    if want("django_bcrypt"):
        for k, n in enumerate(lens_for(ctx, cheap=False)):
            ident = ["2b", "2a", "2y"][k % 3]
            p, s = pwd_bytes(rng, n), bcrypt_salt(rng, k)
            yield Case("django_bcrypt", bc_line("django_bcrypt", p, ident, s, 4), lambda p=p, s=s, ident=ident: _with_backend("bcrypt", "bcrypt", lambda: H.django_bcrypt.using(salt=s, rounds=4, ident=ident).hash(p)),
                       lambda h: h[-31:], {"fmt": "django_bcrypt", "pwd": p.hex(), "salt": s, "ident": ident})
    if want("bcrypt_sha256"):
        for k, n in enumerate(lens_for(ctx) * rep):
            ver, ident = [(2, "2b"), (1, "2b"), (1, "2a")][k % 3]
            p, s = pwd_bytes(rng, n), bcrypt_salt(rng, k)
            be = "builtin" if (k % 12 == 0 and not T) or (T and k % 4 == 0) else "bcrypt"
            yield Case(f"bcrypt_sha256:v{ver}:{be}", bc_line(f"bcrypt_sha256_v{ver}", p, ident, s, 4),
                       lambda p=p, s=s, ident=ident, ver=ver, be=be: _with_backend("bcrypt", be, lambda: H.bcrypt_sha256.using(salt=s, rounds=4, ident=ident, version=ver).hash(p)),
                       last("$"), {"fmt": "bcrypt_sha256", "version": ver, "pwd": p.hex(), "salt": s, "ident": ident, "backend": be})
    if want("django_bcrypt_sha256"):
        for k, n in enumerate(lens_for(ctx)):
            ident = ["2b", "2a", "2y"][k % 3]
            p, s = pwd_bytes(rng, n), bcrypt_salt(rng, k)
            yield Case("django_bcrypt_sha256", bc_line("django_bcrypt_sha256", p, ident, s, 4), lambda p=p, s=s, ident=ident: _with_backend("bcrypt", "bcrypt", lambda: H.django_bcrypt_sha256.using(salt=s, rounds=4, ident=ident).hash(p)),
                       lambda h: h[-31:], {"fmt": "django_bcrypt_sha256", "pwd": p.hex(), "salt": s, "ident": ident})
    if want("libpass_bcrypt"):
        from libpass.hashers.bcrypt import BcryptHasher, BcryptSHA256Hasher

        for k, n in enumerate(lens_for(ctx, cheap=False)):
            ident = ["2b", "2a"][k % 2]
            p, s = pwd_bytes(rng, n), bcrypt_salt(rng, k)
            yield Case("libpass:BcryptHasher", bc_line("bcrypt", p, ident, s, 4), lambda p=p, s=s, ident=ident: BcryptHasher(rounds=4, prefix=ident).hash(p, salt=f"${ident}$04${s}".encode()),
                       lambda h: h[-31:], {"fmt": "libpass.BcryptHasher", "pwd": p.hex(), "salt": s, "ident": ident}, reject=(lambda e, n=n: n > 72 and e == "ValueError"))
            p, s = pwd_bytes(rng, n), bcrypt_salt(rng, k + 1)
            yield Case("libpass:BcryptSHA256Hasher", bc_line("bcrypt_sha256_v2", p, "2b", s, 4), lambda p=p, s=s: BcryptSHA256Hasher(rounds=4).hash(p, salt=f"$2b$04${s}".encode()),
                       last("$"), {"fmt": "libpass.BcryptSHA256Hasher", "pwd": p.hex(), "salt": s})

    # ---------------------------------------------------------------- iterated digests
    if want("sha1_crypt"):
        rgrid = [1, 2, 3, 4, 5, 63, 64, 65, 100, 1000] + ([4096, 20000] if T else [])
        cases = [(n, rgrid[k % len(rgrid)]) for k, n in enumerate(lens_for(ctx))] + [(LENS[(3 * k) % len(LENS)], r) for k, r in enumerate(rgrid)]
        for k, (n, r) in enumerate(cases * rep):
            p, s = pwd_bytes(rng, n), salt_chars(rng, [8, 0, 1, 64, 63, 16, 7][k % 7], k=k)
            yield Case("sha1_crypt", f"sfmt sha1_crypt {P(p)} {hs(s)} {r}", lambda p=p, s=s, r=r: H.sha1_crypt.using(salt=s, rounds=r).hash(p), last("$"),
                       {"fmt": "sha1_crypt", "pwd": p.hex(), "salt": s, "rounds": r})
    if want("sun_md5_crypt"):
        rgrid = [0, 1, 2, 3, 9, 10, 63, 64, 65, 127, 128, 904] + ([4096, 10000] if T else [])
        cases = [(n, rgrid[k % len(rgrid)]) for k, n in enumerate(lens_for(ctx))] + [(LENS[(5 * k) % len(LENS)], r) for k, r in enumerate(rgrid)]
        for k, (n, r) in enumerate(cases * rep):
            p, s, bare = pwd_bytes(rng, n), salt_chars(rng, [8, 0, 1, 16, 4, 7][k % 6], k=k), k % 3 == 1
            yield Case("sun_md5_crypt:" + ("bare" if bare else "std"), f"sfmt sun_md5_crypt {P(p)} {hs(s)} {r} {int(bare)}",
                       lambda p=p, s=s, r=r, bare=bare, k=k: (H.sun_md5_crypt.using(salt=s, rounds=r).hash(p) if (not bare and k % 2) else
                                                              H.sun_md5_crypt.genhash(p, ("$md5$" if r == 0 else f"$md5,rounds={r}$") + s + ("" if bare else "$"))), last("$"),
                       {"fmt": "sun_md5_crypt", "pwd": p.hex(), "salt": s, "rounds": r, "bare_salt": bare})
    if want("phpass"):
        rgrid = [7, 8, 9, 10] + ([11, 13, 16] if T else [])
        for k, n in enumerate(lens_for(ctx) * rep):
            r, ident = rgrid[k % len(rgrid)], ["$P$", "$H$"][k % 2]
            p, s = pwd_bytes(rng, n), salt_chars(rng, 8, k=k)
            yield Case("phpass:" + ident, f"sfmt phpass {P(p)} {hs(s)} {r}", lambda p=p, s=s, r=r, ident=ident: H.phpass.using(salt=s, rounds=r, ident=ident).hash(p), lambda h: h[12:],
                       {"fmt": "phpass", "pwd": p.hex(), "salt": s, "rounds": r, "ident": ident})
    if want("fshp"):
        rgrid = [1, 2, 3, 4, 17, 64, 480] + ([4096, 16384] if T else [])
        k = 0
        for variant in (0, 1, 2, 3):
            for n in lens_for(ctx):
                k += 1
                r = rgrid[k % len(rgrid)]
                p, s = pwd_bytes(rng, n), salt_bytes(rng, [16, 0, 1, 8, 63, 64, 65, 130][k % 8], k=k)
                yield Case(f"fshp:{variant}", f"sfmt fshp {P(p)} {hx(s)} {r} {variant}", lambda p=p, s=s, r=r, v=variant: H.fshp.using(salt=s, rounds=r, variant=v).hash(p), last("}"),
                           {"fmt": "fshp", "variant": variant, "pwd": p.hex(), "salt": s.hex(), "rounds": r})

    # ---------------------------------------------------------------- PBKDF2 family
    ssz = [16, 0, 1, 15, 17, 63, 64, 65, 127, 128, 129, 1024]
    rg = [1, 2, 3, 4, 10, 29, 100] + ([1000, 6400] if T else [])
    for name, cut, salt_kind in (
        ("pbkdf2_sha1", last("$"), "b"), ("pbkdf2_sha256", last("$"), "b"), ("pbkdf2_sha512", last("$"), "b"),
        ("ldap_pbkdf2_sha1", last("$"), "b"), ("ldap_pbkdf2_sha256", last("$"), "b"), ("ldap_pbkdf2_sha512", last("$"), "b"),
        ("cta_pbkdf2_sha1", last("$"), "b"), ("dlitz_pbkdf2_sha1", last("$"), "h"), ("grub_pbkdf2_sha512", last("."), "b"),
        ("django_pbkdf2_sha1", last("$"), "a"), ("django_pbkdf2_sha256", last("$"), "a"),
    ):
        if not want(name):
            continue
        h = getattr(H, name)
        lens = lens_for(ctx, cheap=name in ("pbkdf2_sha256", "pbkdf2_sha512", "dlitz_pbkdf2_sha1"))
        cases = [(n, rg[k % len(rg)]) for k, n in enumerate(lens)] + ([(16, 400), (8, 1024)] if name == "dlitz_pbkdf2_sha1" else [])
        for k, (n, r) in enumerate(cases * rep):
            p = pwd_bytes(rng, n)
            sz = ssz[k % len(ssz)]
            if salt_kind == "b":
                s = salt_bytes(rng, sz, k=k)
                sarg = hx(s)
            elif salt_kind == "h":
                s = salt_chars(rng, sz, k=k)
                sarg = hs(s)
            else:
                s = salt_chars(rng, max(1, min(sz, 64)), ALNUM, k=k)
                sarg = hs(s)
            yield Case(name, f"sfmt {name} {P(p)} {sarg} {r}", lambda h=h, p=p, s=s, r=r: h.using(salt=s, rounds=r).hash(p), cut,
                       {"fmt": name, "pwd": p.hex(), "salt": s.hex() if isinstance(s, bytes) else s, "rounds": r})
    if want("atlassian_pbkdf2_sha1"):
        for k, n in enumerate(lens_for(ctx, cheap=False) if T else [0, 1, 8, 63, 64, 65, 128, 256]):
            p, s = pwd_bytes(rng, n), salt_bytes(rng, 16, k=k)
            yield Case("atlassian_pbkdf2_sha1", f"sfmt atlassian_pbkdf2_sha1 {P(p)} {hx(s)}", lambda p=p, s=s: H.atlassian_pbkdf2_sha1.using(salt=s).hash(p), last("}"),
                       {"fmt": "atlassian_pbkdf2_sha1", "pwd": p.hex(), "salt": s.hex()})
    if want("libpass_pbkdf2"):
        from libpass.hashers.pbkdf2 import PBKDF2SHA256Handler, PBKDF2SHA512Handler

        for cls, nm in ((PBKDF2SHA256Handler, "pbkdf2_sha256"), (PBKDF2SHA512Handler, "pbkdf2_sha512")):
            for k, n in enumerate(lens_for(ctx, cheap=False)):
                p, s, r = pwd_bytes(rng, n), salt_bytes(rng, ssz[1 + k % (len(ssz) - 1)] or 1, k=k), rg[k % len(rg)]
                yield Case("libpass:" + cls.__name__, f"sfmt {nm} {P(p)} {hx(s)} {r}", lambda cls=cls, p=p, s=s, r=r: cls().hash(p, salt=s, rounds=r), last("$"),
                           {"fmt": "libpass." + cls.__name__, "pwd": p.hex(), "salt": s.hex(), "rounds": r})
    if want("scram"):
        algs = ["sha-1", "sha-256", "sha-512", "md5", "sha-224", "sha-384"]
        for k, n in enumerate(lens_for(ctx, cheap=False)):
            t = pwd_text(rng, n)
            if not py_saslprep_ok(t):
                t = "".join(c for c in t if py_saslprep_ok(c))
            s, r = salt_bytes(rng, ssz[k % len(ssz)], k=k), rg[k % len(rg)]
            sel = ["sha-1"] + [a for j, a in enumerate(algs[1:]) if (k + j) % 2 == 0]
            sec = t if k % 2 else t.encode("utf-8")
            hobj = {}

            def run(sec=sec, s=s, r=r, sel=sel, hobj=hobj):
                if "h" not in hobj:
                    hobj["h"] = H.scram.using(salt=s, rounds=r, algs=",".join(sel)).hash(sec)
                return hobj["h"]

            if k % 3 == 0 and t:
                # characters SASLprep maps: soft hyphen / ZWSP vanish, NBSP and IDEOGRAPHIC SPACE become SPACE, NFKC folds compatibility forms
                # … and sequences on which the ORDER of the two steps shows: a character that is mapped to nothing between a base letter and its
                # combining mark (map first: they compose), between Hangul jamo, or a space that only appears after mapping
                ins = rng.choice(["\u00ad", "\u200b", "\u00a0", "\u3000", "\u00aa", "\u2168", "\ufb01", "\uff21", "e\u0301", "\u1e9b\u0323",
                                  "e\u00ad\u0301", "a\u200d\u030a", "o\ufe0f\u0308", "\u1100\u200b\u1161", "\u1100\u1161\u00ad\u11a8", "c\u2060\u0327", "I\u200c\u0307"])
                pos = rng.randrange(len(t) + 1)
                raw = t[:pos] + ins + t[pos:]
                t = py_saslprep(raw)
                sec = raw if k % 2 else raw.encode("utf-8")
                hobj = {}

                def run(sec=sec, s=s, r=r, sel=sel, hobj=hobj):
                    if "h" not in hobj:
                        hobj["h"] = H.scram.using(salt=s, rounds=r, algs=",".join(sel)).hash(sec)
                    return hobj["h"]

            for a in sel:
                yield Case("scram:" + a, f"sfmt scram {hs(t)} {hx(s)} {r} {a}", run, (lambda h, a=a: dict(x.split("=", 1) for x in h.rsplit("$", 1)[1].split(","))[a]),
                           {"fmt": "scram", "text": t, "salt": s.hex(), "rounds": r, "alg": a})
    if want("scrypt"):
        grid = [(1, 1, 1), (2, 1, 1), (3, 2, 1), (4, 8, 1), (1, 8, 2), (5, 1, 3), (2, 3, 2), (4, 1, 1)] + ([(6, 8, 1), (8, 2, 1), (3, 8, 4)] if T else [])
        for k, n in enumerate(lens_for(ctx) * rep):
            ln, r, pp = grid[k % len(grid)]
            p = pwd_bytes(rng, n)
            s = salt_bytes(rng, ssz[k % len(ssz)], k=k)
            be = "builtin" if k % 2 == 0 else "stdlib"
            if be == "stdlib" and not s:
                pass
            yield Case("scrypt:$scrypt$:" + be, f"sfmt scrypt {P(p)} {hx(s)} {ln} {r} {pp}",
                       lambda p=p, s=s, ln=ln, r=r, pp=pp, be=be: _with_backend("scrypt", be, lambda: H.scrypt.using(salt=s, rounds=ln, block_size=r, parallelism=pp).hash(p)), last("$"),
                       {"fmt": "scrypt", "pwd": p.hex(), "salt": s.hex(), "ln": ln, "r": r, "p": pp, "backend": be})
        for k, n in enumerate(lens_for(ctx, cheap=False)):
            ln, r, pp = grid[(k + 3) % len(grid)]
            p = pwd_bytes(rng, n)
            s = salt_chars(rng, [16, 0, 1, 22, 43, 64][k % 6], k=k)
            yield Case("scrypt:$7$", f"sfmt scrypt7 {P(p)} {hs(s)} {ln} {r} {pp}",
                       lambda p=p, s=s, ln=ln, r=r, pp=pp: _with_backend("scrypt", "builtin", lambda: H.scrypt.using(ident="$7$", salt=s.encode(), rounds=ln, block_size=r, parallelism=pp).hash(p)), last("$"),
                       {"fmt": "scrypt$7$", "pwd": p.hex(), "salt": s, "ln": ln, "r": r, "p": pp})

    # ---------------------------------------------------------------- digests
    for name, cut in (("hex_md4", None), ("hex_md5", None), ("hex_sha1", None), ("hex_sha256", None), ("hex_sha512", None), ("ldap_md5", last("}")), ("ldap_sha1", last("}")),
                      ("mysql323", None), ("mysql41", lambda h: h[1:])):
        if not want(name):
            continue
        h = getattr(H, name)
        extra = [5, 6, 54, 57, 111, 112, 113, 119, 120, 121] if name.startswith("hex_") else []
        for n in (lens_for(ctx) + extra) * rep:
            p = pwd_bytes(rng, n)
            if name == "mysql323" and n:
                p = bytes(rng.choice([32, 9, c]) if rng.random() < 0.15 else c for c in p)
            yield Case(name, f"sfmt {name} {P(p)}", lambda h=h, p=p: h.hash(p), cut or (lambda s: s), {"fmt": name, "pwd": p.hex()})
    for name, szs in (("ldap_salted_md5", [4, 5, 8, 15, 16]), ("ldap_salted_sha1", [4, 5, 8, 15, 16]), ("ldap_salted_sha256", [4, 8, 16]), ("ldap_salted_sha512", [4, 8, 16])):
        if not want(name):
            continue
        h = getattr(H, name)
        for k, n in enumerate(lens_for(ctx) * rep):
            p, s = pwd_bytes(rng, n), salt_bytes(rng, szs[k % len(szs)], k=k)
            yield Case(name, f"sfmt {name} {P(p)} {hx(s)}", lambda h=h, p=p, s=s: h.using(salt=s).hash(p), last("}"), {"fmt": name, "pwd": p.hex(), "salt": s.hex()})
    for name in ("django_salted_md5", "django_salted_sha1"):
        if not want(name):
            continue
        h = getattr(H, name)
        for k, n in enumerate(lens_for(ctx) * rep):
            p, s = pwd_bytes(rng, n), salt_chars(rng, [12, 0, 1, 5, 22, 64][k % 6], ALNUM, k=k)
            yield Case(name, f"sfmt {name} {P(p)} {hs(s)}", lambda h=h, p=p, s=s: h.using(salt=s).hash(p), last("$"), {"fmt": name, "pwd": p.hex(), "salt": s})
    if want("nthash"):
        for k, n in enumerate(lens_for(ctx) * rep):
            t = pwd_text(rng, n, caseless=False)
            sec = t if k % 2 else t.encode("utf-8")
            yield Case("nthash", f"sfmt nthash {hs(t)}", lambda sec=sec: H.nthash.hash(sec), lambda h: h, {"fmt": "nthash", "text": t})
            if k % 3 == 0:
                yield Case("bsd_nthash", f"sfmt bsd_nthash {hs(t)}", lambda sec=sec: H.bsd_nthash.hash(sec), lambda h: h[4:], {"fmt": "bsd_nthash", "text": t})
    for name in ("msdcc", "msdcc2"):
        if not want(name):
            continue
        h = getattr(H, name)
        lens = lens_for(ctx, cheap=(name == "msdcc")) if (T or name == "msdcc") else [0, 1, 8, 27, 28, 63, 64, 65, 128, 256]
        for k, n in enumerate(lens):
            t = pwd_text(rng, n, caseless=False)
            u = pwd_text(rng, [1, 5, 13, 20, 64, 0][k % 6], caseless=True)
            if k % 2:
                # the user name is lower-cased, nothing more: characters that are already lower case but are rewritten by stronger
                # foldings (casefold: ß -> ss, ﬁ -> fi, ſ -> s; NFKC: ﬁ, ª) must reach the digest unchanged
                u = "".join(c + rng.choice(LOWER_STABLE) for c in u[:32]) or rng.choice(LOWER_STABLE)
            sec = t if k % 2 else t.encode("utf-8")
            usr = u if k % 3 else u.encode("utf-8")
            yield Case(name, f"sfmt {name} {hs(t)} {hs(u)}", lambda h=h, sec=sec, usr=usr: h.hash(sec, user=usr), lambda s: s, {"fmt": name, "text": t, "user": u})
    if want("postgres_md5"):
        for k, n in enumerate(lens_for(ctx) * rep):
            p = pwd_bytes(rng, n)
            u = pwd_text(rng, [1, 5, 13, 63, 64][k % 5])
            yield Case("postgres_md5", f"sfmt postgres_md5 {P(p)} {hs(u)}", lambda p=p, u=u: H.postgres_md5.hash(p, user=u), lambda h: h[3:], {"fmt": "postgres_md5", "pwd": p.hex(), "user": u})
    if want("oracle11"):
        for k, n in enumerate(lens_for(ctx) * rep):
            p, s = pwd_bytes(rng, n), salt_bytes(rng, 10, k=k)
            yield Case("oracle11", f"sfmt oracle11 {P(p)} {hx(s)}", lambda p=p, s=s: H.oracle11.using(salt=s.hex().upper()).hash(p), lambda h: h[2:42], {"fmt": "oracle11", "pwd": p.hex(), "salt": s.hex()})
    for name in ("mssql2000", "mssql2005"):
        if not want(name):
            continue
        h = getattr(H, name)
        for k, n in enumerate(lens_for(ctx) * rep):
            t = pwd_text(rng, n, caseless=True)
            s = salt_bytes(rng, 4, k=k)
            sec = t if k % 2 else t.encode("utf-8")
            yield Case(name, f"sfmt {name} {hs(t)} {hx(s)}", lambda h=h, sec=sec, s=s: h.using(salt=s).hash(sec), lambda x: x, {"fmt": name, "text": t, "salt": s.hex()})
    for name, cap in (("cisco_pix", 16), ("cisco_asa", 32)):
        if not want(name):
            continue
        h = getattr(H, name)
        users = ["", "a", "ab", "abc", "abcd", "abcde", "user1234", "é", "x一"]
        k = 0
        for n in list(range(0, cap + 2)) * (2 if not T else 6):
            k += 1
            p = pwd_bytes(rng, n)
            u = users[k % len(users)]
            yield Case(name, f"sfmt {name} {P(p)} {hs(u)}", lambda h=h, p=p, u=u: h.hash(p, user=u), lambda x: x, {"fmt": name, "pwd": p.hex(), "user": u},
                       reject=(lambda e, n=n, cap=cap: n > cap and e == "PasswordSizeError"))
    if want("cisco_type7"):
        for k, n in enumerate(lens_for(ctx) * rep):
            p = pwd_bytes(rng, n)
            s = [0, 15, 16, 52, 9, 10, 51, 26, 27][k % 9]
            yield Case("cisco_type7", f"sfmt cisco_type7 {P(p)} {s}", lambda p=p, s=s: H.cisco_type7.using(salt=s).hash(p), lambda x: x, {"fmt": "cisco_type7", "pwd": p.hex(), "salt": s})
    if want("htdigest"):
        for k, n in enumerate(lens_for(ctx) * rep):
            t = pwd_text(rng, n, caseless=False)
            u = pwd_text(rng, [1, 5, 13, 64][k % 4], caseless=False).replace(":", "_") or "u"
            realm = pwd_text(rng, [0, 1, 9, 64][k % 4], caseless=False)
            sec = t if k % 2 else t.encode("utf-8")
            yield Case("htdigest", f"sfmt htdigest {hs(t)} {hs(u)} {hs(realm)}", lambda sec=sec, u=u, realm=realm: H.htdigest.hash(sec, user=u, realm=realm), lambda x: x,
                       {"fmt": "htdigest", "text": t, "user": u, "realm": realm})


def _with_backend(hname, bname, thunk):
    with backend(hname, bname):
        return thunk()


ALL_GROUPS = None  # gen_cases(only=None) covers everything


def run_case(c: Case):
    """-> (answer string for the Suite, note)"""
    try:
        h = c.thunk()
    except Exception as e:  # noqa: BLE001
        return "err " + errname(e), errname(e)
    try:
        return okhex(c.cut(h)), None
    except Exception as e:  # noqa: BLE001
        return "err cut:" + errname(e) + ":" + str(h)[:80], None


# --------------------------------------------------------------------------------------------------
# third implementations
def third_party(ctx):
    """yield (tag, ok, input, observed, expected): passlib's string vs an independent implementation's string for the same
    settings, and passlib.verify on the independent string."""
    warnings.simplefilter("ignore")
    import random

    from passlib import hash as H

    rng = random.Random(f"C02-third:{ctx.seed}:{ctx.tier}")   # own stream: search and replay see the same inputs as correspond
    T = ctx.thorough

    def both(tag, handler, secret, theirs, mine_thunk, inp, **vkw):
        try:
            mine = mine_thunk()
        except Exception as e:  # noqa: BLE001
            mine = "err " + errname(e)
        yield (tag + ":equal", theirs is not None and mine == theirs, inp, mine, theirs)
        if theirs is not None:
            try:
                v = handler.verify(secret, theirs, **vkw)
            except Exception as e:  # noqa: BLE001
                v = "err " + errname(e)
            yield (tag + ":verify", v is True, inp, v, True)
            if len(asb(secret)) >= 4096:   # stay inside passlib's documented 4096 limit: change the first character instead
                wrong = (b"\x01" if secret[:1] != b"\x01" else b"\x02") + secret[1:] if isinstance(secret, bytes) else ("y" if secret[:1] != "y" else "z") + secret[1:]
            else:
                wrong = (secret + (b"x" if isinstance(secret, bytes) else "x"))
            try:
                v2 = handler.verify(wrong, theirs, **vkw)
            except Exception as e:  # noqa: BLE001
                v2 = "err " + errname(e)
            trunc = getattr(handler, "truncate_size", None)
            if not (trunc and len(asb(secret)) >= trunc):
                yield (tag + ":reject-other", v2 is False, inp, v2, False)

    lens = (LENS + [1024, 4096]) * 3 if T else LENS + [1024]

    # ---- the C library (libxcrypt refuses passphrases of 512 bytes and more)
    for k, n in enumerate([x for x in lens if x <= 511] + [510, 511]):
        p = pwd_bytes(rng, n)
        s2, s4 = salt_chars(rng, 2, k=k), salt_chars(rng, 4, k=k)
        for be in ("builtin", "os_crypt"):
            with backend("des_crypt", be):
                yield from both(f"os-crypt:des_crypt[{be}]", H.des_crypt, p, os_crypt(p, s2), lambda: H.des_crypt.using(salt=s2).hash(p), {"fmt": "des_crypt", "pwd": p.hex(), "salt": s2, "backend": be})
        r = [1, 3, 5, 25, 725, 1023][k % 6]
        rs = "".join(H64[(r >> (6 * i)) & 63] for i in range(4))
        for be in ("builtin", "os_crypt"):
            with backend("bsdi_crypt", be):
                yield from both(f"os-crypt:bsdi_crypt[{be}]", H.bsdi_crypt, p, os_crypt(p, "_" + rs + s4), lambda: H.bsdi_crypt.using(salt=s4, rounds=r).hash(p),
                                {"fmt": "bsdi_crypt", "pwd": p.hex(), "salt": s4, "rounds": r, "backend": be})
        s = salt_chars(rng, [8, 1, 16, 64][k % 4], k=k)
        r = [1, 2, 3, 100, 1000][k % 5]
        for be in ("builtin", "os_crypt"):
            with backend("sha1_crypt", be):
                yield from both(f"os-crypt:sha1_crypt[{be}]", H.sha1_crypt, p, os_crypt(p, f"$sha1${r}${s}"), lambda: H.sha1_crypt.using(salt=s, rounds=r).hash(p),
                                {"fmt": "sha1_crypt", "pwd": p.hex(), "salt": s, "rounds": r, "backend": be})
        s = salt_chars(rng, [8, 1, 4, 16, 0][k % 5], k=k)
        r = [0, 1, 5, 904][k % 4]
        pre = "$md5$" if r == 0 else f"$md5,rounds={r}$"
        yield from both("os-crypt:sun_md5_crypt", H.sun_md5_crypt, p, os_crypt(p, pre + s + "$"), lambda: H.sun_md5_crypt.using(salt=s, rounds=r).hash(p),
                        {"fmt": "sun_md5_crypt", "pwd": p.hex(), "salt": s, "rounds": r, "bare": False})
        if s or "sun-md5-bare-empty-salt" not in KNOWN:
            yield from both("os-crypt:sun_md5_crypt:bare", H.sun_md5_crypt, p, os_crypt(p, pre + s), lambda: H.sun_md5_crypt.genhash(p, pre + s),
                            {"fmt": "sun_md5_crypt", "pwd": p.hex(), "salt": s, "rounds": r, "bare": True})
        else:
            # the checksum itself is right (equal to the C library's and to the Lean specification); only re-reading the string fails
            theirs = os_crypt(p, pre)
            try:
                mine = H.sun_md5_crypt.genhash(p, pre)
            except Exception as e:  # noqa: BLE001
                mine = "err " + errname(e)
            yield ("os-crypt:sun_md5_crypt:bare-empty-salt:equal", mine == theirs, {"fmt": "sun_md5_crypt", "pwd": p.hex(), "salt": "", "rounds": r, "bare": True}, mine, theirs)
        sb = bcrypt_salt(rng, k)
        ident = ["2b", "2a", "2y"][k % 3]
        try:
            p.decode("utf-8")
            utf8 = True
        except UnicodeDecodeError:
            utf8 = False
        # (passlib's os_crypt back end of bcrypt refuses passwords that are not UTF-8: Python's crypt.crypt() takes str only)
        for be in ("bcrypt",) + (("os_crypt",) if utf8 else ()) + (("builtin",) if k % 8 == 0 else ()):
            try:
                ctxm = backend("bcrypt", be)
                with ctxm:
                    yield from both(f"os-crypt:bcrypt[{be}]", H.bcrypt, p, os_crypt(p, f"${ident}$04${sb}"), lambda: H.bcrypt.using(salt=sb, rounds=4, ident=ident).hash(p),
                                    {"fmt": "bcrypt", "pwd": p.hex(), "salt": sb, "ident": ident, "backend": be})
            except Exception as e:  # noqa: BLE001
                if "MissingBackend" not in type(e).__name__:
                    raise
        # scrypt $7$
        ln, rr, pp = [(2, 1, 1), (4, 8, 1), (3, 2, 2), (2, 1, 3)][k % 4]   # libxcrypt wants N >= 4
        s7 = salt_chars(rng, [16, 1, 22][k % 3], k=k)

        def enc30(v):
            return "".join(H64[(v >> (6 * i)) & 63] for i in range(5))

        with backend("scrypt", "builtin" if k % 2 else "stdlib"):
            yield from both("os-crypt:scrypt$7$", H.scrypt, p, os_crypt(p, "$7$" + H64[ln] + enc30(rr) + enc30(pp) + s7 + "$"),
                            lambda: H.scrypt.using(ident="$7$", salt=s7.encode(), rounds=ln, block_size=rr, parallelism=pp).hash(p), {"fmt": "scrypt$7$", "pwd": p.hex(), "salt": s7, "ln": ln, "r": rr, "p": pp})
        # NT hash
        t = pwd_ascii(rng, min(n, 300))   # libxcrypt widens bytes to 16 bits instead of decoding UTF-8: ASCII only
        theirs = os_crypt(t.encode("utf-8"), "$3$")
        yield from both("os-crypt:bsd_nthash", H.bsd_nthash, t, theirs, lambda: H.bsd_nthash.hash(t), {"fmt": "bsd_nthash", "text": t})

    # ---- hashlib.pbkdf2_hmac / hashlib.scrypt
    for k, n in enumerate(lens):
        p = pwd_bytes(rng, n)
        s = salt_bytes(rng, [16, 0, 1, 64, 65, 1024][k % 6], k=k)
        r = [1, 2, 3, 10, 1000][k % 5]
        for dg in ("sha1", "sha256", "sha512"):
            key = hashlib.pbkdf2_hmac(dg, p, s, r)
            yield from both(f"hashlib:pbkdf2_{dg}", getattr(H, "pbkdf2_" + dg), p, f"$pbkdf2{'' if dg == 'sha1' else '-' + dg}${r}${ab64(s)}${ab64(key)}",
                            lambda: getattr(H, "pbkdf2_" + dg).using(salt=s, rounds=r).hash(p), {"fmt": "pbkdf2_" + dg, "pwd": p.hex(), "salt": s.hex(), "rounds": r})
            yield from both(f"hashlib:ldap_pbkdf2_{dg}", getattr(H, "ldap_pbkdf2_" + dg), p, f"{{PBKDF2{'' if dg == 'sha1' else '-' + dg.upper()}}}{r}${ab64(s)}${ab64(key)}",
                            lambda: getattr(H, "ldap_pbkdf2_" + dg).using(salt=s, rounds=r).hash(p), {"fmt": "ldap_pbkdf2_" + dg, "pwd": p.hex(), "salt": s.hex(), "rounds": r})
        key = hashlib.pbkdf2_hmac("sha1", p, s, r, 20)
        yield from both("hashlib:cta_pbkdf2_sha1", H.cta_pbkdf2_sha1, p, f"$p5k2${r:x}${base64.urlsafe_b64encode(s).decode()}${base64.urlsafe_b64encode(key).decode()}",
                        lambda: H.cta_pbkdf2_sha1.using(salt=s, rounds=r).hash(p), {"fmt": "cta_pbkdf2_sha1", "pwd": p.hex(), "salt": s.hex(), "rounds": r})
        sd = salt_chars(rng, [16, 0, 1, 64][k % 4], k=k)
        rd = [1, 2, 400, 10, 1000][k % 5]
        cfg = "$p5k2$" + ("" if rd == 400 else f"{rd:x}") + "$" + sd
        key = hashlib.pbkdf2_hmac("sha1", p, cfg.encode(), rd, 24)
        yield from both("hashlib:dlitz_pbkdf2_sha1", H.dlitz_pbkdf2_sha1, p, cfg + "$" + base64.b64encode(key, b"./").decode(), lambda: H.dlitz_pbkdf2_sha1.using(salt=sd, rounds=rd).hash(p),
                        {"fmt": "dlitz_pbkdf2_sha1", "pwd": p.hex(), "salt": sd, "rounds": rd})
        key = hashlib.pbkdf2_hmac("sha512", p, s, r, 64)
        yield from both("hashlib:grub_pbkdf2_sha512", H.grub_pbkdf2_sha512, p, f"grub.pbkdf2.sha512.{r}.{s.hex().upper()}.{key.hex().upper()}", lambda: H.grub_pbkdf2_sha512.using(salt=s, rounds=r).hash(p),
                        {"fmt": "grub_pbkdf2_sha512", "pwd": p.hex(), "salt": s.hex(), "rounds": r})
        if k % 6 == 0:
            s16 = salt_bytes(rng, 16, k=k)
            key = hashlib.pbkdf2_hmac("sha1", p, s16, 10000, 32)
            yield from both("hashlib:atlassian_pbkdf2_sha1", H.atlassian_pbkdf2_sha1, p, "{PKCS5S2}" + base64.b64encode(s16 + key).decode(), lambda: H.atlassian_pbkdf2_sha1.using(salt=s16).hash(p),
                            {"fmt": "atlassian_pbkdf2_sha1", "pwd": p.hex(), "salt": s16.hex()})
        # scram: RFC 5802 Hi() = PBKDF2 with dkLen = hLen
        t = pwd_ascii(rng, min(n, 200)).replace("\x7f", "a")
        t = "".join(c for c in t if py_saslprep_ok(c))
        digs = {"sha-1": "sha1", "sha-256": "sha256", "sha-512": "sha512"}
        theirs = f"$scram${r}${ab64(s)}$" + ",".join(f"{a}={ab64(hashlib.pbkdf2_hmac(d, t.encode(), s, r))}" for a, d in digs.items())
        yield from both("hashlib:scram", H.scram, t, theirs, lambda: H.scram.using(salt=s, rounds=r, algs="sha-1,sha-256,sha-512").hash(t), {"fmt": "scram", "text": t, "salt": s.hex(), "rounds": r})
        # scrypt
        ln, rr, pp = [(1, 1, 1), (4, 8, 1), (3, 2, 2), (5, 1, 3)][k % 4]
        ss = s[:64] if s else b"x"
        key = hashlib.scrypt(p, salt=ss, n=1 << ln, r=rr, p=pp, dklen=32)
        with backend("scrypt", "builtin"):
            yield from both("hashlib:scrypt", H.scrypt, p, f"$scrypt$ln={ln},r={rr},p={pp}${b64s(ss)}${b64s(key)}", lambda: H.scrypt.using(salt=ss, rounds=ln, block_size=rr, parallelism=pp).hash(p),
                            {"fmt": "scrypt", "pwd": p.hex(), "salt": ss.hex(), "ln": ln, "r": rr, "p": pp})

    # ---- the bcrypt package
    import bcrypt as _bc

    for k, n in enumerate(lens if T else LENS[::2] + [72, 73]):
        p = pwd_bytes(rng, n)
        sb = bcrypt_salt(rng, k)
        ident = ["2b", "2a"][k % 2]
        theirs = _bc.hashpw(p[:72], f"${ident}$04${sb}".encode()).decode()
        if k % 6 == 0:
            with builtin_backends():
                yield from both("bcrypt-pkg:bcrypt[builtin]", H.bcrypt, p, theirs, lambda: H.bcrypt.using(salt=sb, rounds=4, ident=ident).hash(p), {"fmt": "bcrypt", "pwd": p.hex(), "salt": sb, "ident": ident, "backend": "builtin"})
        pre1 = base64.b64encode(hashlib.sha256(p).digest())
        pre2 = base64.b64encode(hmac.new(sb.encode(), p, hashlib.sha256).digest())
        t1 = _bc.hashpw(pre1, f"${ident}$04${sb}".encode()).decode()[-31:]
        t2 = _bc.hashpw(pre2, f"$2b$04${sb}".encode()).decode()[-31:]
        yield from both("bcrypt-pkg:bcrypt_sha256:v1", H.bcrypt_sha256, p, f"$bcrypt-sha256${ident},4${sb}${t1}", lambda: H.bcrypt_sha256.using(salt=sb, rounds=4, ident=ident, version=1).hash(p),
                        {"fmt": "bcrypt_sha256", "version": 1, "pwd": p.hex(), "salt": sb, "ident": ident})
        yield from both("bcrypt-pkg:bcrypt_sha256:v2", H.bcrypt_sha256, p, f"$bcrypt-sha256$v=2,t=2b,r=4${sb}${t2}", lambda: H.bcrypt_sha256.using(salt=sb, rounds=4, version=2).hash(p),
                        {"fmt": "bcrypt_sha256", "version": 2, "pwd": p.hex(), "salt": sb})

    # ---- Django's own hashers
    dj = _django()
    if dj is not None:
        for k, n in enumerate(lens):
            t = pwd_text(rng, n, caseless=False)
            s = salt_chars(rng, [12, 1, 22, 64][k % 4], ALNUM, k=k)
            r = [1, 2, 3, 10, 1000][k % 5]
            yield from both("django:pbkdf2_sha256", H.django_pbkdf2_sha256, t, dj.PBKDF2PasswordHasher().encode(t, s, r), lambda: H.django_pbkdf2_sha256.using(salt=s, rounds=r).hash(t),
                            {"fmt": "django_pbkdf2_sha256", "text": t, "salt": s, "rounds": r})
            yield from both("django:pbkdf2_sha1", H.django_pbkdf2_sha1, t, dj.PBKDF2SHA1PasswordHasher().encode(t, s, r), lambda: H.django_pbkdf2_sha1.using(salt=s, rounds=r).hash(t),
                            {"fmt": "django_pbkdf2_sha1", "text": t, "salt": s, "rounds": r})
            yield from both("django:salted_md5", H.django_salted_md5, t, dj.MD5PasswordHasher().encode(t, s), lambda: H.django_salted_md5.using(salt=s).hash(t), {"fmt": "django_salted_md5", "text": t, "salt": s})
            sb = bcrypt_salt(rng, k)
            bsalt = f"$2b$04${sb}".encode()
            yield from both("django:bcrypt_sha256", H.django_bcrypt_sha256, t, dj.BCryptSHA256PasswordHasher().encode(t, bsalt), lambda: H.django_bcrypt_sha256.using(salt=sb, rounds=4, ident="2b").hash(t),
                            {"fmt": "django_bcrypt_sha256", "text": t, "salt": sb})
            if len(t.encode()) <= 72:
                yield from both("django:bcrypt", H.django_bcrypt, t, dj.BCryptPasswordHasher().encode(t, bsalt), lambda: H.django_bcrypt.using(salt=sb, rounds=4, ident="2b").hash(t),
                                {"fmt": "django_bcrypt", "text": t, "salt": sb})

    # ---- plain hashlib compositions
    for k, n in enumerate(lens):
        p = pwd_bytes(rng, n)
        for nm, fn in (("hex_md5", lambda: hashlib.md5(p).hexdigest()), ("hex_sha1", lambda: hashlib.sha1(p).hexdigest()), ("hex_sha256", lambda: hashlib.sha256(p).hexdigest()),
                       ("hex_sha512", lambda: hashlib.sha512(p).hexdigest()), ("ldap_md5", lambda: "{MD5}" + base64.b64encode(hashlib.md5(p).digest()).decode()),
                       ("ldap_sha1", lambda: "{SHA}" + base64.b64encode(hashlib.sha1(p).digest()).decode()), ("mysql41", lambda: "*" + hashlib.sha1(hashlib.sha1(p).digest()).hexdigest().upper()),
                       ("mysql323", lambda: py_mysql323(p))):
            h = getattr(H, nm)
            yield from both("hashlib:" + nm, h, p, fn(), lambda h=h: h.hash(p), {"fmt": nm, "pwd": p.hex()})
        s = salt_bytes(rng, [4, 8, 16][k % 3], k=k)
        for nm, pre, dg in (("ldap_salted_md5", "{SMD5}", "md5"), ("ldap_salted_sha1", "{SSHA}", "sha1"), ("ldap_salted_sha256", "{SSHA256}", "sha256"), ("ldap_salted_sha512", "{SSHA512}", "sha512")):
            h = getattr(H, nm)
            yield from both("hashlib:" + nm, h, p, pre + base64.b64encode(hashlib.new(dg, p + s).digest() + s).decode(), lambda h=h: h.using(salt=s).hash(p), {"fmt": nm, "pwd": p.hex(), "salt": s.hex()})
        u = pwd_text(rng, 1 + k % 9)
        yield from both("hashlib:postgres_md5", H.postgres_md5, p, "md5" + hashlib.md5(p + u.encode()).hexdigest(), lambda: H.postgres_md5.hash(p, user=u), {"fmt": "postgres_md5", "pwd": p.hex(), "user": u}, user=u)
        s10 = salt_bytes(rng, 10, k=k)
        yield from both("hashlib:oracle11", H.oracle11, p, "S:" + hashlib.sha1(p + s10).hexdigest().upper() + s10.hex().upper(), lambda: H.oracle11.using(salt=s10.hex().upper()).hash(p), {"fmt": "oracle11", "pwd": p.hex(), "salt": s10.hex()})
        t = pwd_text(rng, n, caseless=True)
        s4 = salt_bytes(rng, 4, k=k)
        d1 = hashlib.sha1(t.encode("utf-16-le") + s4).hexdigest().upper()
        yield from both("hashlib:mssql2005", H.mssql2005, t, "0x0100" + s4.hex().upper() + d1, lambda: H.mssql2005.using(salt=s4).hash(t), {"fmt": "mssql2005", "text": t, "salt": s4.hex()})
        d2 = hashlib.sha1(t.upper().encode("utf-16-le") + s4).hexdigest().upper()
        yield from both("hashlib:mssql2000", H.mssql2000, t, "0x0100" + s4.hex().upper() + d1 + d2, lambda: H.mssql2000.using(salt=s4).hash(t), {"fmt": "mssql2000", "text": t, "salt": s4.hex()})
        realm = pwd_text(rng, k % 7, caseless=False)
        uu = u.replace(":", "_")
        yield from both("hashlib:htdigest", H.htdigest, t, hashlib.md5(f"{uu}:{realm}:{t}".encode()).hexdigest(), lambda: H.htdigest.hash(t, user=uu, realm=realm), {"fmt": "htdigest", "text": t, "user": uu, "realm": realm},
                        user=uu, realm=realm)
        # … and in the site's own charset (`encoding=`): user, realm AND password are that charset's bytes (RFC 2617 hashes octets)
        for enc in ("latin-1", "cp1252", "koi8-r", "utf-16-le")[k % 4:k % 4 + 1]:
            tt = {"latin-1": "p\u00e4ss\u00f8rd\u00ff", "cp1252": "\u20acuro\u2122", "koi8-r": "\u043f\u0430\u0440\u043e\u043b\u044c", "utf-16-le": "p\u00e4ss"}[enc] + t[:k % 5].encode("ascii", "ignore").decode()
            ue, re_ = {"latin-1": ("\u00fcser", "r\u00e9alm"), "cp1252": ("us\u0153r", "realm"), "koi8-r": ("\u044e\u0437\u0435\u0440", "realm"), "utf-16-le": ("user", "realm")}[enc]
            if enc == "utf-16-le":
                continue        # not an ASCII-compatible charset: out of the format's domain
            theirs = hashlib.md5(ue.encode(enc) + b":" + re_.encode(enc) + b":" + tt.encode(enc)).hexdigest()
            yield from both("hashlib:htdigest-encoding", H.htdigest, tt, theirs, lambda: H.htdigest.hash(tt, user=ue, realm=re_, encoding=enc),
                            {"fmt": "htdigest", "text": tt, "user": ue, "realm": re_, "encoding": enc}, user=ue, realm=re_, encoding=enc)
        r = [1, 2, 3, 64][k % 4]
        for v, dg in ((0, "sha1"), (1, "sha256"), (2, "sha384"), (3, "sha512")):
            d = hashlib.new(dg, s + p).digest()
            for _ in range(r - 1):
                d = hashlib.new(dg, d).digest()
            yield from both(f"hashlib:fshp{v}", H.fshp, p, f"{{FSHP{v}|{len(s)}|{r}}}" + base64.b64encode(s + d).decode(), lambda v=v: H.fshp.using(salt=s, rounds=r, variant=v).hash(p),
                            {"fmt": "fshp", "variant": v, "pwd": p.hex(), "salt": s.hex(), "rounds": r})
        sp = salt_chars(rng, 8, k=k)
        lr = 7 + k % 3
        d = hashlib.md5(sp.encode() + p).digest()
        for _ in range(1 << lr):
            d = hashlib.md5(d + p).digest()
        out = []
        for i in range(0, 16, 3):
            v = int.from_bytes(d[i:i + 3], "little")
            out.append("".join(H64[(v >> (6 * j)) & 63] for j in range(4 if i < 15 else 2)))
        yield from both("hashlib:phpass", H.phpass, p, "$P$" + H64[lr] + sp + "".join(out), lambda: H.phpass.using(salt=sp, rounds=lr, ident="$P$").hash(p), {"fmt": "phpass", "pwd": p.hex(), "salt": sp, "rounds": lr})


_DJ = [False, None]


def _django():
    if not _DJ[0]:
        _DJ[0] = True
        try:
            from django.conf import settings

            if not settings.configured:
                settings.configure(PASSWORD_HASHERS=["django.contrib.auth.hashers.PBKDF2PasswordHasher"])
            import django.contrib.auth.hashers as dh

            _DJ[1] = dh
        except Exception:  # noqa: BLE001
            _DJ[1] = None
    return _DJ[1]


# --------------------------------------------------------------------------------------------------
def correspond_formats(ctx):
    warnings.simplefilter("ignore")
    suite = Suite(ctx, "format-checksums-published-spec-vs-passlib")
    o_rej = Oracle(ctx, "format-rejections-are-the-documented-ones")
    o_third = Oracle(ctx, "third-implementations-agree-and-verify")
    s_kat = Suite(ctx, "format-spec-reproduces-published-vectors")
    for line, expected in PUBLISHED_VECTORS:
        s_kat.add_raw(line, okhex(expected), line.split(" ")[1])
    with builtin_backends():
        for c in gen_cases(ctx):
            ans, err = run_case(c)
            if err is not None and c.reject is not None and c.reject(err):
                o_rej.check(c.tag + ":" + err, True, c.inp, err, "documented rejection")
                continue
            suite.add_raw(c.line, ans, c.tag)
    for tag, ok, inp, obs, exp in third_party(ctx):
        o_third.check(tag, ok, inp, obs, exp)
    return [s_kat, suite, o_rej, o_third]


def search_formats(ctx):
    """the property on the real code alone: first input on which passlib and an independent implementation disagree"""
    warnings.simplefilter("ignore")
    for tag, ok, inp, obs, exp in third_party(ctx):
        if not ok:
            return {"input": dict(inp, op="formats", check=tag), "observed": obs, "expected": exp}
    return None


def replay_formats(ctx, inp):
    warnings.simplefilter("ignore")
    if inp.get("check") == "sun-md5-bare-empty-salt":
        from passlib import hash as H

        secret, setting = inp["secret"], inp["setting"]
        theirs = os_crypt(secret.encode(), setting)
        mine = H.sun_md5_crypt.genhash(secret, setting)
        try:
            v = H.sun_md5_crypt.verify(secret, theirs)
        except Exception as e:  # noqa: BLE001
            v = "err " + errname(e)
        return {"fails": v is not True, "observed": {"verify": v, "passlib_genhash": mine}, "expected": {"verify": True, "os_crypt": theirs}}
    tag = inp.get("check")
    want = {k: v for k, v in inp.items() if k not in ("op", "check")}
    for t, ok, i, obs, exp in third_party(ctx):
        if t == tag and i == want:
            return {"fails": not ok, "observed": obs, "expected": exp}
    return {"fails": False, "observed": "input not in this tier's grid"}
