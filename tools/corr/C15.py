"""C15 — a TOTP configuration survives every serialisation (uri / dict / json)."""
from __future__ import annotations

import contextlib
import json
import logging
import subprocess
import sys
import warnings

from .common import Oracle, Suite, errname, merge

GEN_UNITS = ["TotpSerial", "Totp", "PyUnicode", "TotpAll"]
LEAN_TARGETS = ["PasslibVerif.Props.C15"]
ASSUMPTIONS = [
    "json.loads / json.dumps are external: JSON documents enter the model as association lists of typed values (the text of to_json() is compared with json.dumps of the model's dict)",
    "lookup_hash(name).name is a reflected table (canonical hashlib names, their upper-case forms, a few probes); other names are answered `unmodelled`",
    "AppWallet's cipher (PBKDF2-HMAC-SHA256 + AES-256-CTR from `cryptography`) is a parameter: theorems assume only that applying it twice gives the data back (CTR); "
    "`cryptography` is not installed in this sandbox, so the wallet code paths run with a stand-in XOR stream cipher patched over AppWallet._cipher_aes_key",
    "percent escapes that do not form valid UTF-8 (Python substitutes U+FFFD) are answered `unmodelled`",
    "alg.upper(): hash names are ASCII (the translator unit admits only .isascii() canonical names), so only the ASCII branch of the str.upper model matters here; its Unicode table (Gen.PyCase) is regenerated under C07",
    "urlsplit's netloc validation (brackets, NFKC look-alikes) is not reproduced: every netloc other than 'totp' / 'hotp' is refused with ValueError either way",
]
EXPLANATION = (
    "Theorems (all inputs): utf8Decode(utf8Encode s) = s on scalar values; unquote(quote s safe) = s whenever '%' is not in the safe set; quote emits only "
    "unreserved/safe characters and %XX; fromUri cls (toUri c) = c up to the class issuer filling an absent one, for every class-level default; "
    "fromDict cls (toDict cls c) = c for plain and (given decrypt∘encrypt = id) encrypted keys; AppWallet encrypt/decrypt round trip under any wallet "
    "that still lists the tag; rejection theorems (conflicting issuers, duplicate parameters, missing/blank secret, unknown type, missing/unsupported "
    "version, missing key, hotp). Counterexamples proved: label whitespace is stripped on load, '%' in a safe set breaks unquote∘quote, an empty key "
    "cannot be loaded back, a uri parameter named 'cls' / a blank dict key / key+enckey / an unknown wallet tag leave with TypeError / AssertionError / KeyError. "
    "Correspondence: real passlib.totp.TOTP (and urllib / str primitives) against the compiled model over keys x algorithms x digits x periods x hostile "
    "labels/issuers x using() defaults x uri/dict/json, a mutated-source stream, wallet round trips; round-trip / rejection oracles on the real code alone."
)
ONLY_CORRESPONDENCE = [
    "to_json() text = json.dumps(to_dict(), sort_keys=True, separators=(',', ':')) and json.loads of it",
    "codes at sample times are equal before / after a round trip (follows from equal key, alg, digits, period; HMAC itself is C13)",
    "wallet code paths with the stand-in cipher (the real AES path needs `cryptography`)",
]

HOSTILE = [" ", "@", "/", "%", "&", "=", "+", "?", "#", ";", "'", '"', "\x00", "é", "€", "😀", "\xa0", "　", "%41", "%2F", "%zz", "a", "Z", "0", "-", "_", ".",
           "~", "\t", "\n", "\\", "<", "[", "]", "{", "|", "^", "`", "\x7f", "\x1f", "\x85", "ß", "İ", "x", "user", "example.org", "%", "%%", "%C3", " ", "�", "ı"]
# text that Unicode normalisation would rewrite (decomposed accents, conjoining jamo, singleton and compatibility characters): labels and issuers are
# opaque text, the spelling that went in must come back
HOSTILE += ["e\u0301", "A\u030a", "\u1100\u1161", "\u212b", "\u2126", "\ufb01", "\u00c5", "\u0344", "\u1e9b\u0323"]
ALGS = ["sha1", "sha256", "sha512", "sha224", "sha384", "sha3_256", "blake2b", "md5", "sha512_256", "ripemd160"]
TIMES = [0, 59, 1111111109, 2 ** 33 + 7]


@contextlib.contextmanager
def quiet():
    with warnings.catch_warnings():
        warnings.simplefilter("ignore")
        prev = logging.root.manager.disable
        logging.disable(logging.WARNING)
        try:
            yield
        finally:
            logging.disable(prev)


# ------------------------------------------------------------------------------------------ wire format
def cps(s) -> str:
    return ",".join(str(ord(c)) for c in s) if s else "-"


def opt(s) -> str:
    return "~" if s is None else cps(s)


def hx(b: bytes) -> str:
    return b.hex() if b else "-"


def uncps(w: str) -> str:
    return "" if w == "-" else "".join(chr(int(x)) for x in w.split(","))


def j0(v) -> str:
    if v is None:
        return "n"
    if v is True:
        return "t"
    if v is False:
        return "f"
    if type(v) is int:
        return f"i{v}"
    if type(v) is str:
        return "s" + cps(v)
    return "o"


def wire_enc(e: dict) -> str:
    return "|".join(cps(k) + ":" + j0(v) for k, v in e.items()) if e else "."


def jv(k, v) -> str:
    if k == "enckey" and isinstance(v, dict) and all(isinstance(x, str) for x in v):
        return "e" + wire_enc(v)
    return j0(v)


def wire_dict(d: dict) -> str:
    return ";".join(cps(k) + "=" + jv(k, v) for k, v in d.items()) if d else "."


def wire_wallet(w) -> str:
    if w is None:
        return "~"
    secs = "|".join(cps(t) + ":" + hx(s) for t, s in (w._secrets or {}).items()) or "."
    return f"W/{w.encrypt_cost}/{opt(w.default_tag)}/{secs}"


def wire_cls(cls) -> str:
    return f"{cps(cls.alg)};{cls.digits};{cls.period};{opt(cls.issuer)};{wire_wallet(cls.wallet)}"


def wire_obj(t) -> str:
    return f"{hx(t.key)};{cps(t.alg)};{t.digits};{t.period};{opt(t.label)};{opt(t.issuer)}"


def show_obj(t) -> str:
    return wire_obj(t) + f";{1 if t.changed else 0}"


def dict_modelable(d) -> bool:
    return isinstance(d, dict) and all(isinstance(k, str) and k and not any(c in k for c in ";=|: ") for k in d)


# ------------------------------------------------------------------------------------------ stand-in cipher
def stub_cipher(value, secret, salt, cost, decrypt=False):
    if cost < 0:
        raise ValueError("negative shift count")
    base = sum(secret) + 3 * sum(salt) + 7 * cost + 5
    return bytes(b ^ ((base + 31 * i) % 256) for i, b in enumerate(value))


@contextlib.contextmanager
def stubbed_wallet():
    from passlib import totp as pt

    orig = pt.AppWallet.__dict__["_cipher_aes_key"]
    pt.AppWallet._cipher_aes_key = staticmethod(stub_cipher)
    try:
        yield
    finally:
        pt.AppWallet._cipher_aes_key = orig


# ------------------------------------------------------------------------------------------ generators
def rand_text(rng, lo=1, hi=6, alphabet=HOSTILE):
    return "".join(rng.choice(alphabet) for _ in range(rng.randrange(lo, hi + 1)))


def rand_label(rng, clean_ends=False):
    r = rng.random()
    if r < 0.15:
        s = rng.choice(["user@example.org", "John Smith", "a", "jsmith", "Ünï cödé", "日本語 ラベル"])
    else:
        s = rand_text(rng).replace(":", "")
    if not clean_ends and rng.random() < 0.12:
        s = rng.choice([" ", "\xa0", "　", "\t"]) + s
    if not clean_ends and rng.random() < 0.12:
        s = s + rng.choice([" ", "\n", " ", "\x1f"])
    if clean_ends:
        s = s.strip() or "x"
    return s or "x"


def rand_cls(rng, base=None):
    from passlib.totp import TOTP

    base = base or TOTP
    kw = {}
    if rng.random() < 0.5:
        kw["digits"] = rng.choice([6, 7, 8, 9, 10])
    if rng.random() < 0.5:
        kw["alg"] = rng.choice(ALGS)
    if rng.random() < 0.5:
        kw["period"] = rng.choice([1, 15, 30, 60, 3600])
    if rng.random() < 0.4:
        kw["issuer"] = rng.choice(["acme", "Big Corp", "é€", "a@b/c", "x%41y", " pad "])
    return base.using(**kw) if kw else base


def rand_obj(rng, cls, clean_ends=False):
    kw = {"key": bytes(rng.randrange(256) for _ in range(rng.choice([1, 2, 5, 9, 10, 16, 20, 32, 33, 64, rng.randrange(1, 65)]))), "format": "raw"}
    if rng.random() < 0.6:
        kw["alg"] = rng.choice(ALGS)
    if rng.random() < 0.6:
        kw["digits"] = rng.choice([6, 7, 8, 9, 10])
    if rng.random() < 0.6:
        kw["period"] = rng.choice([1, 29, 30, 31, 60, 86400, rng.randrange(1, 1 << 40)])
    if rng.random() < 0.85:
        kw["label"] = rand_label(rng, clean_ends)
    if rng.random() < 0.5:
        kw["issuer"] = rand_label(rng, True) if rng.random() < 0.8 else rng.choice([" lead", "trail ", "\xa0x\xa0"])
    return cls(**kw), kw


def codes(t):
    res = []
    for tm in TIMES:
        try:
            res.append(t.generate(tm).token)
        except Exception as e:  # noqa: BLE001
            res.append("err " + errname(e))
    return res


def same_config(a, b):
    return (a.key, a.alg, a.digits, a.period, a.label, a.issuer) == (b.key, b.alg, b.digits, b.period, b.label, b.issuer)


def label_survives(lbl):
    return lbl is None or lbl.strip() == lbl


def encodable(*texts):
    for s in texts:
        if s:
            try:
                s.encode("utf-8")
            except UnicodeEncodeError:
                return False
    return True


# ------------------------------------------------------------------------------------------ mutation streams
def uri_mutants(rng, uri: str):
    head, _, query = uri.partition("?")
    params = query.split("&") if query else []
    out = []
    out.append(head + "?" + "&".join(params + [rng.choice(params)]))                      # duplicated
    out.append(head + "?" + "&".join(params + ["issuer=other"]))                           # conflicting / extra issuer
    out.append(head + "?" + "&".join(p for p in params if not p.startswith("secret=")))    # missing secret
    out.append(head + "?" + "&".join(reversed(params)))                                    # re-ordered
    out.append(head + "?" + "&".join(p if not p.startswith("secret=") else "secret=" for p in params))
    for bad in ["x", "６", "1_0", "%208%20", "-6", "%2B8", "11", "5", "8.0", "0", "08", "1e1", "%EF%BC%98", "8%00"]:
        out.append(head + "?" + "&".join([p for p in params if not p.startswith("digits=")] + ["digits=" + bad]))
    for bad in ["0", "-1", "1", "%2030", "x", "99999999999999999999", "3_0"]:
        out.append(head + "?" + "&".join([p for p in params if not p.startswith("period=")] + ["period=" + bad]))
    for alg in ["SHA256", "sha256", "SHA-256", "FOO", "sha", "Sha1", "SHA1024", "xyz", "SHA_256", "none", "1", "MD5", "SHA3_256"]:
        out.append(head + "?" + "&".join([p for p in params if not p.startswith("algorithm=")] + ["algorithm=" + alg]))
    body = uri[len("otpauth://totp/"):] if uri.startswith("otpauth://totp/") else uri
    for pre in ["http://totp/", "OTPAUTH://totp/", "otpauthx://totp/", "//totp/", "otpauth:/totp/", "otpauth://hotp/", "otpauth://TOTP/", "otpauth:///", "otpauth://totp",
                "otpauth://totp/%20", "otpauth://totp/a:b:", "otpauth://totp/:", "otpauth://totp/iss:", "otpauth://totp/%20iss%20:", "otpauth://to tp/", "otpauth://[::1]/",
                "otpauth://[/", "otpauth://totp:80/", "otpauth://u@totp/", " \totpauth://totp/", "\x00otpauth://totp/", "otp\nauth://totp/", "otpauth://totp/a/b/", "otpauth://totp/a;b",
                "1otpauth://totp/", "otp+auth://totp/", "otpauth://totp/x#y", "otpauth://totp/x%3Ay", "otpauth://totp/%3A", "otpauth://totp/x:%20", "otpauth://totp/é:", "otpauth://totp/\xa0"]:
        out.append(pre + body)
    for extra in ["foo=1", "cls=1", "self=2", "label=x", "secret", "=v", "k=", "&&", "a=b=c", "x=%", "x=%4", "x=%zz", "x=%C3", "x=%FF", "x=%E2%82", "x=%C3%A9%", "x=a+b", "+=+", "x;y=1",
                  "kwds=1", "extra=1", "result=1", "type=hotp", "x=é", "é=x", "x=%ED%A0%80", "x=%F4%90%80%80", "x=%C0%80", "issuer=a%3Ab", "issuer=%20", "issuer=+"]:
        out.append(uri + "&" + extra)
    out.append(uri + "#frag")
    out.append(uri + " ")
    out.append(uri + "　")
    out.append("  " + uri)
    out.append(uri.replace("secret=", "secret=%20").replace("&", "&\t", 1))
    out.append(uri.replace("secret=", "secret=1"))          # '1' is not base32 ('0','8','1' typo map: 1 -> ?)
    out.append(uri.replace("secret=", "secret=a-b%20"))
    out.append(uri.replace("secret=", "SECRET="))
    out.append(uri.lower())
    out.append(uri.replace("%", "%25", 1))
    k = rng.randrange(len(uri))
    out.append(uri[:k] + rng.choice(HOSTILE) + uri[k:])
    k = rng.randrange(len(uri))
    out.append(uri[:k] + uri[k + 1:])
    return out


def dict_mutants(rng, d: dict):
    out = []

    def w(**kw):
        x = dict(d)
        for k, v in kw.items():
            if v is ...:
                x.pop(k, None)
            else:
                x[k] = v
        out.append(x)

    for ty in [..., "hotp", "TOTP", "", None, 5, True, "totp "]:
        w(type=ty)
    for v in [..., 0, 2, -1, True, False, "1", "", None, 1.0, [1], 10 ** 30]:
        w(v=v)
    for k in [..., "", None, 5, "1", "AAAA AAAA-aaaa", "!!!!", "=", "é", True, [1], {}, "MZXW6YTBOI", "mzxw6ytboi======"]:
        w(key=k)
    w(enckey={"v": 1, "c": 14, "t": "1", "s": "AAAAAAAA", "k": "AAAAAAAAAAAAAAAA"})
    w(key=..., enckey={"v": 1, "c": 14, "t": "1", "s": "AAAAAAAA", "k": "AAAAAAAAAAAAAAAA"})
    w(key=..., enckey={})
    w(key=..., enckey="x")
    w(key=..., enckey=None)
    w(last_counter=5)
    w(foo=1)
    w(cls=1)
    w(self=1)
    w(kwds=1)
    w(new=True)
    w(size=5)
    w(format="hex")
    w(changed=True)
    w(foo=1, new=True)
    for dg in ["6", 5, 11, 6, 10, None, True, 6.0, -7, 0]:
        w(digits=dg)
    for p in [0, 1, None, "30", True, False, -5, 30.5, 10 ** 20]:
        w(period=p)
    for lb in ["a:b", "", None, 5, 0, True, False, " pad ", "é", ":", [":"]]:
        w(label=lb)
        w(issuer=lb)
    for alg in ["SHA256", "sha256", "", None, 5, 0, True, False, "FOO", "sha", "xyz", "SHA-512", "Sha1", "md5", [1]]:
        w(alg=alg)
    w(type=..., v=...)
    w(alg="FOO", key="")            # error order: alg before key
    w(digits=5, key="!!!!")         # key before digits
    w(digits=5, label="a:b")        # digits before label
    w(period=0, label="a:b")        # label before period
    w(issuer="a:b", period=0)
    w(v=2, type="hotp")             # type before version
    w(v=2, key=...)                 # version before key
    w(key=..., foo=1)               # missing key before unknown keyword
    return out


def wallet_pool(rng):
    from passlib.totp import AppWallet

    pool = [AppWallet({"1": b"aaa"}), AppWallet({"1": "aaa", "2": "bbbb"}), AppWallet({"2": "bbbb"}), AppWallet({"1": "aaa", "2": "bbbb"}, default_tag="1"),
            AppWallet({"1": "aaa", "2": "bbbb"}, encrypt_cost=3), AppWallet({"9": "x", "10": "y"}), AppWallet({"a": "x", "B": "y", "2": "z"}), AppWallet({"09": "p", "9": "q"}),
            AppWallet({"9": "q", "09": "p"}), AppWallet(), AppWallet({"old": "zz", "new": "yy"}), AppWallet({"1": "changed"}), AppWallet({"1": "aaa"}, encrypt_cost=0)]
    return pool


# ------------------------------------------------------------------------------------------ correspondence
def correspond(ctx):
    from passlib.totp import TOTP, AppWallet

    rng = ctx.rng
    big = ctx.thorough
    s_prim = Suite(ctx, "urllib-str-primitives")
    s_touri = Suite(ctx, "to-uri")
    s_furi = Suite(ctx, "from-uri")
    s_tdict = Suite(ctx, "to-dict-json")
    s_fdict = Suite(ctx, "from-dict-json-source")
    s_bad = Suite(ctx, "malformed-sources")
    s_wal = Suite(ctx, "wallet-stub-cipher")
    o_rt = Oracle(ctx, "round-trips")
    o_rej = Oracle(ctx, "rejections")
    o_wal = Oracle(ctx, "wallet")
    from urllib.parse import parse_qsl, quote, unquote, urlsplit

    with quiet():
        # ---- primitives
        for _ in range(6000 if big else 900):
            s = rand_text(rng, 0, 7)
            if rng.random() < 0.05:
                s += "\ud800"
            safe = rng.choice(["", "@", "/", "@:", "é@", "%", "&=+"])
            s_prim.add(f"tser quote {cps(s)} {cps(safe)}", lambda s=s, safe=safe: cps(quote(s, safe)), "quote")
            s_prim.add(f"tser strip {cps(s)}", lambda s=s: cps(s.strip()), "strip")
            if encodable(s):
                s_prim.add(f"tser utf8enc {cps(s)}", lambda s=s: hx(s.encode("utf-8")), "utf8enc")
                q = quote(s, safe)
                u = rng.choice([q, q + rng.choice(["%", "%4", "%zz", "%C3", "%e9", "é"]), s, q.lower()])

                def unq(u=u):
                    r = unquote(u)
                    return cps(r)

                if "�" not in unquote(u) or "�" in u:
                    s_prim.add(f"tser unquote {cps(u)}", unq, "unquote")
            bs = bytes(rng.choice([0x41, 0x7f, 0x80, 0xbf, 0xc0, 0xc2, 0xdf, 0xe0, 0xed, 0xa0, 0x9f, 0xef, 0xf0, 0xf4, 0x90, 0x8f, 0xf5, 0xff]) for _ in range(rng.randrange(0, 5)))
            if rng.random() < 0.5 and encodable(s):
                bs = s.encode("utf-8")[: rng.randrange(0, 12)]

            def dec(bs=bs):
                return cps(bs.decode("utf-8"))

            s_prim.add(f"tser utf8dec {hx(bs)}", dec, "utf8dec")
            u = rng.choice(["otpauth://totp/", "otpauth:", "http://h/", "", "a:b", "//n", "x"]) + rand_text(rng, 0, 6) + rng.choice(["", "?", "#", "?a=b&c=d#f"]) + rand_text(rng, 0, 4)

            def spl(u=u):
                r = urlsplit(u)
                return " ".join(cps(x) for x in r)

            try:
                urlsplit(u)
                s_prim.add(f"tser urlsplit {cps(u)}", spl, "urlsplit")
            except ValueError:
                pass        # netloc validation (brackets / NFKC): not reproduced by the model, see ASSUMPTIONS
            qs = "&".join(rand_text(rng, 0, 3, HOSTILE + ["=", "=", "&", "+"]) for _ in range(rng.randrange(0, 4)))
            if "�" not in "".join(a + b for a, b in parse_qsl(qs)) or "�" in qs:
                s_prim.add(f"tser qsl {cps(qs)}", lambda qs=qs: ";".join(cps(a) + "=" + cps(b) for a, b in parse_qsl(qs)) or ".", "parse_qsl")
        # ---- objects over classes
        n_obj = 6000 if big else 700
        for i in range(n_obj):
            cls = rand_cls(rng)
            try:
                t, kw = rand_obj(rng, cls)
            except UnicodeEncodeError:
                continue
            if rng.random() < 0.04:      # states only attribute assignment reaches
                t.label = rng.choice(["", None, " x "])
                t.issuer = rng.choice(["", None, "q"])
            wc, wo = wire_cls(cls), wire_obj(t)
            s_touri.add(f"tser touri {wo}", lambda t=t: cps(t.to_uri()), "to_uri")
            if i % 4 == 0:       # label / issuer given as arguments override the attributes (None = keep)
                l2, i2 = rng.choice([None, rand_label(rng), "", "a:b"]), rng.choice([None, rand_label(rng, True), "", "x:y"])
                wo2 = f"{hx(t.key)};{cps(t.alg)};{t.digits};{t.period};{opt(t.label if l2 is None else l2)};{opt(t.issuer if i2 is None else i2)}"
                s_touri.add(f"tser touri {wo2}", lambda t=t, l2=l2, i2=i2: cps(t.to_uri(l2, i2)), "to_uri-args")
            if i % 8 == 0:       # from_source(TOTP instance): the object itself when the wallets agree, else an equal copy bound to the class
                other = cls.using(secrets={"1": "s"}) if rng.random() < 0.5 else cls
                try:
                    back = other.from_source(t)
                    ok = (back is t) if other.wallet == t.wallet else (back is not t and same_config(back, t) and type(back) is other)
                    obs = show_obj(back)
                except Exception as e:  # noqa: BLE001
                    ok, obs = False, "err " + errname(e)
                if not (t.label == "" or t.issuer == "" or (t.issuer is None and cls.issuer)):
                    o_rt.check("from_source-instance", ok, {"op": "from-source-instance", "cls": wc, "obj": wo}, obs, wo)
            s_tdict.add(f"tser todict {wc} {wo} n -", lambda t=t: wire_dict(t.to_dict()), "to_dict")
            s_tdict.add(f"tser tojson {wc} {wo} f -", lambda t=t: wire_dict(json.loads(t.to_json(encrypt=False))), "to_json")
            s_tdict.add(f"tser todict {wc} {wo} t -", lambda t=t: wire_dict(t.to_dict(encrypt=True)), "to_dict-encrypt")
            o_rt.check("json-text", t.to_json() == json.dumps(t.to_dict(), sort_keys=True, separators=(",", ":")), wo)
            load = rand_cls(rng) if rng.random() < 0.6 else cls
            wl = wire_cls(load)
            d = t.to_dict()
            s_fdict.add(f"tser fromdict {wl} {wire_dict(d)}", lambda load=load, d=d: show_obj(load.from_dict(dict(d))), "from_dict")
            js = t.to_json()
            s_fdict.add(f"tser fromjson {wl} {wire_dict(json.loads(js))}", lambda load=load, js=js: show_obj(load.from_json(js)), "from_json")
            s_fdict.add(f"tser fromsource {wl} text {cps(js)} {wire_dict(json.loads(js))}", lambda load=load, js=js: show_obj(load.from_source(js)), "from_source-json")
            s_fdict.add(f"tser fromsource {wl} dict {wire_dict(d)}", lambda load=load, d=d: show_obj(load.from_source(dict(d))), "from_source-dict")
            try:
                uri = t.to_uri()
            except ValueError:
                uri = None
            if uri is not None:
                s_furi.add(f"tser fromuri {wl} {cps(uri)}", lambda load=load, uri=uri: show_obj(load.from_uri(uri)), "from_uri")
                s_fdict.add(f"tser fromsource {wl} text {cps(uri)} !invalid", lambda load=load, uri=uri: show_obj(load.from_source(uri)), "from_source-uri")
            # the property on the real code (same class: the documented contract)
            same = cls
            for fmt in ("uri", "dict", "json"):
                if fmt == "uri" and (uri is None or not label_survives(t.label)):
                    continue
                try:
                    back = same.from_uri(uri) if fmt == "uri" else same.from_dict(t.to_dict()) if fmt == "dict" else same.from_json(t.to_json())
                    ok = same_config(back, t) and codes(back) == codes(t)
                    obs = show_obj(back)
                except Exception as e:  # noqa: BLE001
                    ok, obs = False, "err " + errname(e)
                if t.label == "" or t.issuer == "" or (t.issuer is None and cls.issuer):      # attribute-assigned states are outside the property
                    continue
                o_rt.check(fmt, ok, {"op": "roundtrip", "format": fmt, "cls": wc, "obj": wo}, obs, wo)
            # ---- malformed stream
            if i % (3 if big else 6) == 0:
                if uri is not None:
                    for m in uri_mutants(rng, uri):
                        if "�" in m:
                            continue
                        s_bad.add(f"tser fromuri {wl} {cps(m)}", lambda load=load, m=m: show_obj(load.from_uri(m)), "uri")
                for m in dict_mutants(rng, d):
                    if not dict_modelable(m):
                        continue
                    s_bad.add(f"tser fromdict {wl} {wire_dict(m)}", lambda load=load, m=m: show_obj(load.from_dict(dict(m))), "dict")
                for txt, doc in (("{", "!invalid"), ("[1]", "!nondict"), ("5", "!nondict"), ('"otpauth"', "!nondict"), ("", "!invalid"), ("null", "!nondict")):
                    s_bad.add(f"tser fromjson {wl} {doc}", lambda load=load, txt=txt: show_obj(load.from_json(txt)), "json")
                    s_bad.add(f"tser fromsource {wl} text {cps(txt)} {doc}", lambda load=load, txt=txt: show_obj(load.from_source(txt)), "source")
        # ---- rejections on the real code (the property's second sentence)
        base = TOTP(key=b"0123456789abcdef", format="raw", label="u", issuer="iss")
        u0 = base.to_uri()
        for name, src in [("conflicting-issuer", u0.replace("issuer=iss", "issuer=other")), ("duplicate-secret", u0 + "&secret=AAAAAAAAAAAAAAAA"), ("duplicate-issuer", u0 + "&issuer=iss"),
                          ("missing-secret", "otpauth://totp/u?issuer=iss"), ("blank-secret", "otpauth://totp/u?secret=&issuer=iss"), ("unknown-type", u0.replace("//totp/", "//motp/")),
                          ("wrong-scheme", u0.replace("otpauth:", "http:")), ("missing-label", "otpauth://totp/?secret=AAAAAAAAAAAAAAAA"), ("blank-label", "otpauth://totp/%20?secret=AAAAAAAAAAAAAAAA"),
                          ("issuer-only-label", "otpauth://totp/iss:?secret=AAAAAAAAAAAAAAAA"),
                          # the type field is the whole authority: a port, user info or a dotted host around "totp" is an unknown type
                          ("type-with-port", u0.replace("//totp/", "//totp:8080/")), ("type-with-empty-port", u0.replace("//totp/", "//totp:/")),
                          ("type-with-userinfo", u0.replace("//totp/", "//hotp@totp/")), ("type-with-userinfo-2", u0.replace("//totp/", "//steam:x@totp/")),
                          ("type-as-subdomain", u0.replace("//totp/", "//totp.example.org/")), ("type-with-suffix", u0.replace("//totp/", "//totp2/"))]:
            try:
                TOTP.from_uri(src)
                got = "accepted"
            except Exception as e:  # noqa: BLE001
                got = type(e).__name__ if not isinstance(e, ValueError) else "ValueError"
            o_rej.check(name, got == "ValueError", {"op": "reject-uri", "uri": src}, got, "ValueError")
        d0 = base.to_dict()
        for name, src in [("unknown-type", dict(d0, type="motp")), ("missing-type", {k: v for k, v in d0.items() if k != "type"}), ("missing-version", {k: v for k, v in d0.items() if k != "v"}),
                          ("version-0", dict(d0, v=0)), ("version-2", dict(d0, v=2)), ("missing-key", {k: v for k, v in d0.items() if k != "key"})]:
            for via in ("dict", "json"):
                try:
                    TOTP.from_dict(src) if via == "dict" else TOTP.from_json(json.dumps(src))
                    got = "accepted"
                except Exception as e:  # noqa: BLE001
                    got = "ValueError" if isinstance(e, ValueError) else type(e).__name__
                o_rej.check(name + "-" + via, got == "ValueError", {"op": "reject-dict", "dict": src, "via": via}, got, "ValueError")
        try:
            TOTP.from_uri(u0.replace("//totp/", "//hotp/"))
            got = "accepted"
        except NotImplementedError:
            got = "NotImplementedError"
        except Exception as e:  # noqa: BLE001
            got = type(e).__name__
        o_rej.check("hotp", got == "NotImplementedError", {"op": "reject-uri", "uri": "hotp"}, got, "NotImplementedError")
        # ---- object lifetime: a serialisation made AFTER the key (or another field) of a live object was replaced carries the new value
        for _ in range(12 if not ctx.thorough else 200):
            k1, k2 = rng.randbytes(rng.choice([10, 16, 20, 32])), rng.randbytes(rng.choice([10, 16, 20, 35]))
            t = TOTP(key=k1, format="raw", label="u", issuer="iss", alg=rng.choice(["sha1", "sha256"]))
            first = rng.sample(["to_uri", "to_dict", "to_json", "pretty_key", "generate", "base32_key", "hex_key"], rng.randrange(1, 4))
            for m in first:
                _try(lambda m=m: getattr(t, m)(59) if m == "generate" else (getattr(t, m)() if callable(getattr(type(t), m, None)) else getattr(t, m)))
            t.key = k2
            ref = TOTP(key=k2, format="raw", label="u", issuer="iss", alg=t.alg)
            obs, want = {}, {}
            for nm, f in (("uri", lambda o: TOTP.from_uri(o.to_uri()).key), ("dict", lambda o: TOTP.from_dict(o.to_dict()).key), ("json", lambda o: TOTP.from_json(o.to_json()).key),
                          ("pretty", lambda o: o.pretty_key()), ("base32", lambda o: o.base32_key), ("hex", lambda o: o.hex_key), ("token", lambda o: o.generate(59).token)):
                obs[nm] = _try(lambda f=f: f(t))
                want[nm] = _try(lambda f=f: f(ref))
            o_rt.check("key-replaced-after-" + "+".join(sorted(first)), obs == want, {"op": "key-replaced", "first": first, "old_key": k1.hex(), "new_key": k2.hex()},
                       {k: (v.hex() if isinstance(v, bytes) else v) for k, v in obs.items() if v != want[k]}, "everything follows the new key")
        # ---- wallets (stand-in cipher unless `cryptography` is present)
        wallet_suites(ctx, s_wal, o_wal)
    return merge(s_prim, s_touri, s_furi, s_tdict, s_fdict, s_bad, s_wal, o_rt, o_rej, o_wal, exhaustive=False)


def wallet_suites(ctx, s_wal, o_wal):
    from passlib import totp as pt
    from passlib.totp import TOTP, AppWallet
    from passlib.utils.binary import b32decode

    rng = ctx.rng
    # default tag selection
    for tags in [["1"], ["1", "2"], ["2", "1"], ["9", "10"], ["10", "9"], ["09", "9"], ["9", "09"], ["a", "B", "2"], ["old", "new"], ["1", "a"], ["a-1", "a.1", "a_1"], ["Z", "a"], ["10", "9", "x"], ["007", "7", "6"]]:
        s_wal.add("tser defaulttag " + "|".join(cps(t) for t in tags), lambda tags=tags: opt(AppWallet({t: "s" for t in tags}).default_tag), "default_tag")
    for _ in range(200 if ctx.thorough else 40):
        tags = list(dict.fromkeys(rng.choice(["1", "2", "3", "10", "09", "9", "a", "b1", "B", "z.9", "00", "0"]) for _ in range(rng.randrange(1, 5))))
        s_wal.add("tser defaulttag " + "|".join(cps(t) for t in tags), lambda tags=tags: opt(AppWallet({t: "s" for t in tags}).default_tag), "default_tag")
    real_aes = pt.AES_SUPPORT
    with (contextlib.nullcontext() if real_aes else stubbed_wallet()):
        pool = wallet_pool(rng)
        for _ in range(1500 if ctx.thorough else 250):
            w = rng.choice(pool)
            key = bytes(rng.randrange(256) for _ in range(rng.choice([0, 1, 10, 20, 33, 64])))
            # encrypt_key
            try:
                e = w.encrypt_key(key)
                ans = None
            except Exception as ex:  # noqa: BLE001
                e, ans = None, "err " + errname(ex)
            if not real_aes:
                salt = b32decode(e["s"]) if e else b"\x00" * 12
                s_wal.add_raw(f"tser wenc {wire_wallet(w)} {hx(salt)} {hx(key)}", ans or "ok " + wire_enc(e), "encrypt_key")
            if e is None:
                continue
            # decrypt under every wallet of the pool: same secret for the tag -> the key; tag missing -> KeyError (recorded finding wallet-unknown-tag-keyerror)
            for w2 in pool:
                try:
                    k2, recrypt = w2.decrypt_key(e)
                    got = f"ok {hx(k2)} {1 if recrypt else 0}"
                except Exception as ex:  # noqa: BLE001
                    k2, got = None, "err " + errname(ex)
                if not real_aes:
                    s_wal.add_raw(f"tser wdec {wire_wallet(w2)} {wire_enc(e)}", got, "decrypt_key")
                listed = (w2._secrets or {}).get(e["t"]) == w._secrets[e["t"]]
                if listed:
                    o_wal.check("decrypt-under-listed-secret", k2 == key and recrypt == (w2.encrypt_cost != e["c"] or w2.default_tag != e["t"]),
                                {"op": "wallet", "enc": wire_wallet(w), "dec": wire_wallet(w2), "key": hx(key)}, got, hx(key))
            # mutated enckey dicts
            if not real_aes:
                for m in [dict(e, v=2), dict(e, v=None), {k: v for k, v in e.items() if k != "v"}, {k: v for k, v in e.items() if k != "t"}, {k: v for k, v in e.items() if k != "c"},
                          {k: v for k, v in e.items() if k != "k"}, {k: v for k, v in e.items() if k != "s"}, dict(e, t="nope"), dict(e, c=-1), dict(e, c=e["c"] + 1), dict(e, k="!!"), dict(e, s="!"),
                          dict(e, v=True), dict(e, t=5), dict(e, k=e["k"].lower()), dict(e, extra=1)]:
                    try:
                        k2, recrypt = w.decrypt_key(m)
                        got = f"ok {hx(k2)} {1 if recrypt else 0}"
                    except Exception as ex:  # noqa: BLE001
                        got = "err " + errname(ex)
                    s_wal.add_raw(f"tser wdec {wire_wallet(w)} {wire_enc(m)}", got, "decrypt_key-mutated")
        # through the TOTP class
        for _ in range(600 if ctx.thorough else 120):
            w = rng.choice(pool)
            cls = rand_cls(rng).using(wallet=w)
            t, _kw = rand_obj(rng, cls, clean_ends=True)
            wc, wo = wire_cls(cls), wire_obj(t)
            for encf, encw in ((None, "n"), (True, "t"), (False, "f")):
                try:
                    d = t.to_dict(encrypt=encf)
                    ans = "ok " + wire_dict(d)
                except Exception as ex:  # noqa: BLE001
                    d, ans = None, "err " + errname(ex)
                if not real_aes:
                    salt = b32decode(d["enckey"]["s"]) if d and "enckey" in d else b""
                    s_wal.add_raw(f"tser todict {wc} {wo} {encw} {hx(salt)}", ans, "to_dict")
                if d is None:
                    continue
                for w2 in rng.sample(pool, 4) + [w]:
                    load = rand_cls(rng).using(wallet=w2) if rng.random() < 0.5 else cls.using(wallet=w2)
                    try:
                        back = load.from_dict(dict(d))
                        got = "ok " + show_obj(back)
                    except Exception as ex:  # noqa: BLE001
                        back, got = None, "err " + errname(ex)
                    if not real_aes:
                        s_wal.add_raw(f"tser fromdict {wire_cls(load)} {wire_dict(d)}", got, "from_dict")
                    if "enckey" in d and (w2._secrets or {}).get(d["enckey"]["t"]) == w._secrets[d["enckey"]["t"]]:
                        o_wal.check("totp-enckey-roundtrip", back is not None and back.key == t.key and (load.issuer != cls.issuer or same_config(back, t)),
                                    {"op": "wallet-totp", "cls": wc, "obj": wo, "load": wire_cls(load)}, got, wo)
            # no wallet at all
            if "enckey" in (t.to_dict() if w.has_secrets else {}):
                d = t.to_dict()
                s_wal.add_raw(f"tser fromdict {wire_cls(TOTP)} {wire_dict(d)}", _try(lambda: show_obj(TOTP.from_dict(dict(d)))), "from_dict-no-wallet")


def _try(thunk):
    try:
        return "ok " + thunk()
    except Exception as e:  # noqa: BLE001
        return "err " + errname(e)


# ------------------------------------------------------------------------------------------ search / replay
def search(ctx, broken, seeds):
    """the property on the real code alone: round trips through the three formats (same class, every using() default), rejections.
    Recorded open findings (label whitespace, TypeError/KeyError/AssertionError leaks) are skipped here and replayed by id."""
    from passlib.totp import TOTP

    rng = ctx.rng
    with quiet():
        for _ in range(4000):
            cls = rand_cls(rng)
            try:
                t, kw = rand_obj(rng, cls, clean_ends=True)
            except UnicodeEncodeError:
                continue
            if not encodable(t.label, t.issuer):
                continue
            for fmt in ("uri", "dict", "json"):
                if fmt == "uri" and not t.label:
                    continue
                try:
                    back = cls.from_uri(t.to_uri()) if fmt == "uri" else cls.from_dict(t.to_dict()) if fmt == "dict" else cls.from_json(t.to_json())
                    ok = same_config(back, t) and codes(back) == codes(t)
                    obs = show_obj(back)
                except Exception as e:  # noqa: BLE001
                    ok, obs = False, "err " + errname(e)
                if not ok:
                    return {"input": {"op": "roundtrip", "format": fmt, "using": {k: getattr(cls, k) for k in ("digits", "alg", "period", "issuer")},
                                      "kwds": {k: (v.hex() if isinstance(v, bytes) else v) for k, v in kw.items()}}, "observed": obs, "expected": show_obj(t)}
        base = TOTP(key=b"0123456789abcdef", format="raw", label="u", issuer="iss")
        u0, d0 = base.to_uri(), base.to_dict()
        cases = [("uri", u0.replace("issuer=iss", "issuer=other")), ("uri", u0 + "&secret=AAAAAAAAAAAAAAAA"), ("uri", u0 + "&issuer=iss"), ("uri", "otpauth://totp/u?issuer=iss"),
                 ("uri", "otpauth://totp/u?secret=&issuer=iss"), ("uri", u0.replace("//totp/", "//motp/")), ("uri", u0.replace("otpauth:", "http:")), ("uri", "otpauth://totp/%20?secret=AAAAAAAAAAAAAAAA"),
                 ("uri", "otpauth://totp/iss:?secret=AAAAAAAAAAAAAAAA"),
                 ("dict", dict(d0, type="motp")), ("dict", {k: v for k, v in d0.items() if k != "type"}), ("dict", {k: v for k, v in d0.items() if k != "v"}), ("dict", dict(d0, v=0)),
                 ("dict", dict(d0, v=2)), ("dict", {k: v for k, v in d0.items() if k != "key"})]
        # the otp type names exactly one kind: every other text in that place — blank, a fragment or an extension of the name, another case —
        # is refused, in the URI's authority and in the dictionary's `type`
        for ty in ("", "t", "o", "p", "to", "ot", "tp", "tot", "otp", "TOTP", "Totp", "totp2", "xtotp", "totp ", " totp", "totp\n"):
            cases.append(("uri", u0.replace("//totp/", "//" + ty.replace(" ", "%20").replace("\n", "%0A") + "/")))
            cases.append(("dict", dict(d0, type=ty)))
        for kind, src in cases:
            for cls in (TOTP, TOTP.using(digits=8, issuer="iss")):
                try:
                    cls.from_uri(src) if kind == "uri" else cls.from_dict(src)
                    got = "accepted"
                except ValueError:
                    continue
                except Exception as e:  # noqa: BLE001
                    got = type(e).__name__
                return {"input": {"op": "reject", "kind": kind, "source": src}, "observed": got, "expected": "ValueError"}
    return None


REPLAY_O = """
import sys, warnings
warnings.simplefilter('ignore')
sys.path.insert(0, %r)
from passlib.totp import TOTP
try:
    t = TOTP.from_dict({'type': %r, 'v': 1, 'key': 'AAAAAAAAAAAAAAAA'})
    print('accepted', t.to_dict())
except Exception as e:
    print('err', type(e).__name__)
"""


def replay(ctx, inp):
    """inputs of KNOWN_FINDINGS rows and of search() results"""
    import os

    from passlib.totp import TOTP, AppWallet

    op = inp.get("op")
    with quiet():
        if op == "label-whitespace":
            label = inp["label"]
            t = TOTP(key=bytes.fromhex(inp.get("key", "30313233343536373839")), format="raw", label=label)
            back = TOTP.from_uri(t.to_uri())
            return {"fails": back.label != label, "observed": {"uri": t.to_uri(), "label_back": back.label}}
        if op == "blank-label-uri":          # fixed by 6de0680: must be ValueError
            got = _try(lambda: show_obj(TOTP.from_uri(inp["uri"])))
            return {"fails": got != "err ValueError", "observed": got}
        if op == "using-defaults-roundtrip":  # fixed by 861d80a
            cls = TOTP.using(**inp["using"])
            t = cls(key=bytes.fromhex(inp["key"]), format="raw", label="u", **inp.get("kwds", {}))
            res = {}
            for fmt in ("uri", "dict", "json"):
                back = cls.from_uri(t.to_uri()) if fmt == "uri" else cls.from_dict(t.to_dict()) if fmt == "dict" else cls.from_json(t.to_json())
                res[fmt] = show_obj(back)
            return {"fails": any(v != show_obj(t) for v in res.values()), "observed": res, "expected": show_obj(t)}
        if op == "uri-param-cls":
            got = _try(lambda: show_obj(TOTP.from_uri(inp["uri"])))
            return {"fails": got == "err TypeError", "observed": got}
        if op == "dict-source":
            got = _try(lambda: show_obj(TOTP.from_dict(dict(inp["dict"]))))
            return {"fails": got in ("err " + k for k in inp["leaks"]), "observed": got}
        if op == "wallet-unknown-tag":
            cls = TOTP.using(secrets={"1": "aaa"})
            got = _try(lambda: show_obj(cls.from_dict({"type": "totp", "v": 1, "enckey": {"v": 1, "c": 14, "t": inp["tag"], "s": "AAAAAAAA", "k": "AAAAAAAAAAAAAAAA"}})))
            return {"fails": got == "err KeyError", "observed": got}
        if op == "dict-type-under-O":
            p = subprocess.run([sys.executable, "-O", "-c", REPLAY_O % (os.environ.get("PASSLIB_REPO", "/repo"), inp["type"])], capture_output=True, text=True, timeout=120)
            return {"fails": p.stdout.startswith("accepted"), "observed": p.stdout.strip()[:200]}
        if op == "roundtrip":
            cls = TOTP.using(**{k: v for k, v in inp["using"].items() if v is not None})
            kw = {k: (bytes.fromhex(v) if k == "key" else v) for k, v in inp["kwds"].items()}
            t = cls(**kw)
            fmt = inp["format"]
            try:
                back = cls.from_uri(t.to_uri()) if fmt == "uri" else cls.from_dict(t.to_dict()) if fmt == "dict" else cls.from_json(t.to_json())
                return {"fails": not same_config(back, t), "observed": show_obj(back), "expected": show_obj(t)}
            except Exception as e:  # noqa: BLE001
                return {"fails": True, "observed": "err " + errname(e)}
        if op == "reject":
            try:
                TOTP.from_uri(inp["source"]) if inp["kind"] == "uri" else TOTP.from_dict(inp["source"])
                return {"fails": True, "observed": "accepted"}
            except ValueError:
                return {"fails": False, "observed": "ValueError"}
            except Exception as e:  # noqa: BLE001
                return {"fails": True, "observed": type(e).__name__}
    r = search(ctx, [], [])
    return {"fails": r is not None, "observed": r}
