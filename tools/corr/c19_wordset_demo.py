"""line-level schedules for the lazy word-set loader (passlib.pwd.WordsetDict / _load_wordset): thread A makes the first use of a word set
and is preempted once, at the k-th line it executes inside passlib/pwd.py; thread B then makes ITS first use of the same word set and runs
to completion (or until it blocks on something A holds); A resumes.  Every k is tried on a fresh loader.  Both threads must get a phrase
made of words of the asset file (read here independently), whatever k."""
import importlib.resources
import sys
import threading

import passlib.pwd as pwd

NAME = "eff_short"
WORDS = set(importlib.resources.files("passlib").joinpath(f"_data/wordsets/{NAME}.txt").read_text("utf-8").split())
PWD_FILE = pwd.__file__.rstrip("c")


def fresh_loader():
    d = pwd.WordsetDict()
    for name in "eff_long eff_short eff_prefixed bip39".split():
        d.set_path(name, f"passlib:_data/wordsets/{name}.txt")
    pwd.default_wordsets = d


def run(k):
    """returns (answers, paused?)"""
    fresh_loader()
    a_paused, b_done = threading.Event(), threading.Event()
    count = [0]
    out = {}

    def local(frame, event, arg):
        if event == "line" and not a_paused.is_set():
            if count[0] == k:
                a_paused.set()
                b_done.wait(1.5)
            count[0] += 1
        return local

    def tracer(frame, event, arg):
        if event == "call" and frame.f_code.co_filename == PWD_FILE:
            return local
        return None

    def call():
        words = pwd.genphrase(wordset=NAME, length=3).split(" ")
        return "ok" if len(words) == 3 and all(w in WORDS for w in words) else "BAD " + repr(words)

    def A():
        sys.settrace(tracer)
        try:
            out["A"] = call()
        except BaseException as e:  # noqa: BLE001
            out["A"] = "ERR " + repr(e)
        finally:
            sys.settrace(None)
            a_paused.set()

    def B():
        a_paused.wait(10)
        try:
            out["B"] = call()
        except BaseException as e:  # noqa: BLE001
            out["B"] = "ERR " + repr(e)
        b_done.set()

    ta, tb = threading.Thread(target=A, name="A"), threading.Thread(target=B, name="B")
    ta.start()
    tb.start()
    ta.join()
    tb.join()
    return out, count[0] > k


bad = None
k = 0
while k < 400:
    out, paused = run(k)
    if out.get("A") != "ok" or out.get("B") != "ok":
        bad = (k, out)
        break
    if not paused:
        break
    k += 1
print("schedules tried:", k, "first failure:", bad)
sys.exit(1 if bad else 0)
