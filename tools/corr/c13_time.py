"""C13 / timestamps given as date-times: the real `TOTP.normalize_time` (passlib/totp.py) and the CPython code it runs
(`datetime.utctimetuple`, `calendar.timegm`, `date.toordinal`, `date.fromordinal`, `math.floor(float)`, `int(clock)` for None) against the compiled Lean
model `Model.TotpTime` (suite `ttime` of modeldrv).

Families
  calendar   every day of leap / non-leap / century / 400-year years, years 1 and 9999, random years: toordinal, fromordinal,
             weekday, days in month, leap flag, days since the epoch both ways
  timegm     calendar.timegm on valid and on unchecked tuples (day 0 / 32, hour 25, second 61, negative) and on years / months the
             date constructor refuses
  fields     UTC fields of an epoch second (datetime arithmetic and, where libc agrees to answer, time.gmtime)
  utc        utctimetuple()[:6] of naive and aware date-times: every whole-minute offset -23:59 … +23:59, the extreme offsets
             (±23:59:59.999999), microsecond offsets, the first and last representable days (OverflowError side)
  norm       TOTP.normalize_time on ints (bool, negative, huge), floats (negative, .999999, -0.0, denormal, 1e300, nan, ±inf),
             None with a patched clock, date-times (naive / aware / subclass / duck-typed / custom tzinfo), foreign types
  utcC       the same date-times through the model of the C accelerator's algorithm (normalize_pair ×4, normalize_y_m_d shortcuts)
  c-normalize-date   `date(y, m, 1) + timedelta(d - 1)` for any d: C `normalize_date` (shortcut days 0 / dim+1, ordinal path, OverflowError)
  utc-py     the same through the pure-Python `_pydatetime` (the text the model transcribes), so that the C accelerator `_datetime`
             (what `datetime` normally is) and the Python source are both compared with the model
  instant    the specification-side `instantUs` against Python's own aware-datetime subtraction
  gen        TOTP.generate on date-time arguments: token, counter, start_time, expire_time

Run alone:  PASSLIB_REPO=/tmp/repo_clean /venv/bin/python tools/corr/c13_time.py [--tier quick|thorough] [--seed N]
"""
from __future__ import annotations

import calendar
import datetime as D
import os
import sys
import time as _time

if __name__ == "__main__":
    _T = os.path.dirname(os.path.dirname(os.path.abspath(__file__)))
    sys.path.insert(0, _T)
    sys.path.insert(0, os.environ.get("PASSLIB_REPO", "/repo"))
    __package__ = "corr"

from .common import Suite, errname, merge  # noqa: E402

LEAN_TARGETS = ["PasslibVerif.Props.C13Time"]
EPOCH_ORD = 719163
EPOCH_MIN = -62135596800
EPOCH_MAX = 253402300799
US = D.timedelta(microseconds=1)
UTC = D.timezone.utc


# ---------------------------------------------------------------------------------------------------------------------------
# wire format
# ---------------------------------------------------------------------------------------------------------------------------
def fl(x: float) -> str:
    if x != x:
        return "nan"
    if x in (float("inf"), float("-inf")):
        return "inf" if x > 0 else "-inf"
    n, d = x.as_integer_ratio()
    return f"{n}/{d}"


def dtw(dt) -> str:
    off = dt.utcoffset()
    o = "naive" if off is None else str(off // US)
    return f"{dt.year} {dt.month} {dt.day} {dt.hour} {dt.minute} {dt.second} {dt.microsecond} {o}"


def ans(thunk) -> str:
    try:
        return "ok " + str(thunk())
    except Exception as e:  # noqa: BLE001
        return "err " + errname(e)


def py_utctimetuple(dt):
    """utctimetuple()[:6] of the same object rebuilt with Lib/_pydatetime.py (pure Python implementation)"""
    import _pydatetime as P

    off = dt.utcoffset()
    tz = None if off is None else P.timezone(P.timedelta(days=off.days, seconds=off.seconds, microseconds=off.microseconds))
    return P.datetime(dt.year, dt.month, dt.day, dt.hour, dt.minute, dt.second, dt.microsecond, tz).utctimetuple()


def six(t) -> str:
    return " ".join(str(x) for x in tuple(t)[:6])


class FixedTz(D.tzinfo):
    """a tzinfo that is not datetime.timezone: utcoffset may depend on the wall clock (DST-like) — utctimetuple only asks utcoffset()"""

    def __init__(self, winter, summer):
        self.w, self.s = winter, summer

    def utcoffset(self, dt):
        return self.s if dt is not None and 4 <= dt.month <= 9 else self.w

    def dst(self, dt):
        return D.timedelta(0)

    def tzname(self, dt):
        return "X"


class NoneTz(D.tzinfo):
    def utcoffset(self, dt):
        return None

    def dst(self, dt):
        return None

    def tzname(self, dt):
        return "N"


class MyDT(D.datetime):
    pass


class Duck:
    """not a datetime, but has utctimetuple: the code accepts it"""

    def __init__(self, dt):
        self.dt = dt

    def utctimetuple(self):
        return self.dt.utctimetuple()


# ---------------------------------------------------------------------------------------------------------------------------
# generators
# ---------------------------------------------------------------------------------------------------------------------------
SPECIAL_YEARS = [1, 2, 3, 4, 5, 99, 100, 101, 199, 200, 299, 300, 399, 400, 401, 404, 1582, 1599, 1600, 1601, 1699, 1700, 1800, 1899,
                 1900, 1901, 1904, 1968, 1969, 1970, 1971, 1972, 1999, 2000, 2001, 2004, 2023, 2024, 2025, 2037, 2038, 2039, 2096,
                 2099, 2100, 2101, 2104, 2399, 2400, 2401, 8000, 9600, 9900, 9996, 9997, 9998, 9999]


def all_offsets_minutes():
    return range(-(23 * 60 + 59), 23 * 60 + 60)


def edge_offsets():
    day = D.timedelta(days=1)
    out = [D.timedelta(0), US, -US, D.timedelta(seconds=1), -D.timedelta(seconds=1), D.timedelta(seconds=59), D.timedelta(minutes=1),
           day - US, -(day - US), day - D.timedelta(seconds=1), -(day - D.timedelta(seconds=1)), D.timedelta(hours=12), -D.timedelta(hours=12),
           D.timedelta(hours=5, minutes=30), D.timedelta(hours=5, minutes=45), -D.timedelta(hours=9, minutes=30), D.timedelta(hours=14),
           D.timedelta(seconds=1, microseconds=999999), -D.timedelta(microseconds=999999), D.timedelta(hours=23, minutes=59, seconds=59, microseconds=500000)]
    return out


def rand_offset(rng):
    k = rng.randrange(6)
    if k == 0:
        return D.timedelta(minutes=rng.randrange(-1439, 1440))
    if k == 1:
        return D.timedelta(seconds=rng.randrange(-86399, 86400))
    if k == 2:
        return D.timedelta(microseconds=rng.randrange(-86400 * 10**6 + 1, 86400 * 10**6))
    if k == 3:
        return D.timedelta(minutes=15 * rng.randrange(-48, 57))
    return rng.choice(edge_offsets())


def naive_of_epoch(t, us=0):
    return D.datetime(1, 1, 1) + D.timedelta(seconds=t - EPOCH_MIN, microseconds=us)


def aware_of_epoch(t, us, off):
    """the aware date-time showing instant t (+us µs) in the zone `off`; None when the wall clock leaves the datetime range"""
    try:
        local = naive_of_epoch(t, us) + off
    except OverflowError:
        return None
    return local.replace(tzinfo=D.timezone(off))


def interesting_epochs(rng, n):
    out = [0, 1, -1, 59, 60, 86399, 86400, -86400, -86401, 951782400, 951868799, 951868800, 1709251199, 1709251200, 2**31 - 1, 2**31,
           2**32, 4102444800, EPOCH_MIN, EPOCH_MIN + 1, EPOCH_MIN + 86399, EPOCH_MIN + 86400, EPOCH_MIN + 2 * 86400, EPOCH_MAX, EPOCH_MAX - 1, EPOCH_MAX - 86399,
           EPOCH_MAX - 86400, EPOCH_MAX - 2 * 86400]
    for y in SPECIAL_YEARS:
        base = (D.date(y, 1, 1).toordinal() - EPOCH_ORD) * 86400
        out += [base, base - 1 if base > EPOCH_MIN else base, base + 86399]
        for (mo, d) in ((2, 28), (3, 1), (12, 31)):
            b = (D.date(y, mo, d).toordinal() - EPOCH_ORD) * 86400
            out += [b, b + 86399, b + 86400 if b + 86400 <= EPOCH_MAX else b]
    for _ in range(n):
        out.append(rng.randrange(EPOCH_MIN, EPOCH_MAX + 1))
        out.append(rng.randrange(0, 1 << 33))
        out.append(rng.randrange(-86400 * 366, 86400 * 366))
    return out


# ---------------------------------------------------------------------------------------------------------------------------
# the suite
# ---------------------------------------------------------------------------------------------------------------------------
def calendar_cases(ctx, s_m):
    rng = ctx.rng
    years = list(SPECIAL_YEARS) + [rng.randrange(1, 10000) for _ in range(20 if not ctx.thorough else 400)]
    if ctx.thorough:
        years = list(range(1, 10000))
    for y in years:
        s_m.add_raw(f"ttime leap {y}", "ok " + ("true" if calendar.isleap(y) else "false"), "calendar:leap")
        d = D.date(y, 1, 1)
        for mo in range(1, 13):
            s_m.add_raw(f"ttime dim {y} {mo}", f"ok {calendar.monthrange(y, mo)[1]}", "calendar:dim")
        while d.year == y:
            o = d.toordinal()
            tag = "leap" if calendar.isleap(y) else ("century" if y % 100 == 0 else "common")
            s_m.add_raw(f"ttime ord {d.year} {d.month} {d.day}", f"ok {o}", "calendar:toordinal-" + tag)
            s_m.add_raw(f"ttime fromord {o}", f"ok {d.year} {d.month} {d.day}", "calendar:fromordinal-" + tag)
            s_m.add_raw(f"ttime days {d.year} {d.month} {d.day}", f"ok {o - EPOCH_ORD}", "calendar:days-" + tag)
            s_m.add_raw(f"ttime civil {o - EPOCH_ORD}", f"ok {d.year} {d.month} {d.day}", "calendar:civil-" + tag)
            if d.day in (1, 28, 29, 30, 31) or ctx.thorough:
                s_m.add_raw(f"ttime wd {d.year} {d.month} {d.day}", f"ok {d.weekday()}", "calendar:weekday")
            if o == D.date.max.toordinal():
                break
            d = D.date.fromordinal(o + 1)
    for o in (1, 2, 365, 366, 1461, 1462, 36524, 36525, 146097, 146098, 719162, 719163, 719164, 3652058, 3652059):
        d = D.date.fromordinal(o)
        s_m.add_raw(f"ttime fromord {o}", f"ok {d.year} {d.month} {d.day}", "calendar:fromordinal-cycle-edge")
    for _ in range(3000 if not ctx.thorough else 200_000):
        o = rng.randrange(1, 3652060)
        d = D.date.fromordinal(o)
        s_m.add_raw(f"ttime fromord {o}", f"ok {d.year} {d.month} {d.day}", "calendar:fromordinal-random")
        s_m.add_raw(f"ttime civil {o - EPOCH_ORD}", f"ok {d.year} {d.month} {d.day}", "calendar:civil-random")


def c_normalize_cases(ctx, s_m):
    """C `normalize_date` (shared by `date + timedelta` and `datetime + timedelta`): first of a month plus any number of days"""
    rng = ctx.rng

    def real(y, m, d):
        r = D.date(y, m, 1) + D.timedelta(days=d - 1)
        return f"{r.year} {r.month} {r.day}"

    for _ in range(4000 if not ctx.thorough else 300_000):
        y = rng.choice([rng.randrange(1, 10000), 1, 2, 9998, 9999, 2024, 1900, 2000])
        m = rng.randrange(1, 13)
        dim = calendar.monthrange(y, m)[1]
        d = rng.choice([0, dim + 1, dim, 1, -1, dim + 2, rng.randrange(-800, 800), rng.randrange(-4_000_000, 4_000_000), 28, 29, 30, 31, 32])
        kind = "in-month" if 1 <= d <= dim else ("one-day-shortcut" if d in (0, dim + 1) else "through-ordinal")
        s_m.add(f"ttime ymdC {y} {m} {d}", lambda y=y, m=m, d=d: real(y, m, d), "c-normalize-date:" + kind)


def timegm_cases(ctx, s_m):
    rng = ctx.rng
    for t in interesting_epochs(rng, 1500 if not ctx.thorough else 100_000):
        dt = naive_of_epoch(t)
        tup = dt.timetuple()[:6]
        s_m.add(f"ttime timegm {six(tup)}", lambda tup=tup: str(calendar.timegm(tup)), "timegm:valid")
        s_m.add_raw(f"ttime fields {t}", "ok " + six(tup), "fields:datetime-arithmetic")
        try:
            g = _time.gmtime(t)
            s_m.add_raw(f"ttime fields {t}", "ok " + six(g), "fields:time.gmtime")
        except (OverflowError, OSError, ValueError):
            pass
    # what timegm does not check, and what the date constructor inside it does
    for _ in range(1500 if not ctx.thorough else 50_000):
        y = rng.choice([rng.randrange(1, 10000), 0, -1, 10000, 1, 9999, 1970])
        mo = rng.choice([rng.randrange(1, 13), 0, 13, -1, 12, 1, 2])
        d = rng.choice([rng.randrange(1, 29), 0, 32, -5, 31, 29, 30, 366, 1000])
        h = rng.choice([rng.randrange(0, 24), 24, 25, -1, 100])
        mi = rng.choice([rng.randrange(0, 60), 60, -1, 1000])
        s = rng.choice([rng.randrange(0, 60), 60, 61, -1, 100000])
        s_m.add(f"ttime timegm {y} {mo} {d} {h} {mi} {s}", lambda t=(y, mo, d, h, mi, s): str(calendar.timegm(t)), "timegm:unchecked-fields")


def datetimes(ctx):
    """(tag, datetime) pairs"""
    rng = ctx.rng
    out = []
    epochs = interesting_epochs(rng, 400 if not ctx.thorough else 30_000)
    # naive
    for t in epochs:
        out.append(("naive", naive_of_epoch(t, rng.choice([0, 0, 1, 500000, 999999, rng.randrange(10**6)]))))
    # every whole-minute offset, each on a few instants (one of them random over the whole range)
    for m in all_offsets_minutes():
        off = D.timedelta(minutes=m)
        for t in (rng.choice(epochs), rng.randrange(EPOCH_MIN, EPOCH_MAX + 1), rng.randrange(0, 1 << 32), rng.choice([0, 59, 86399, 951868799, 1709251199])):
            dt = aware_of_epoch(t, rng.choice([0, 999999, rng.randrange(10**6)]), off)
            if dt is not None:
                out.append(("aware-every-minute-offset", dt))
    # boundary offsets on boundary instants
    for off in edge_offsets():
        for t in epochs[:140] + [rng.choice(epochs) for _ in range(40)]:
            for us in (0, 999999):
                dt = aware_of_epoch(t, us, off)
                if dt is not None:
                    out.append(("aware-edge-offset", dt))
    # random offsets, random instants over the full range
    for _ in range(4000 if not ctx.thorough else 300_000):
        dt = aware_of_epoch(rng.randrange(EPOCH_MIN, EPOCH_MAX + 1), rng.randrange(10**6), rand_offset(rng))
        if dt is not None:
            out.append(("aware-random", dt))
    # the first and the last representable wall clocks in every kind of zone: the UTC view leaves the range (OverflowError) or just not
    firsts = [D.datetime(1, 1, 1, 0, 0, 0), D.datetime(1, 1, 1, 0, 0, 0, 1), D.datetime(1, 1, 1, 0, 0, 1), D.datetime(1, 1, 1, 12, 0, 0), D.datetime(1, 1, 1, 23, 59, 59, 999999),
              D.datetime(1, 1, 2, 0, 0, 0), D.datetime(1, 1, 2, 23, 59, 59)]
    lasts = [D.datetime(9999, 12, 31, 23, 59, 59, 999999), D.datetime(9999, 12, 31, 23, 59, 59), D.datetime(9999, 12, 31, 12, 0, 0), D.datetime(9999, 12, 31, 0, 0, 0),
             D.datetime(9999, 12, 30, 23, 59, 59, 999999), D.datetime(9999, 12, 30, 0, 0, 0)]
    offs = edge_offsets() + [D.timedelta(minutes=m) for m in list(all_offsets_minutes())[:: (37 if not ctx.thorough else 1)]]
    for base in firsts + lasts:
        for off in offs:
            out.append(("aware-range-edge", base.replace(tzinfo=D.timezone(off))))
    # other tzinfo classes, datetime subclasses
    for _ in range(300 if not ctx.thorough else 5000):
        t = rng.randrange(EPOCH_MIN + 2 * 86400, EPOCH_MAX - 2 * 86400)
        n = naive_of_epoch(t, rng.randrange(10**6))
        out.append(("aware-custom-tzinfo", n.replace(tzinfo=FixedTz(rand_offset(rng), rand_offset(rng)))))
        out.append(("tzinfo-answering-None", n.replace(tzinfo=NoneTz())))
        out.append(("datetime-subclass", MyDT(n.year, n.month, n.day, n.hour, n.minute, n.second, n.microsecond, D.timezone(rand_offset(rng)))))
    return out


def float_values(ctx):
    rng = ctx.rng
    out = [0.0, -0.0, 0.5, -0.5, 0.999999, -0.999999, 1.0, -1.0, 1.999999, -1.999999, 59.999999, 1e-300, -1e-300, 5e-324, -5e-324, 1e15 + 0.5,
           2**53 - 1.0, 2.0**53, 2.0**63, -(2.0**63), 2.0**64, 1e22, 1e300, -1e300, 1.7976931348623157e308, -1.7976931348623157e308,
           float("nan"), float("inf"), float("-inf"), 1709251199.999999, -62135596800.5, 253402300799.999, 0.1, -0.1, 1e-7, 29.999999999999996, 30.000000000000004]
    for _ in range(3000 if not ctx.thorough else 200_000):
        k = rng.randrange(6)
        if k == 0:
            out.append(rng.uniform(-10, 10))
        elif k == 1:
            out.append(rng.randrange(0, 1 << 33) + rng.choice([0.0, 0.25, 0.5, 0.999, 0.999999, rng.random()]))
        elif k == 2:
            out.append(-(rng.randrange(0, 1 << 33) + rng.choice([0.0, 0.25, 0.5, 0.999, 0.999999, rng.random()])))
        elif k == 3:
            out.append(rng.uniform(-1, 1) * 10 ** rng.randrange(-20, 40))
        elif k == 4:
            import struct

            out.append(struct.unpack(">d", rng.randbytes(8))[0])
        else:
            out.append(float(rng.randrange(-(1 << 40), 1 << 40)) + rng.choice([0.0, 0.5]))
    return out


def model_suite(ctx, s_m):
    import decimal
    import fractions
    import warnings

    from passlib.totp import TOTP

    warnings.simplefilter("ignore")
    rng = ctx.rng
    calendar_cases(ctx, s_m)
    c_normalize_cases(ctx, s_m)
    timegm_cases(ctx, s_m)

    dts = datetimes(ctx)
    for k, (tag, dt) in enumerate(dts):
        w = dtw(dt)
        s_m.add(f"ttime utc {w}", lambda dt=dt: six(dt.utctimetuple()), "utc:" + tag)
        s_m.add(f"ttime utcC {w}", lambda dt=dt: six(dt.utctimetuple()), "utcC:" + tag)
        if not ctx.thorough or k % 8 == 0 or tag == "aware-range-edge":
            s_m.add(f"ttime utc {w}", lambda dt=dt: six(py_utctimetuple(dt)), "utc-pydatetime:" + tag)
        s_m.add(f"ttime norm dt {w}", lambda dt=dt: str(TOTP.normalize_time(dt)), "norm:" + tag)
        s_m.add_raw(f"ttime valid {w}", "ok true", "valid:" + tag)
        # specification side: the denoted instant, by Python's own subtraction (aware - aware uses both offsets)
        if dt.utcoffset() is None:
            inst = (dt.replace(tzinfo=None) - D.datetime(1970, 1, 1)) // US
        else:
            inst = (dt - D.datetime(1970, 1, 1, tzinfo=UTC)) // US
        s_m.add_raw(f"ttime instant {w}", f"ok {inst}", "instant:" + tag)
    # duck-typed object
    for tag, dt in dts[:: max(1, len(dts) // 300)]:
        s_m.add(f"ttime norm dt {dtw(dt)}", lambda dt=dt: str(TOTP.normalize_time(Duck(dt))), "norm:duck-typed-utctimetuple")

    # ints
    ints = [0, 1, -1, 59, 2**31, 2**63, 2**64, 10**30, -(10**30), EPOCH_MIN - 1, EPOCH_MAX + 1] + [rng.randrange(-(1 << 70), 1 << 70) for _ in range(300)]
    for n in ints:
        s_m.add(f"ttime norm int {n}", lambda n=n: str(TOTP.normalize_time(n)), "norm:int")
    for b in (True, False):
        s_m.add(f"ttime norm int {int(b)}", lambda b=b: str(int(TOTP.normalize_time(b))), "norm:bool")
    # floats
    for x in float_values(ctx):
        tag = "nan-inf" if x != x or abs(x) == float("inf") else ("negative" if x < 0 else "non-negative")
        s_m.add(f"ttime norm float {fl(x)}", lambda x=x: str(TOTP.normalize_time(x)), "norm:float-" + tag)
    # None: the clock is a parameter of the model; the real class gets a subclass with a fixed clock
    clocks = [0.0, 1.5, -0.5, -1.5, -3, 1709251199.999999, 2.0**40, 17, 0, 2**40] + [rng.randrange(0, 1 << 33) + rng.random() for _ in range(200)]
    for c in clocks:
        sub = type("T", (TOTP,), {"now": staticmethod(lambda c=c: c)})
        w = fl(float(c)) if isinstance(c, float) else f"{c}/1"
        s_m.add(f"ttime norm none {w}", lambda sub=sub: str(sub.normalize_time(None)), "norm:None-fixed-clock")
    # foreign types
    for v in ("0", b"0", "2024-02-29", decimal.Decimal(5), fractions.Fraction(1, 2), D.date(2024, 2, 29), D.time(1, 2, 3), D.timedelta(1), [], (1,), {}, object(), 1j,
              D.datetime, UTC):
        s_m.add("ttime norm other", lambda v=v: str(TOTP.normalize_time(v)), "norm:other-" + type(v).__name__)

    # TOTP.generate on date-time / float / int arguments (token through the Lean HMAC + SHA transcriptions)
    n_gen = 250 if not ctx.thorough else 4000
    for i in range(n_gen):
        alg = rng.choice(["sha1", "sha256", "sha512"])
        key = rng.randbytes(rng.randrange(1, 65))
        digits = rng.randrange(6, 11)
        period = rng.choice([1, 30, 60, rng.randrange(1, 3601)])
        t = TOTP(key=key, format="raw", alg=alg, digits=digits, period=period)
        kind = i % 5
        ts = rng.choice([rng.randrange(0, 1 << 33), rng.randrange(0, 86400), rng.randrange(-86400, 86400), period * rng.randrange(0, 1 << 26), rng.randrange(0, EPOCH_MAX)])
        if kind == 0:
            val, w = naive_of_epoch(ts, rng.randrange(10**6)), None
        elif kind in (1, 2):
            val = aware_of_epoch(ts, rng.randrange(10**6), rand_offset(rng)) or naive_of_epoch(ts)
            w = None
        elif kind == 3:
            val = rng.choice([ts, ts, ts, 0]) + rng.choice([0.0, 0.5, 0.999999, -0.5])
            w = "float " + fl(val)
        else:
            val, w = ts, f"int {ts}"
        if w is None:
            w = "dt " + dtw(val)

        def run(t=t, val=val):
            g = t.generate(val)
            return f"{g.token} {g.counter} {g.start_time} {g.expire_time}"

        s_m.add(f"ttime gen {alg} {key.hex()} {digits} {period} {w}", run, "generate:" + w.split(" ")[0] + ("-before-epoch" if ts < 0 else ""))


def correspond(ctx):
    s_m = Suite(ctx, "normalize-time-and-calendar")
    model_suite(ctx, s_m)
    return merge(s_m)


if __name__ == "__main__":
    import argparse
    import json

    from runner import Ctx

    ap = argparse.ArgumentParser()
    ap.add_argument("--tier", default="quick")
    ap.add_argument("--seed", default="0")
    a = ap.parse_args()
    t0 = _time.time()
    res = correspond(Ctx("C13", a.tier, a.seed))
    bad = 0
    for name, r in res["suites"].items():
        bad += len(r["mismatches"])
        print(name, "cases", r["cases"], "mismatches", len(r["mismatches"]), "unmodelled", r["unmodelled"], "seconds", round(_time.time() - t0, 1))
        print(json.dumps(r["distribution"], indent=0)[:12000])
        for m in r["mismatches"][:10]:
            print("  MISMATCH", json.dumps(m)[:400])
    sys.exit(1 if bad else 0)
