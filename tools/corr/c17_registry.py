"""C17 — the hasher registry (lean/PasslibVerif/Model/Registry.lean, driver suite `preg`) against the REAL code of
$PASSLIB_REPO/passlib/registry.py: register_crypt_handler / register_crypt_handler_path / get_crypt_handler / list_crypt_handlers /
_has_crypt_handler / _unload_handler_name and the attribute protocol of the `passlib.hash` proxy, on generated HISTORIES of operations.

Every case: `_handlers` (the proxy's instance dict) and `_locations` are saved, emptied (or reset to the shipped table), the history is run on
the real functions, both dicts are read back in insertion order, and everything is restored.  The importable world of the model is made real
by putting synthetic modules into `sys.modules`; handlers are synthetic objects (identity = a number the model carries as a token).  For the
shipped table the world is the real `passlib.handlers.*` modules, described to the model by (module, attribute, name the object carries).

    cd /tmp/wp/preg/verif && PASSLIB_REPO=/tmp/repo_clean /venv/bin/python -m tools.corr.c17_registry [--thorough] [--seed N]
"""
from __future__ import annotations

import ast
import logging
import os
import sys
import types
import warnings

if __name__ == "__main__":
    _here = os.path.dirname(os.path.abspath(__file__))
    sys.path.insert(0, os.path.dirname(_here))
sys.path.insert(0, os.environ.get("PASSLIB_REPO", "/repo"))

from .common import Suite  # noqa: E402

GEN_UNITS = ["RegistryTables"]
LEAN_TARGETS = ["PasslibVerif.Props.C17Registry"]
ASSUMPTIONS = [
    "importing a handler module has no effect on the registry (no shipped module calls register_crypt_handler); the branch of get_crypt_handler "
    "for a handler that appeared during the import is not modelled",
    "names given to get_crypt_handler / register_crypt_handler_path / the proxy are str; a handler's `name` attribute may be missing, None, an int or a str",
    "private attribute names written through the proxy are not attributes of the proxy class (those are answered by normal attribute lookup)",
]


def cps(s) -> str:
    return ",".join(str(ord(c)) for c in s) if s else "-"


class Obj:
    """a synthetic Python object as the registry sees it"""

    def __init__(self, oid, attrs_ok, truthy, kind, name=""):
        self.oid, self._truthy, self.kind, self.attrs_ok, self.nm = oid, truthy, kind, attrs_ok, name
        if attrs_ok:
            self.setting_kwds = ()
            self.context_kwds = ()
            self.verify = self.hash = self.identify = lambda *a, **k: None
        if kind == "n":
            self.name = None
        elif kind == "i":
            self.name = 5
        elif kind == "s":
            self.name = name

    def __bool__(self):
        return self._truthy

    def enc(self):
        return f"{self.oid}/{int(self.attrs_ok)}/{int(self._truthy)}/{self.kind}/{cps(self.nm) if self.kind == 's' else '-'}"

    def __repr__(self):
        return f"<Obj {self.enc()}>"


DEFAULT = object()

VALID = ["abc", "md5x", "my_hash", "a1b", "x_y_z9", "abc\n", "verif_h1", "zz9"]
INVALID = ["", "ab", "a", "Abc", "ABC", "1abc", "ab__cd", "abc_", "abc_\n", "_abc", "__abc", "a-b", "a-bc", "default", "all", "none", "auto", "context", "policy", "onload",
           "abé", "ÀBC", "àbc", "a b", "abc\n\n", "İxy", "ΑΣ", "my-hash", "aB1", "a.b", "a:b"]
LOOKUPS = ["ABC", "My-Hash", "MY_HASH", "my-hash", "-priv", "_priv", "--priv", "X-Y-Z9", "x-y-z9", "-abc", "-_abc", "Md5X", "nosuch", "NOSUCH", "", "-", "_", "ÀBC", "ABC\n", "Verif-H1", "ZZ9",
           "a1b", "A1B", "__class__x", "DEFAULT", "Σ"]
PRIVATE = ["_priv", "_x1", "__verif_dunder__", "_abc", "_"]
MODS = ["verifw_m1", "verifw_m2", "verifw.sub"]
MISSING = ["verifw_missing", "verifw.nomod", "verifw_m1.nosub"]
ATTRS = ["abc", "Alt", "my_hash", "md5x", "a1b", "x_y_z9", "", "abc\n", "verif_h1", "zz9"]


def err_tag(e) -> str:
    t, m = type(e).__name__, str(e)
    if isinstance(e, ImportError):
        return "ImportError:import"
    if isinstance(e, KeyError):
        m = e.args[0] if e.args else ""
        return "KeyError:" + ("taken" if m.startswith("another ") else "invalid" if m.startswith("invalid handler name") else "notfound" if m.startswith("no crypt handler found") else "?" + m[:30])
    if isinstance(e, TypeError):
        return "TypeError:" + ("handler" if m.startswith("handler must be password hash handler") else "?" + m[:40])
    if isinstance(e, AssertionError):
        return "AssertionError:" + ("bool" if "bool(handler)" in m else "?" + m[:40])
    if isinstance(e, AttributeError):
        return "AttributeError:" + ("pmissing" if m.startswith("missing attribute:") else "punknown" if m.startswith("unknown password hash:") else "attr")
    if isinstance(e, ValueError):
        for pre, tag in (("handler name cannot be empty", "empty"), ("name must be lower-case", "case"), ("invalid name (must be 3+", "re"), ("name may not contain double", "dunder"),
                         ("that name is not allowed", "forbidden"), ("handlers must be stored only under", "attr"), ("path cannot start with", "pathdot"),
                         ("path cannot have more than one", "colons"), ("path cannot have '.' to right", "dotcolon"), ("Empty module name", "emptymod"), ("too many values to unpack", "unpack")):
            if m.startswith(pre):
                return "ValueError:" + tag
        return "ValueError:?" + m[:40]
    return t + ":?" + m[:40]


def shipped_table():
    """the literal `_locations` of the source"""
    with open(os.path.join(os.environ.get("PASSLIB_REPO", "/repo"), "passlib", "registry.py"), encoding="utf-8") as fh:
        tree = ast.parse(fh.read())
    for n in tree.body:
        if isinstance(n, ast.Assign) and isinstance(n.targets[0], ast.Name) and n.targets[0].id == "_locations":
            return {k.arg: k.value.value for k in n.value.keywords}
    raise AssertionError("no _locations")


class Real:
    """runs one history on the real registry"""

    def __init__(self):
        import passlib.hash
        from passlib import registry
        from passlib.exc import PasslibWarning

        self.reg = registry
        self.proxy = passlib.hash
        assert self.proxy is registry._proxy and registry._handlers is registry._proxy.__dict__
        self.PasslibWarning = PasslibWarning
        self.shipped = shipped_table()
        self.real_ids = {}

    def idof(self, v):
        if isinstance(v, Obj):
            return str(v.oid)
        return str(self.real_ids.get(id(v), "?"))

    def call(self, thunk, conv):
        with warnings.catch_warnings(record=True) as rec:
            warnings.simplefilter("always")
            try:
                a = "ok " + conv(thunk())
            except Exception as e:  # noqa: BLE001
                a = "err " + err_tag(e)
        if any(issubclass(r.category, self.PasslibWarning) for r in rec):
            a += " W"
        return a

    def hv(self, v):
        if v is DEFAULT:
            return "default"
        if v is None:
            return "None"
        return "H" + self.idof(v)

    def names(self, l):
        return "[" + "+".join(cps(n) for n in l) + "]"

    def run_op(self, op):
        r, p = self.reg, self.proxy
        k = op[0]
        if k == "reg":
            _, o, force, attr = op
            return self.call(lambda: r.register_crypt_handler(o, force=force, _attr=attr), self.hv)
        if k == "path":
            return self.call(lambda: r.register_crypt_handler_path(op[1], op[2]), self.hv)
        if k == "get":
            return self.call((lambda: r.get_crypt_handler(op[1], DEFAULT)) if op[2] else (lambda: r.get_crypt_handler(op[1])), self.hv)
        if k == "list":
            return self.call(lambda: r.list_crypt_handlers(loaded_only=op[1]), self.names)
        if k == "has":
            return self.call(lambda: r._has_crypt_handler(op[1], loaded_only=op[2]), lambda b: "True" if b is True else "False" if b is False else repr(b))
        if k == "unload":
            return self.call(lambda: r._unload_handler_name(op[1], locations=op[2]), self.hv)
        if k == "pget":
            return self.call(lambda: getattr(p, op[1]), self.hv)
        if k == "pset":
            return self.call(lambda: setattr(p, op[1], op[2]), self.hv)
        if k == "pdir":
            return self.call(lambda: sorted(set(dir(p)) - set(dir(type(p)))), self.names)
        raise AssertionError(op)

    def history(self, init, world, ops):
        """world: {modname: {attr: Obj}} (synthetic) — put into sys.modules for the duration"""
        r = self.reg
        saved_h, saved_l = dict(r._handlers), dict(r._locations)
        saved_mods = {m: sys.modules.get(m) for m in list(world) + MISSING}
        lvl = logging.root.manager.disable
        logging.disable(logging.CRITICAL)
        try:
            r._handlers.clear()
            r._locations.clear()
            if init == "shipped":
                r._locations.update(self.shipped)
            for m, attrs in world.items():
                mod = types.ModuleType(m)
                for a, o in attrs.items():
                    setattr(mod, a, o)
                sys.modules[m] = mod
            for m in MISSING:
                sys.modules.pop(m, None)
            out = [self.run_op(op) for op in ops]
            out.append("H " + "+".join(f"{cps(k)}>{self.idof(v)}" for k, v in r._handlers.items()))
            out.append("L " + "+".join(f"{cps(k)}>{cps(v)}" for k, v in r._locations.items()))
            return " | ".join(out)
        finally:
            logging.disable(lvl)
            for m, old in saved_mods.items():
                if old is None:
                    sys.modules.pop(m, None)
                else:
                    sys.modules[m] = old
            r._handlers.clear()
            r._handlers.update(saved_h)
            r._locations.clear()
            r._locations.update(saved_l)


def enc_op(op) -> str:
    k = op[0]
    b = lambda x: "1" if x else "0"  # noqa: E731
    if k == "reg":
        return f"reg:{op[1].enc()}:{b(op[2])}:{'N' if op[3] is None else cps(op[3])}"
    if k == "path":
        return f"path:{cps(op[1])}:{cps(op[2])}"
    if k in ("get", "has", "unload"):
        return f"{k}:{cps(op[1])}:{b(op[2])}"
    if k == "list":
        return f"list:{b(op[1])}"
    if k == "pget":
        return f"pget:{cps(op[1])}"
    if k == "pset":
        return f"pset:{cps(op[1])}:{op[2].enc()}"
    return "pdir"


def enc_world(world) -> str:
    if not world:
        return "-"
    return ";".join(cps(m) + "=" + "+".join(f"{cps(a)}:{o.enc()}" for a, o in attrs.items()) for m, attrs in world.items())


class Gen:
    def __init__(self, rng):
        self.rng = rng
        self.next_id = 1

    def obj(self, name=None):
        rng = self.rng
        oid = self.next_id
        self.next_id += 1
        x = rng.random()
        if x < 0.70:
            return Obj(oid, True, True, "s", name if name is not None else rng.choice(VALID if rng.random() < 0.75 else INVALID))
        if x < 0.78:
            return Obj(oid, rng.random() < 0.5, True, "m")
        if x < 0.84:
            return Obj(oid, True, True, rng.choice("ni"))
        if x < 0.90:
            return Obj(oid, False, True, "s", name or rng.choice(VALID))
        if x < 0.96:
            return Obj(oid, True, False, "s", name or rng.choice(VALID))
        return Obj(oid, rng.random() < 0.5, rng.random() < 0.5, rng.choice("mnis"), rng.choice(VALID + INVALID))

    def any_name(self):
        rng = self.rng
        x = rng.random()
        return rng.choice(VALID) if x < 0.55 else rng.choice(INVALID) if x < 0.8 else rng.choice(LOOKUPS)

    def lookup_name(self):
        rng = self.rng
        x = rng.random()
        if x < 0.4:
            return rng.choice(VALID)
        if x < 0.6:
            n = rng.choice(VALID)
            return rng.choice([n.upper(), n.replace("_", "-"), n.upper().replace("_", "-"), n.capitalize()])
        if x < 0.85:
            return rng.choice(LOOKUPS)
        return rng.choice(INVALID + PRIVATE)

    def path(self, name):
        rng = self.rng
        x = rng.random()
        if x < 0.45:
            return rng.choice(MODS)
        if x < 0.70:
            return rng.choice(MODS) + ":" + rng.choice(ATTRS)
        if x < 0.80:
            return rng.choice(MISSING) + rng.choice(["", ":abc"])
        return rng.choice([".rel", ".", "a:b:c", "verifw_m1:a:b", "verifw_m1:a.b", "a.b:c.d", "", ":attr", ":", "verifw_m1:", "a.b:c", "verifw_m2:ABC", "x." + name])

    def world(self, pool):
        rng = self.rng
        w = {}
        for m in MODS:
            if rng.random() < 0.8:
                attrs = {}
                for a in rng.sample(ATTRS, rng.randrange(0, 6)):
                    # most of the time the attribute holds a handler carrying the attribute's name
                    o = rng.choice(pool) if pool and rng.random() < 0.25 else self.obj(a if rng.random() < 0.6 else None)
                    attrs[a] = o
                    pool.append(o)
                w[m] = attrs
        return w

    def history(self, n_ops):
        rng = self.rng
        self.next_id = 1
        pool = [self.obj() for _ in range(4)]
        world = self.world(pool)
        ops = []
        for _ in range(n_ops):
            x = rng.random()
            if x < 0.22:
                o = rng.choice(pool) if rng.random() < 0.7 else self.obj()
                if o not in pool:
                    pool.append(o)
                attr = None if rng.random() < 0.6 else (o.nm if (o.kind == "s" and rng.random() < 0.5) else rng.choice(VALID + ["", "Abc"]))
                ops.append(("reg", o, rng.random() < 0.35, attr))
            elif x < 0.36:
                n = self.any_name()
                ops.append(("path", n, self.path(n)))
            elif x < 0.62:
                ops.append(("get", self.lookup_name(), rng.random() < 0.4))
            elif x < 0.68:
                ops.append(("list", rng.random() < 0.4))
            elif x < 0.74:
                ops.append(("has", self.lookup_name(), rng.random() < 0.4))
            elif x < 0.80:
                ops.append(("unload", rng.choice(VALID + PRIVATE + ["nosuch"]), rng.random() < 0.6))
            elif x < 0.90:
                ops.append(("pget", self.lookup_name() if rng.random() < 0.8 else rng.choice(PRIVATE)))
            elif x < 0.97:
                o = rng.choice(pool) if rng.random() < 0.7 else self.obj()
                if o not in pool:
                    pool.append(o)
                a = (o.nm if o.kind == "s" else rng.choice(VALID)) if rng.random() < 0.5 else rng.choice(VALID + PRIVATE + PRIVATE + ["", "Abc", "default"])
                ops.append(("pset", a, o))
            else:
                ops.append(("pdir",))
        ops += [("list", False), ("list", True), ("pdir",)]
        return world, ops


#: every single answer of every history, by operation and kind (printed by __main__; the Suite's distribution is per history)
ANSWER_KINDS: dict = {}


def tag_of(ops, answer):
    parts = answer.split(" | ")
    for op, a in zip(ops, parts):
        kind = a.split(" ")[1] if a.startswith("err ") else ("ok-handler" if a.startswith("ok H") else "ok-" + a[3:].split(" ")[0].split("[")[0]) if op[0] in ("get", "pget") else "ok"
        key = op[0] + ":" + kind + (" +warning" if a.endswith(" W") else "")
        ANSWER_KINDS[key] = ANSWER_KINDS.get(key, 0) + 1
    n_err = sum(1 for a in parts if a.startswith("err "))
    return "history:" + ("no-error" if n_err == 0 else "1-2-errors" if n_err < 3 else "3+-errors")


def model_suite(ctx, s_m):
    warnings.simplefilter("ignore")
    rng = ctx.rng
    real = Real()
    g = Gen(rng)
    n_hist = 3000 if ctx.thorough else 600
    for i in range(n_hist):
        world, ops = g.history(rng.randrange(6, 16))
        line = f"preg empty {enc_world(world)} {';'.join(enc_op(o) for o in ops)}"
        ans = real.history("empty", world, ops)
        s_m.add_raw(line, ans, tag=tag_of(ops, ans))
    # directed histories
    A, B, C = Obj(1, True, True, "s", "abc"), Obj(2, True, True, "s", "abc"), Obj(3, True, False, "s", "_priv")
    N = Obj(4, False, False, "m")
    directed = [
        ({}, [("reg", A, False, None), ("reg", A, False, None), ("reg", B, False, None), ("get", "abc", False), ("reg", B, True, None), ("get", "abc", False), ("pget", "abc"), ("get", "ABC", False)]),
        ({"verifw_m1": {"abc": A}}, [("path", "abc", "verifw_m1"), ("has", "abc", True), ("has", "abc", False), ("get", "abc", False), ("get", "abc", False), ("pget", "abc"), ("has", "abc", True),
                                     ("unload", "abc", False), ("pget", "ABC"), ("get", "abc", True)]),
        ({}, [("pset", "_priv", N), ("get", "-priv", False), ("get", "-priv", True), ("pget", "-priv"), ("get", "_priv", False), ("get", "_priv", True), ("pget", "_priv"), ("has", "_priv", True), ("list", True), ("pdir",)]),
        ({}, [("pset", "_priv", C), ("get", "-priv", False), ("pget", "-priv"), ("pget", "-PRIV")]),
        ({}, [("pset", "", A), ("get", "abc", False), ("pset", "abd", A), ("pset", "abc", B)]),
        ({"verifw_m1": {"abc": Obj(5, True, True, "s", "abd"), "abd": Obj(6, True, True, "s", "abd")}},
         [("path", "abc", "verifw_m1"), ("get", "abc", False), ("get", "abc", True), ("pget", "abc"), ("path", "abc", "verifw_m1:abd"), ("get", "abc", False), ("path", "abd", "verifw_m1"), ("get", "ABD", False), ("get", "abd", False)]),
        ({}, [("reg", Obj(7, True, True, "s", "abc\n"), False, None), ("get", "abc\n", False), ("get", "ABC\n", False), ("list", False), ("pget", "abc\n")]),
    ]
    for world, ops in directed:
        line = f"preg empty {enc_world(world)} {';'.join(enc_op(o) for o in ops)}"
        ans = real.history("empty", world, ops)
        s_m.add_raw(line, ans, tag="directed:" + tag_of(ops, ans).split(":", 1)[1])
    # the shipped table: the world is the real passlib.handlers.* modules, described by what each module attribute carries as `name`
    import importlib

    names = list(real.shipped)
    world_desc = {}
    for k, (nm, path) in enumerate(real.shipped.items()):
        mod = importlib.import_module(path)
        h = getattr(mod, nm)
        real.real_ids[id(h)] = 1000 + k
        hn = getattr(h, "name", None)
        o = Obj(1000 + k, all(hasattr(h, a) for a in ("setting_kwds", "context_kwds", "verify", "hash", "identify")), bool(h), "s" if isinstance(hn, str) else "m", hn if isinstance(hn, str) else "")
        world_desc.setdefault(path, {})[nm] = o
    chunks = [names[i:i + 13] for i in range(0, len(names), 13)]
    for ch in chunks:
        for variant in range(3):
            ops = []
            for nm in ch:
                spelled = [nm, nm.upper(), nm.replace("_", "-")][variant]
                ops += [("has", nm, True), ("get", spelled, False), ("pget", nm), ("get", nm, True), ("has", nm, True)]
            ops += [("list", True), ("list", False)]
            # the model's world: only the modules this history needs
            w = {p: a for p, a in world_desc.items() if any(real.shipped[n] == p for n in ch)}
            line = f"preg shipped {enc_world(w)} {';'.join(enc_op(o) for o in ops)}"
            ans = real.history("shipped", {}, ops)
            s_m.add_raw(line, ans, tag="shipped:" + tag_of(ops, ans).split(":", 1)[1])
    for i in range(60 if ctx.thorough else 20):
        world, ops = g.history(rng.randrange(6, 12))
        ops = [o for o in ops if not (o[0] in ("get", "pget") and isinstance(o[1], str) and o[1].replace("-", "_").lower() in real.shipped)]
        line = f"preg shipped {enc_world(world)} {';'.join(enc_op(o) for o in ops)}"
        ans = real.history("shipped", world, ops)
        s_m.add_raw(line, ans, tag="shipped-" + tag_of(ops, ans))


if __name__ == "__main__":
    import argparse
    import json
    import time

    sys.path.insert(0, os.path.dirname(os.path.dirname(os.path.abspath(__file__))))
    from runner import Ctx  # type: ignore

    ap = argparse.ArgumentParser()
    ap.add_argument("--thorough", action="store_true")
    ap.add_argument("--seed", type=int, default=1)
    a = ap.parse_args()
    import passlib

    assert os.path.realpath(passlib.__file__).startswith(os.path.realpath(os.environ.get("PASSLIB_REPO", "/repo"))), passlib.__file__
    cx = Ctx("C17registry", "thorough" if a.thorough else "quick", a.seed)
    t0 = time.time()
    sm = Suite(cx, "c17-registry-model")
    model_suite(cx, sm)
    res = sm.result()
    print(json.dumps({"cases": res["cases"], "mismatches": len(res["mismatches"]), "unmodelled": res["unmodelled"],
                      "seconds": round(time.time() - t0, 1), "passlib": os.path.dirname(passlib.__file__)}))
    for m in res["mismatches"][:12]:
        print("MISMATCH", json.dumps(m)[:1500])
    print(json.dumps(res["distribution"], indent=0)[:9000])
    print(json.dumps(dict(sorted(ANSWER_KINDS.items())), indent=0))
    for smp in sm.samples[:2]:
        print("SAMPLE", json.dumps(smp)[:700])
