"""C11 / SASLprep: the real `passlib.utils.saslprep` against the compiled Lean model (`Model.Saslprep.saslprep`) AND against the Lean
transcription of RFC 4013 over RFC 3454 (`Spec.Saslprep.saslprep`), plus the reflected range tables against `stringprep` itself.

`unicodedata.normalize` is external code: the model takes it as a parameter.  On the wire the harness supplies NFKC(mapped source)
computed with `unicodedata`, and the driver uses the constant function returning it.  A second family of cases replaces
`unicodedata.normalize` *inside passlib.utils* by a constant function as well, so that the statements after the normalisation (bidi
initialisation, the two asserts, the forbidden loop) are compared on arbitrary data — including data the real NFKC never produces.

The hypothesis `NfkcClean` of `Props.C11Saslprep.saslprep_eq_spec` ("NFKC of a text free of B.1 / C.1.2 characters is free of them") is
a statement about external code; `nfkc_clean_oracle` checks it on the running interpreter, exhaustively over the characters NFKC can emit.

Run alone:  /venv/bin/python tools/corr/c11_saslprep.py [--tier quick|thorough] [--seed N]
"""
from __future__ import annotations

import os
import stringprep
import sys
import unicodedata

if __name__ == "__main__":
    _T = os.path.dirname(os.path.dirname(os.path.abspath(__file__)))
    sys.path.insert(0, _T)
    sys.path.insert(0, os.environ.get("PASSLIB_REPO", "/repo"))
    __package__ = "corr"

from .common import Oracle, Suite, errname, merge  # noqa: E402

TABLES = ["a1", "b1", "c12", "c21_c22", "c3", "c4", "c5", "c6", "c7", "c8", "c9", "d1", "d2"]


def cps(t) -> str:
    t = [ord(c) for c in t] if isinstance(t, str) else list(t)
    return ",".join(str(x) for x in t) if t else "-"


def ranges_of(fn):
    rs, start = [], None
    for cp in range(0x110000):
        v = bool(fn(chr(cp)))
        if v and start is None:
            start = cp
        elif not v and start is not None:
            rs.append((start, cp - 1))
            start = None
    if start is not None:
        rs.append((start, 0x10FFFF))
    return rs


_RANGES = {}


def table_ranges():
    if not _RANGES:
        for t in TABLES:
            _RANGES[t] = ranges_of(getattr(stringprep, "in_table_" + t))
    return _RANGES


def boundary_points():
    pts = set()
    for rs in table_ranges().values():
        for a, b in rs:
            for x in (a - 1, a, a + 1, b - 1, b, b + 1):
                if 0 <= x < 0x110000:
                    pts.add(x)
    return sorted(pts)


def py_map(s: str) -> str:
    """RFC 4013 §2.1 with the stdlib tables, B.1 first"""
    return "".join(" " if stringprep.in_table_c12(c) else c for c in s if not stringprep.in_table_b1(c))


def py_map_alt(s: str) -> str:
    """… C.1.2 first (the other reading for U+200B)"""
    return "".join(" " if stringprep.in_table_c12(c) else ("" if stringprep.in_table_b1(c) else c) for c in s)


def real(s: str) -> str:
    from passlib.utils import saslprep

    try:
        return "ok " + cps(saslprep(s))
    except Exception as e:  # noqa: BLE001
        return "err " + errname(e)


class _FakeUnicodedata:
    """stand-in for the `unicodedata` name inside passlib.utils: normalize(form, data) -> the supplied text"""

    def __init__(self, out: str):
        self.out = out
        self.calls = []

    def normalize(self, form, data):
        self.calls.append((form, data))
        return self.out


def real_with_nfkc(s: str, out: str):
    """saslprep(s) with `unicodedata.normalize` replaced by the constant function -> (answer, what normalize was called with)"""
    import passlib.utils as pu

    fake = _FakeUnicodedata(out)
    old = pu.unicodedata
    pu.unicodedata = fake
    try:
        try:
            ans = "ok " + cps(pu.saslprep(s))
        except Exception as e:  # noqa: BLE001
            ans = "err " + errname(e)
    finally:
        pu.unicodedata = old
    return ans, fake.calls


# pools ---------------------------------------------------------------------------------------------------------------------
def _u(*xs):
    return [x if isinstance(x, str) else chr(x) for x in xs]


L_CHARS = _u("a", "Z", "x", "q", 0xAA, 0xDF, 0x3C2, 0x130, 0x4E2D, 0x10400, 0x915)
RAL_CHARS = _u(0x5D0, 0x5D1, 0x627, 0x628, 0x5BE, 0x61B, 0xFB1D, 0xFC5E, 0xFDFA, 0xFE70, 0x200F, 0x7B1)
DIGITS = _u("0", "1", "5", "9", 0x661, 0x6F1, 0x967)
NEUTRAL = _u(" ", ".", "-", "_", "!", "$", "%", 0x2460, 0xB7, 0x3001)
MAPPED = _u(0xA0, 0x1680, 0x2000, 0x2002, 0x200B, 0x202F, 0x205F, 0x3000, 0xAD, 0x34F, 0x1806, 0x180B, 0x180D, 0x200C, 0x200D, 0x2060, 0xFE00, 0xFE0F,
            0xFEFF)
PROHIBITED = _u(0x00, 0x09, 0x0A, 0x1F, 0x7F, 0x80, 0x9F, 0x6DD, 0x70F, 0x180E, 0x2028, 0x2029, 0x2061, 0x2063, 0x206A, 0x206F, 0xFFF9, 0xFFFC,
                0x1D173, 0xE000, 0xF8FF, 0xF0000, 0x10FFFD, 0xFDD0, 0xFDEF, 0xFFFE, 0xFFFF, 0x1FFFE, 0x10FFFF, 0xD800, 0xDFFF, 0xFFFA, 0xFFFD,
                0x2FF0, 0x2FFB, 0x340, 0x341, 0x200E, 0x202A, 0x202E, 0x206A, 0xE0001, 0xE0020, 0xE007F, 0x221, 0x378, 0x2FE0, 0xE0080)
NFKC_EXPANDING = _u(0xFB01, 0xFB03, 0xFF21, 0xFF41, 0xFF10, 0x2168, 0x2460, 0xBD, 0x2122, 0x33A1, 0xFDFA, 0xFDFB, 0xFC5E, 0xFB1D, 0xFB2A, 0xFE70, 0xFE76,
                    0xFE8D, 0xFEFB, 0x1E9B, 0x17F, 0x2126, 0x212B, 0xC5, 0x1100, 0x1161, 0xAC00, 0x3131, 0x958, 0xFB4F, 0x2002, 0xA0, 0xA8, 0x37A,
                    0x2017, 0x203E, 0x2474, 0x3300, 0x1D400, 0x2F800, 0x344, 0xF73, 0xFE49)
COMBINING = _u(0x300, 0x301, 0x308, 0x30A, 0x323, 0x327, 0x338, 0x5B0, 0x5BC, 0x64B, 0x651, 0x93C, 0x3099, 0x1161, 0x11A8)
FIXED = ["", "a", " ", "  ", "user name", "I\u00adX", "\u00ad", "\u00ad\u00ad", "\u200b", "a\u200bb", "\u200b\u00a0", "\u0627\u0628\u00ad", "\u0627\ufc5e",
         "\ufb1d", "\u0627a\u0628", "a\u0627", "\u0627a", "\u0627 1 \u0628", "\u0627\u200c", "\u05d0\ufe0f", "\u2168", "\u0627", "\u0627\u0661", "\u0661\u0627",
         "\u0627\u0661\u0628", "\u00aa", "\ufdfa", "\ufdfa\u0627", "a\ufdfa", "\u00ad\u0627\u0628", "\u00a0\u0627", "\u0627\u00a0", "A\u030a", "a\u0323\u0308",
         "\u1100\u1161\u11a8", "\u05d0\u05b0\u05bc", "A\u0300\u05d0", "\u05d0\u0300", "\u0300\u05d0", "\U0001d400\u05d0", "\u05d0\U0001d400", "\u3000\u3000",
         "\u2000\u200b\u2001", "user\u00a0name", "\u0627\u0628", "\u05d0\u05d1\u05d2", "\u0627\u0001\u0628", "\u212b", "\ufb01"]


def gen_sources(ctx):
    rng = ctx.rng
    out = [("fixed", t) for t in FIXED]
    out += [("ascii1", chr(c)) for c in range(0x80)]
    out += [("ascii", "".join(chr(rng.randrange(0x20, 0x7F)) for _ in range(rng.randrange(0, 13)))) for _ in range(200 if not ctx.thorough else 4000)]
    out += [("boundary1", chr(c)) for c in boundary_points()]
    # a boundary character inside both kinds of surrounding text
    bp = boundary_points()
    for c in (bp if ctx.thorough else rng.sample(bp, 400)):
        out.append(("boundary-in-L", "a" + chr(c) + "b"))
        out.append(("boundary-in-RAL", "\u0627" + chr(c) + "\u0628"))
    out += [("nfkc1", c) for c in NFKC_EXPANDING + COMBINING + MAPPED]
    pools = [("L", L_CHARS, 5), ("RAL", RAL_CHARS, 5), ("digit", DIGITS, 3), ("neutral", NEUTRAL, 2), ("mapped", MAPPED, 2), ("prohibited", PROHIBITED, 0.35),
             ("nfkc", NFKC_EXPANDING, 1.5), ("combining", COMBINING, 1.5)]
    names = [p[0] for p in pools]
    n = 6000 if not ctx.thorough else 150_000
    for _ in range(n):
        shape = rng.choice(["L", "RAL", "RAL-first-only", "RAL-last-only", "RAL-inside", "mixed", "mixed", "noprohib"])
        ln = rng.randrange(0, 13)
        weights = [p[2] for p in pools]
        if shape == "noprohib":
            weights[names.index("prohibited")] = 0
        if shape in ("RAL", "RAL-first-only", "RAL-last-only"):
            weights[names.index("L")] = 0.3 if shape == "RAL" else 3
        if shape == "L":
            weights[names.index("RAL")] = 0.2
        body = ["".join(rng.choice(rng.choices(pools, weights)[0][1])) for _ in range(ln)]
        if shape in ("RAL", "RAL-first-only") and body:
            body[0] = rng.choice(RAL_CHARS)
        if shape in ("RAL", "RAL-last-only") and body:
            body[-1] = rng.choice(RAL_CHARS)
        if shape == "RAL-inside" and len(body) >= 3:
            body[0], body[-1] = rng.choice(L_CHARS + DIGITS), rng.choice(L_CHARS + DIGITS)
            body[rng.randrange(1, len(body) - 1)] = rng.choice(RAL_CHARS)
        if rng.random() < 0.15 and body:
            body.insert(rng.randrange(len(body) + 1), rng.choice(MAPPED))
        out.append(("rand-" + shape, "".join(body)))
    # arbitrary code points
    for _ in range(1500 if not ctx.thorough else 40_000):
        out.append(("rand-anycp", "".join(chr(rng.choice([rng.randrange(0x110000), rng.randrange(0x3000), rng.randrange(0x250)])) for _ in range(rng.randrange(1, 6)))))
    return out


def model_suite(ctx, s_m):
    """real saslprep vs model and vs spec (same wire arguments), the mapping stage alone, the tables by name"""
    # (1) tables: every boundary of every table through the model's look-up by name
    for t, rs in table_ranges().items():
        fn = getattr(stringprep, "in_table_" + t)
        pts = set()
        for a, b in rs:
            pts.update(x for x in (a - 1, a, a + 1, b - 1, b, b + 1) if 0 <= x < 0x110000)
        pts.update([0, 0x20, 0x7E, 0x10FFFF])
        for x in sorted(pts):
            s_m.add_raw(f"sasl intable in_table_{t} {x}", "ok " + ("True" if fn(chr(x)) else "False"), "table:" + t)
    s_m.add_raw("sasl intable in_table_c11 32", "err AttributeError", "table:not-reflected")
    # (2) whole function
    for tag, s in gen_sources(ctx):
        r = real(s)
        mapped = py_map(s)
        nf = unicodedata.normalize("NFKC", mapped)
        s_m.add_raw(f"sasl map {cps(s)}", "ok " + cps(mapped), "map:" + tag.split("-")[0])
        s_m.add_raw(f"sasl specmap {cps(s)}", "ok " + cps(mapped), "specmap:" + tag.split("-")[0])
        s_m.add_raw(f"sasl prep {cps(s)} {cps(nf)}", r, "prep:" + tag)
        s_m.add_raw(f"sasl spec {cps(s)} {cps(nf)}", r, "spec:" + tag)
        if "\u200b" not in s:
            s_m.add_raw(f"sasl specalt {cps(s)} {cps(unicodedata.normalize('NFKC', py_map_alt(s)))}", r, "specalt:" + tag.split("-")[0])
    # (3) statements after the normalisation on arbitrary data: unicodedata.normalize replaced by a constant function in passlib.utils
    rng = ctx.rng
    everything = L_CHARS + RAL_CHARS + DIGITS + NEUTRAL + MAPPED + PROHIBITED + COMBINING
    for _ in range(3000 if not ctx.thorough else 60_000):
        s = "".join(rng.choice(everything) for _ in range(rng.randrange(0, 5)))
        kind = rng.choice(["clean", "dirty", "dirty", "any"])
        pool = {"clean": L_CHARS + RAL_CHARS + DIGITS + NEUTRAL, "dirty": L_CHARS + RAL_CHARS + DIGITS + MAPPED + MAPPED, "any": everything}[kind]
        out = "".join(rng.choice(pool) for _ in range(rng.randrange(0, 9)))
        ans, calls = real_with_nfkc(s, out)
        ok_call = calls == [("NFKC", py_map(s))]
        s_m.add_raw(f"sasl prep {cps(s)} {cps(out)}", ans if ok_call else f"normalize called with {calls!r}", "prep-fake-nfkc-" + kind)


def nfkc_clean_oracle(ctx):
    """ASSUMPTION CHECK (external code): `unicodedata.normalize('NFKC', ·)` never emits a B.1 / C.1.2 character for an input free of them.
    Every character of an NFKC result is (a) a character of the full compatibility decomposition of an input character, or (b) a
    composite produced by canonical composition (a character with a two-character canonical decomposition mapping, or a Hangul syllable).  Both sets
    are enumerated over all 0x110000 code points; additionally NFKC(c) itself is computed for every single clean code point, and for every
    clean code point between two clean neighbours."""
    o = Oracle(ctx, "nfkc-clean-assumption")
    dirty = lambda ch: stringprep.in_table_b1(ch) or stringprep.in_table_c12(ch)  # noqa: E731
    bad_single, bad_decomp, bad_comp = [], [], []
    n_clean = 0
    for cp in range(0x110000):
        ch = chr(cp)
        if dirty(ch):
            # after the mapping stage such a character is gone (B.1) or is U+0020 (C.1.2)
            continue
        n_clean += 1
        for form, sink in (("NFKC", bad_single), ("NFKD", bad_decomp)):
            r = unicodedata.normalize(form, ch)
            if any(dirty(x) for x in r):
                sink.append(cp)
        r = unicodedata.normalize("NFKC", "a" + ch + "\u05d0")
        if any(dirty(x) for x in r):
            bad_single.append(cp)
    for cp in range(0x110000):
        ch = chr(cp)
        dec = unicodedata.decomposition(ch)
        # singleton canonical decompositions (U+2000 -> U+2002, U+212B -> U+00C5, …) never recompose: only two-character mappings do
        composite = (dec and not dec.startswith("<") and len(dec.split()) >= 2) or 0xAC00 <= cp <= 0xD7A3
        if composite and dirty(ch):
            bad_comp.append(cp)
    o.check("nfkc-of-every-clean-code-point-is-clean", not bad_single, {"code_points": n_clean}, bad_single[:10], [])
    o.check("nfkd-of-every-clean-code-point-is-clean", not bad_decomp, {"code_points": n_clean}, bad_decomp[:10], [])
    o.check("no-canonical-composite-is-B1-or-C12", not bad_comp, {"code_points": 0x110000}, bad_comp[:10], [])
    o.check("nfkc-of-space-is-space", unicodedata.normalize("NFKC", " ") == " ", " ", unicodedata.normalize("NFKC", " "), " ")
    # idempotence of NFKC (hypothesis of saslprep_idempotent) on the generated corpus
    bad = [s for _, s in gen_sources(ctx)[:4000] for n in [unicodedata.normalize("NFKC", py_map(s))] if unicodedata.normalize("NFKC", n) != n]
    o.check("nfkc-idempotent-on-corpus", not bad, {"texts": 4000}, [cps(b) for b in bad[:3]], [])
    return o


def correspond(ctx):
    s_m = Suite(ctx, "saslprep-model-and-spec-vs-passlib")
    model_suite(ctx, s_m)
    o = nfkc_clean_oracle(ctx)
    return merge(s_m, o)


if __name__ == "__main__":
    import argparse
    import json

    from runner import Ctx

    ap = argparse.ArgumentParser()
    ap.add_argument("--tier", default="quick")
    ap.add_argument("--seed", default="0")
    a = ap.parse_args()
    res = correspond(Ctx("C11", a.tier, a.seed))
    bad = 0
    for name, r in res["suites"].items():
        bad += len(r["mismatches"])
        print(name, "cases", r["cases"], "mismatches", len(r["mismatches"]), "unmodelled", r["unmodelled"])
        print(json.dumps(r["distribution"], indent=0)[:6000])
        for m in r["mismatches"][:10]:
            print("  MISMATCH", json.dumps(m)[:400])
    sys.exit(1 if bad else 0)
