"""C04 / C10 — what a CryptContext passes on to its hashers (suite `ckw`, model PasslibVerif.Model.ContextKwds).

Real CryptContext objects over RECORDING hashers: synthetic ones (uh.StaticHandler subclasses declaring `user`, `encoding`, both or
nothing; an undeclared keyword ends in object.__init__ — Python's own TypeError) and recording subclasses of real ones
(postgres_md5, oracle10, msdcc, lmhash, htdigest).  Each hasher classmethod logs (record class, method, keyword names) before it runs.
Histories of constructor / load / update / copy (failing ones included), then calls of hash / verify / verify_and_update /
needs_update / identify / handler with keyword subsets of {user, encoding, realm, bogus}, `scheme=` and `category=` of every kind.
The implementation answer `<result> # <calls reaching hashers>` is compared with the compiled model.

  PASSLIB_REPO=/tmp/repo_clean /venv/bin/python -m corr.c04_kwds [--thorough] [--seed N]      (from tools/)
"""
from __future__ import annotations

import hashlib
import os
import sys
import warnings

if __name__ == "__main__":
    _here = os.path.dirname(os.path.abspath(__file__))
    sys.path.insert(0, os.path.dirname(_here))
sys.path.insert(0, os.environ.get("PASSLIB_REPO", "/repo"))

from .common import Suite, errname  # noqa: E402

LEAN_TARGETS = ["PasslibVerif.Props.C04Kwds"]
#: functions of passlib/context.py this suite pins (the model transcribes them)
PINNED = ["CryptContext.hash", "CryptContext.verify", "CryptContext.verify_and_update", "CryptContext.needs_update",
          "CryptContext.identify", "CryptContext.handler", "CryptContext.dummy_verify", "CryptContext._dummy_hash",
          "CryptContext._get_or_identify_record", "CryptContext._strip_unused_context_kwds", "CryptContext.load",
          "CryptContext.update", "CryptContext.copy", "_CryptConfig._init_records", "_CryptConfig.get_record",
          "_CryptConfig._get_record_list", "_CryptConfig.identify_record", "_CryptConfig.default_scheme"]

VAL = {"user": "alice", "encoding": "utf-8", "realm": "r", "bogus": 1}
KWS = ["user", "encoding", "realm", "bogus"]
LOG: list = []
ON = [False]
_POOL: dict = {}


def pool():
    """name -> (recording hasher class, declared keywords, required keywords)"""
    if _POOL:
        return _POOL
    import passlib.utils.handlers as uh
    from passlib import hash as H

    class Recording:
        @classmethod
        def hash(cls, secret, **kwds):
            if ON[0]:
                LOG.append((cls, "hash", list(kwds)))
            return super().hash(secret, **kwds)

        @classmethod
        def verify(cls, secret, hash, **kwds):
            if ON[0]:
                LOG.append((cls, "verify", list(kwds)))
            return super().verify(secret, hash, **kwds)

        @classmethod
        def needs_update(cls, hash, secret=None, **kwds):
            if ON[0]:
                LOG.append((cls, "needs", list(kwds)))
            return super().needs_update(hash, secret=secret, **kwds)

    def synthetic(nm, declared):
        class Syn(Recording, uh.StaticHandler):
            name = nm
            context_kwds = tuple(declared)
            setting_kwds = ("flavor",)
            checksum_chars = uh.LOWER_HEX_CHARS
            checksum_size = 8
            _hash_prefix = "$" + nm + "$"
            flavor = None

            def __init__(self, **kwds):
                for k in declared:                       # the declared keywords are consumed …
                    setattr(self, k, kwds.pop(k, None))
                super().__init__(**kwds)                 # … anything else ends in object.__init__(**kwds): TypeError

            @classmethod
            def using(cls, flavor=None, **kwds):
                sub = super().using(**kwds)
                if flavor is not None:
                    sub.flavor = flavor
                return sub

            def _calc_checksum(self, secret):
                if isinstance(secret, str):
                    secret = secret.encode("utf-8")
                return hashlib.md5(nm.encode() + secret).hexdigest()[:8]

            def _calc_needs_update(self, **kwds):
                return self.checksum[-1] in "01234567"

        Syn.__name__ = nm
        return Syn

    for nm, declared in [("sya", ["user"]), ("syb", ["encoding"]), ("syc", []), ("syd", ["user", "encoding"]), ("sye", [])]:
        _POOL[nm] = (synthetic(nm, declared), declared, [])
    for nm, req in [("postgres_md5", ["user"]), ("oracle10", ["user"]), ("msdcc", ["user"]), ("lmhash", []), ("htdigest", ["user", "realm"])]:
        base = getattr(H, nm)
        cls = type("rec_" + nm, (Recording, base), {})
        _POOL[nm] = (cls, list(base.context_kwds), req)
    return _POOL


# ---------------------------------------------------------------------------------------------------
def gen_options(rng, real_share=0.35):
    """a CryptContext option dict (may be invalid: then the load fails)"""
    P = pool()
    syn = ["sya", "syb", "syc", "syd", "sye"]
    real = ["postgres_md5", "oracle10", "msdcc", "lmhash", "htdigest"]
    r = rng.random()
    if r < 0.06:
        names = []
    elif r < 0.25:
        names = rng.sample(["syc", "sye", "syc", "sye", "sya"], rng.randint(1, 2))       # mostly no context keywords at all
        names = list(dict.fromkeys(names))
    else:
        src = syn + (real if rng.random() < real_share else [])
        names = rng.sample(src, rng.randint(1, min(4, len(src))))
    opts: dict = {"schemes": [P[n][0] for n in names]}
    if not names:
        return opts
    pick = lambda: rng.choice(names + (["nosuch"] if rng.random() < 0.04 else []))  # noqa: E731
    if rng.random() < 0.5:
        opts["default"] = pick()
    if rng.random() < 0.4:
        opts["deprecated"] = rng.sample(names, rng.randint(0, len(names) - (0 if rng.random() < 0.15 else 1)))
    for cat in ("admin", "staff"):
        if rng.random() < 0.45:
            if rng.random() < 0.5:
                opts[f"{cat}__context__default"] = pick()
            if rng.random() < 0.5:
                opts[f"{cat}__context__deprecated"] = rng.sample(names, rng.randint(0, len(names) - 1))
            for n in names:
                if n.startswith("sy") and rng.random() < 0.4:
                    opts[f"{cat}__{n}__flavor"] = rng.randint(1, 2)
    for n in names:
        if n.startswith("sy") and rng.random() < 0.25:
            opts[f"{n}__flavor"] = rng.randint(1, 2)
    return opts


def norm_key(k):
    p = k.split("__")
    if len(p) == 1:
        return (None, None, p[0])
    if len(p) == 2:
        return (None, None, p[1]) if p[0] == "context" else (None, p[0], p[1])
    return (p[0], None if p[1] == "context" else p[1], p[2])


def encode_cfg(opts, cx):
    """the model's Cfg of the CURRENT configuration: hashers / categories / own records follow from the option dict `opts` the harness
    tracks itself (so update() must have replaced exactly the given keys); defaults and deprecation flags are read through the API
    (their policy is the subject of suite `ctx`)."""
    P = pool()
    names = [h.name for h in opts.get("schemes", [])]
    norm = {norm_key(k): v for k, v in opts.items() if k != "schemes"}
    cats = sorted({c for (c, _s, _o) in norm if c})
    hs = ",".join(f"{n}:{'+'.join(P[n][1]) or '-'}:{'+'.join(P[n][2]) or '-'}" for n in names) or "-"
    cfg = cx._config
    dep = []
    own = []
    for n in names:
        d0 = cfg.is_deprecated_with_flag(n, None)[0]
        if d0:
            dep.append(f"{n}@-")
        f0 = norm.get((None, n, "flavor"))
        for c in cats:
            dc = cfg.is_deprecated_with_flag(n, c)[0]
            fc = norm.get((c, n, "flavor"), f0)
            if dc != d0 or fc != f0:
                own.append(f"{n}@{c}")
                if dc:
                    dep.append(f"{n}@{c}")
    defs = []
    if names:
        defs.append("-=" + cfg.default_scheme(None))
        for c in cats:
            defs.append(f"{c}=" + cfg.default_scheme(c))
    return "|".join([hs, ",".join(cats) or "-", ",".join(own) or "-", ",".join(dep) or "-", ",".join(defs) or "-"])


def gen_history(rng):
    """list of steps (kind, options); replayed by `replay`"""
    steps = [("new", gen_options(rng))]
    for _ in range(rng.choice([0, 0, 1, 1, 2, 3])):
        kind = rng.choice(["load", "update", "copy", "update_empty", "bad"])
        if kind == "load":
            steps.append(("load", gen_options(rng)))
        elif kind in ("update", "copy"):
            o = gen_options(rng)
            keys = rng.sample(sorted(o), rng.randint(1, len(o)))
            steps.append((kind, {k: o[k] for k in keys}))
        elif kind == "update_empty":
            steps.append(("update", {}))
        else:
            steps.append((rng.choice(["load", "update"]), {"schemes": [pool()["syc"][0]], "default": "syc", "deprecated": ["syc"]}))
    return steps


def replay(steps):
    """-> (context, history encoding, tracked option dict); raises AssertionError if a failed change changed something"""
    from passlib.context import CryptContext

    cx = None
    cur: dict = {}
    enc = []
    for kind, o in steps:
        before = (cx._config if cx is not None else None, cx.__dict__.get("_strip_unused_context_kwds", "absent") if cx is not None else None)
        try:
            if kind == "new":
                cx2 = CryptContext(**o)
                cx, new = cx2, dict(o)
            elif kind == "load":
                cx.load(o)
                new = dict(o)
            elif kind == "update":
                cx.update(**o)
                new = dict(cur)
                new.update(o)
            else:
                cx2 = cx.copy(**o)
                new = dict(cur)
                new.update(o)
                cx = cx2
            cur = new
            enc.append("X" if (kind == "update" and not o) else encode_cfg(cur, cx))
        except (ValueError, KeyError, TypeError):
            if cx is None:                               # the constructor failed: start from an empty context instead
                cx = CryptContext()
                cur = {}
                enc.append(encode_cfg(cur, cx))
            else:
                after = (cx._config, cx.__dict__.get("_strip_unused_context_kwds", "absent"))
                assert before == after, "a failed change changed the context"
                enc.append("X")
    return cx, ";".join(enc), cur


# ---------------------------------------------------------------------------------------------------
def enc_arg(v):
    if v is None:
        return "N"
    if isinstance(v, str):
        return "s." + v
    return "O"


def atom(fn):
    try:
        return "T" if fn() else "F"
    except TypeError:
        return "Y"
    except ValueError:
        return "E"


def facts(names, secret, h):
    """per scheme of the context: identify / verify / needs_update of the bare hasher, with every keyword it declares"""
    P = pool()
    out = []
    ON[0] = False
    for n in names:
        cls, declared, req = P[n]
        kw = {k: VAL[k] for k in declared}
        # which error the bare hasher gives for this hash when a keyword is wrong (a hash it refuses before binding keywords: that error)
        und = atom(lambda: cls.verify(secret, h, undeclared_kw=1, **kw))
        mis = atom(lambda: cls.verify(secret, h, **{k: v for k, v in kw.items() if k not in req})) if req else "Y"
        und, mis = (und if und in "EY" else "?"), (mis if mis in "EY" else "?")
        out.append(f"{n}={'1' if cls.identify(h) else '0'}{atom(lambda: cls.verify(secret, h, **kw))}{atom(lambda: cls.needs_update(h))}{und}{mis}")
    return ",".join(out)


def enc_hash(names, secret, h):
    if h is None:
        return "N"
    if not isinstance(h, (str, bytes)):
        return "O"
    return "f." + facts(names, secret, h)


def rec_tag(cx, cls):
    recs = cx._config._records
    name = cls.name
    for c in (None,) + tuple(cx._config.categories):
        if recs.get((name, c)) is cls:
            return f"{name}@{c or '-'}"
    return f"{name}@?"


def observe(cx, fn, show):
    del LOG[:]
    ON[0] = True
    try:
        try:
            r = "ok " + show(fn())
        except Exception as e:  # noqa: BLE001
            r = "err " + errname(e)
    finally:
        ON[0] = False
    tr = ",".join(f"{rec_tag(cx, c)}.{op}({'+'.join(k)})" for c, op, k in LOG) or "-"
    return r + " # " + tr


def show_vau(t):
    ok, new = t
    assert ok in (True, False) and (new is None or isinstance(new, str)) and (ok or new is None), t
    return ("T" if ok else "F") + " " + ("N" if new is None else "H")


def model_suite(ctx, s_m, n=None):
    warnings.simplefilter("ignore")
    rng = ctx.rng
    P = pool()
    n = n or (4000 if ctx.thorough else 500)
    secrets = ["pw0", "pw1", "pw2", "pw3"]
    for _ in range(n):
        steps = gen_history(rng)
        try:
            cx, hist, cur = replay(steps)
        except AssertionError as e:
            s_m.add_raw("ckw - flag", "err " + str(e), tag="history")
            continue
        names = [h.name for h in cur.get("schemes", [])]
        # the dummy hash's atoms: what the default scheme makes of the dummy secret (deterministic hashers; needs no keywords or fails)
        ON[0] = False
        dfacts = "-"
        if names:
            dn = cx._config.default_scheme(None)
            try:
                # the stand-in keywords of the real code (fix ff50ac0), narrowed to what the default scheme's hasher declares
                dk = {k: v for k, v in getattr(cx, "_dummy_context_kwds", {}).items() if k in P[dn][1]}
                dfacts = facts(names, cx._dummy_secret, P[dn][0].hash(cx._dummy_secret, **dk))
            except TypeError:
                dfacts = "-"
        for _line in range(2):
            cx, _h, _c = replay(steps)                   # a fresh object per line (the dummy-hash cache is per object)
            calls, impl = ["flag"], ["ok " + ("1" if "_strip_unused_context_kwds" in cx.__dict__ else "0")]
            for _q in range(rng.randint(3, 10)):
                kws = [k for k in KWS if rng.random() < 0.4]
                rng.shuffle(kws)
                kw = {k: VAL[k] for k in kws}
                ks = "+".join(kws) or "-"
                scheme = rng.choice([None] * 6 + names + names + ["nosuch", "", 5, "sya"])
                cat = rng.choice([None] * 5 + ["admin", "admin", "staff", "other", "", 5, b"admin"])
                extra = {}
                if scheme is not None or rng.random() < 0.1:
                    extra["scheme"] = scheme
                if cat is not None or rng.random() < 0.1:
                    extra["category"] = cat
                secret = rng.choice(secrets)
                # a hash argument: made by one of the pool's hashers (not necessarily one of the context), garbage, None, a non-string
                hk = rng.random()
                if hk < 0.72:
                    mk = rng.choice(names * 3 + list(P)) if names else rng.choice(list(P))
                    h = P[mk][0].hash(rng.choice([secret, secret, "other"]), **{k: VAL[k] for k in P[mk][1]})
                    if rng.random() < 0.15:
                        h = h.encode("ascii")
                elif hk < 0.82:
                    h = None
                elif hk < 0.9:
                    h = rng.choice(["xyz", "", "$sya$zz"])
                else:
                    h = rng.choice([5, 1.5, ["x"]])
                op = rng.choice(["hash", "hash", "verify", "verify", "vau", "vau", "vau", "needs", "identify", "handler"])
                sc, ct = enc_arg(extra.get("scheme")), enc_arg(extra.get("category"))
                if op == "hash":
                    calls.append(f"hash/{sc}/{ct}/{ks}")
                    impl.append(observe(cx, lambda: cx.hash(secret, **extra, **kw), lambda r: "H" if isinstance(r, str) else repr(r)))
                elif op == "verify":
                    calls.append(f"verify/{enc_hash(names, secret, h)}/{sc}/{ct}/{ks}/{dfacts}")
                    impl.append(observe(cx, lambda: cx.verify(secret, h, **extra, **kw), lambda r: {True: "T", False: "F"}[r]))
                elif op == "vau":
                    calls.append(f"vau/{enc_hash(names, secret, h)}/{sc}/{ct}/{ks}/{dfacts}")
                    impl.append(observe(cx, lambda: cx.verify_and_update(secret, h, **extra, **kw), show_vau))
                elif op == "needs":
                    calls.append(f"needs/{enc_hash(names, secret, h)}/{sc}/{ct}")
                    impl.append(observe(cx, lambda: cx.needs_update(h, **extra, secret=secret), lambda r: {True: "T", False: "F"}[r]))
                elif op == "identify":
                    req = rng.random() < 0.5
                    calls.append(f"identify/{enc_hash(names, secret, h)}/{ct}/{int(req)}")
                    ex = {k: v for k, v in extra.items() if k == "category"}
                    r = observe(cx, lambda: cx.identify(h, required=req, **ex), lambda r: "None" if r is None else r)
                    impl.append(r.split(" # ")[0])
                else:
                    calls.append(f"handler/{sc}/{ct}")
                    r = observe(cx, lambda: cx.handler(**extra), lambda r: rec_tag(cx, r) + (" dep" if r.deprecated else " nodep"))
                    impl.append(r.split(" # ")[0])
            for q, a in zip(calls[1:], impl[1:]):
                res_, _, tr_ = a.partition(" # ")
                kind = res_[3:] if res_.startswith("ok ") else res_[4:]
                s_m.dist[f"call:{q.split('/')[0]}:{kind if len(kind) < 24 else 'name'}:{'calls' + str(tr_.count('.')) if tr_ else 'n/a'}"] += 1
                for c_ in tr_.split(","):
                    if "@" in c_ and not c_.split("@")[1].startswith("-"):
                        s_m.dist["reached:own-category-record"] += 1
            tag = "kw-ctx" if any(P[x][1] for x in names) else ("nokw-ctx" if names else "empty-ctx")
            s_m.add_raw("ckw " + hist + " " + " ".join(calls), " | ".join(impl), tag=f"{tag}:hist{min(len(steps), 4)}")
    return s_m.result()


if __name__ == "__main__":
    import argparse
    import json
    import time

    sys.path.insert(0, os.path.dirname(os.path.dirname(os.path.abspath(__file__))))
    from runner import Ctx  # type: ignore

    ap = argparse.ArgumentParser()
    ap.add_argument("--thorough", action="store_true")
    ap.add_argument("--seed", type=int, default=1)
    ap.add_argument("--n", type=int, default=0)
    a = ap.parse_args()
    import passlib

    assert os.path.realpath(passlib.__file__).startswith(os.path.realpath(os.environ.get("PASSLIB_REPO", "/repo"))), passlib.__file__
    cx_ = Ctx("C04kwds", "thorough" if a.thorough else "quick", a.seed)
    t0 = time.time()
    sm = Suite(cx_, "c04-context-keywords", batch=2000)
    model_suite(cx_, sm, a.n or None)
    res = sm.result()
    print(json.dumps({"cases": res["cases"], "mismatches": len(res["mismatches"]), "unmodelled": res["unmodelled"],
                      "seconds": round(time.time() - t0, 1), "passlib": os.path.dirname(passlib.__file__)}))
    for m in res["mismatches"][:8]:
        print("MISMATCH", json.dumps(m)[:1800])
    print(json.dumps(res["distribution"], indent=0)[:3000])
    sys.exit(1 if res["mismatches"] else 0)
