"""C06 — the compiled model of the password / passphrase generators (lean/PasslibVerif/Model/PwdGen.lean, driver suite `pgen`)
against the REAL classes of `passlib/pwd.py` in the source tree at $PASSLIB_REPO: `WordGenerator`, `PhraseGenerator`, `genword`,
`genphrase`, `_ensure_unique`, `default_charsets`, `default_wordsets`, `entropy_aliases`.

The random source is a `random.Random` whose `_randbelow` is a table: the k-th question `_randbelow(n)` (asked by the stdlib's own
`randrange` / `choice`) is answered by `raw[k] % n`; the bounds asked and the answers given are recorded, the answers travel on the
protocol line (the model's `draw` stream) and the bounds asked are part of the compared answer.

    cd <verif> && PASSLIB_REPO=/tmp/repo_clean /venv/bin/python -m tools.corr.c06_pwd [--thorough] [--seed N] [--only tables,word,phrase,fn]
"""
from __future__ import annotations

import itertools
import os
import random
import sys
import warnings

if __name__ == "__main__":
    _here = os.path.dirname(os.path.abspath(__file__))
    sys.path.insert(0, os.path.dirname(_here))
sys.path.insert(0, os.environ.get("PASSLIB_REPO", "/repo"))

from .common import Suite, errname  # noqa: E402

LEAN_TARGETS = ["PasslibVerif.Props.C06Pwd"]
GROUPS = ["tables", "word", "phrase", "fn"]
PINNED = ["passlib.pwd.SequenceGenerator.__init__", "passlib.pwd.SequenceGenerator.__call__", "passlib.pwd.SequenceGenerator.entropy_per_symbol",
          "passlib.pwd.WordGenerator.__init__", "passlib.pwd.WordGenerator.__next__", "passlib.pwd.WordGenerator.symbol_count",
          "passlib.pwd.PhraseGenerator.__init__", "passlib.pwd.PhraseGenerator.__next__", "passlib.pwd.PhraseGenerator.symbol_count",
          "passlib.pwd._ensure_unique", "passlib.pwd._superclasses", "passlib.pwd.genword", "passlib.pwd.genphrase",
          "passlib.pwd.entropy_aliases", "passlib.pwd.default_charsets", "passlib.pwd.WordsetDict.__getitem__", "passlib.utils.getrandstr"]


class TableRng(random.Random):
    """random.Random with a table for `_randbelow` (randrange and choice are the stdlib's own code on top of it)"""

    def __init__(self, raw):
        super().__init__(0)
        self.raw = list(raw)
        self.asked = []
        self.answers = []

    def _randbelow(self, n):
        k = len(self.answers)
        v = (self.raw[k] if k < len(self.raw) else 0) % n
        self.asked.append(n)
        self.answers.append(v)
        return v

    def getrandbits(self, k):           # not used by the generators; kept total
        return self._randbelow(1 << k) if k else 0


def cps(s) -> str:
    if isinstance(s, (bytes, bytearray)):
        s = bytes(s).decode("utf-8")
    return ".".join(str(ord(c)) for c in s) if s else "="


def opt(s) -> str:
    return "N" if s is None else cps(s)


def wl(ws) -> str:
    ws = list(ws)
    return ",".join(("-" if not w else cps(w)) for w in ws) if ws else "="


def nl(xs) -> str:
    return ",".join(str(x) for x in xs) if xs else "-"


def ent(e) -> str:
    if e is None:
        return "N"
    if isinstance(e, str):
        from passlib.pwd import entropy_aliases
        return "a:" + e if e in entropy_aliases else "s"
    return str(e)


def ret(r) -> str:
    if r is None:
        return "N"
    if r is iter:
        return "iter"
    if isinstance(r, int):
        return str(int(r))
    return "other"


def show_result(r, g) -> str:
    if r is g:
        return "self"
    if isinstance(r, list):
        return "many:" + (";".join(cps(x) for x in r) if r else "[]")
    return "one:" + cps(r)


def model_suite(ctx, s_m, only=None):
    warnings.simplefilter("ignore")
    import passlib.pwd as pwd

    want = set(only or GROUPS)
    th = ctx.tier == "thorough"
    rng = random.Random(ctx.seed)

    def raws(n=24):
        return [rng.getrandbits(rng.choice((3, 16, 64, 2200))) for _ in range(n)]

    # ---- the tables the model carries are the source's ----------------------------------------------------------------------
    if "tables" in want:
        for nm in list(pwd.entropy_aliases) + ["bogus", ""]:
            s_m.add_raw(f"pgen alias {nm or '%'}", ("ok " + str(pwd.entropy_aliases[nm])) if nm in pwd.entropy_aliases else "none", "alias")
        assert sorted(pwd.entropy_aliases) == ["fair", "secure", "strong", "unsafe", "weak"], sorted(pwd.entropy_aliases)
        for nm in list(pwd.default_charsets) + ["bogus"]:
            s_m.add_raw(f"pgen charset {nm}", ("ok " + cps(pwd.default_charsets[nm])) if nm in pwd.default_charsets else "none", "charset")
        assert sorted(pwd.default_charsets) == ["ascii_50", "ascii_62", "ascii_72", "hex"]
        assert sorted(pwd.default_wordsets) == ["bip39", "eff_long", "eff_prefixed", "eff_short"]
        s_m.add_raw("pgen defaults", f"ok entropy={pwd.entropy_aliases[pwd.SequenceGenerator.requested_entropy]} charset={pwd.WordGenerator.charset} "
                    f"wordset={pwd.PhraseGenerator.wordset} sep={cps(pwd.PhraseGenerator.sep)}", "defaults")
        # every named wordset: duplicate-free, and the default separator (and NUL, '-') occurs in no word
        for nm in sorted(pwd.default_wordsets):
            ws = pwd.default_wordsets[nm]
            for sep in (" ", "-", "\x00", "a", "zz"):
                s_m.add_raw(f"pgen wsok {cps(sep)} {wl(ws)}", f"ok n={len(ws)} unique={'true' if len(set(ws)) == len(ws) else 'false'} "
                            f"sepfree={'true' if not any(sep in w for w in ws) else 'false'}", "wordset-facts")
        # _ensure_unique itself, on strings, lists, tuples (the cache is exercised by repeating every call)
        for src in ("", "a", "ab", "aa", "aba", "abcabc", "é€é", ["x"], ["x", "y"], ["x", "x"], ("a", "b", "a"), ("a", "", ""), ("", "a"), [],
                    ["ab", "a", "b"], tuple("abcdefghij") + ("a",)):
            for attempt in range(2):
                def run(src=src):
                    return str(pwd._ensure_unique(src))
                s_m.add(f"pgen unique {wl(src)}", run, "ensure_unique")
        # the exact integer length the driver uses for `minLen`, against the float computation of the real class
        for N in (2, 3, 10, 16, 50, 62, 72, 94, 1296, 2048, 7776):
            for e in (1, 2, 12, 24, 36, 47, 48, 49, 60, 128, 256):
                chars = "".join(chr(0x100 + i) for i in range(N))
                s_m.add(f"pgen minlen {N} {e}", lambda chars=chars, e=e: str(pwd.WordGenerator(chars=chars, entropy=e).length), "minlen")

    # ---- one case: real class, then the line with the answers the source gave ---------------------------------------------
    def run_case(kind, mk, kw_line, returns, table="N", via_fn=None, tag=""):
        """mk(rng) builds the generator; kw_line: the protocol fields before <returns>"""
        r = TableRng(raws())
        try:
            g = mk(r)
        except Exception as e:  # noqa: BLE001
            out = "err " + errname(e)
            g = None
        if g is not None:
            if kind == "word":
                attrs = (f"len={g.length} req={g.requested_entropy} charset={'None' if g.charset is None else ('E' if g.charset == '' else g.charset)} "
                         f"chars={cps(g.chars)}")
            else:
                attrs = (f"len={g.length} req={g.requested_entropy} wordset={'None' if g.wordset is None else g.wordset} nwords={len(g.words)} "
                         f"first={cps(g.words[0]) if g.words else '='} last={cps(g.words[-1]) if g.words else '='} sep={cps(g.sep)}")
            try:
                if via_fn is not None:
                    res = via_fn(r)
                    res_s = show_result(res, None)
                elif isinstance(returns, tuple):        # ("iter", k): k values taken from the iterator
                    it = g(iter)
                    assert it is g and iter(it) is g
                    res_s = show_result(list(itertools.islice(it, returns[1])), g)
                else:
                    res_s = show_result(g(returns), g)
                assert all(a < b for a, b in zip(r.answers, r.asked))
                out = f"{attrs} | asked={nl(r.asked)} used={len(r.answers)} | {res_s}"
            except Exception as e:  # noqa: BLE001
                out = attrs + " | err " + errname(e)
        rs = str(returns[1]) if isinstance(returns, tuple) else ret(returns)
        line = f"pgen {kind} {kw_line} {rs} {nl(r.answers)}" + (f" {table}" if kind == "phrase" else "")
        s_m.add_raw(line, out, tag or kind)

    def seq_fields(e, L, extra):
        return f"{ent(e)} {'N' if L is None else L} {1 if extra else 0}"

    def seq_kw(e, L, extra):
        kw = {}
        if e is not None:
            kw["entropy"] = e
        if L is not None:
            kw["length"] = L
        if extra:
            kw["bogus_option"] = 1
        return kw

    printable = "".join(chr(c) for c in range(33, 127))
    chars_opts = [None, "", "a", "ab", "abc", "aab", "0123456789", "é€𝄞x", b"xyz", printable, "abca", "zz"]
    charset_opts = [None, "", "ascii_72", "ascii_62", "ascii_50", "hex", "nope"]
    entropy_opts = [None, 0, -5, 1, 7, 48, 100, 300, "weak", "unsafe", "fair", "strong", "secure", "bogus"]
    length_opts = [None, 0, -1, 1, 5, 20]
    returns_opts = [None, 0, 1, 3, -2, iter, ("iter", 3), "x", True, False, 2.0]

    def word_case(chars, charset, e, L, extra, returns, via=None, tag=""):
        kw = seq_kw(e, L, extra)
        if chars is not None:
            kw["chars"] = chars
        if charset is not None:
            kw["charset"] = charset
        cs_f = "N" if charset is None else ("E" if charset == "" else charset)
        fields = f"{opt(chars)} {cs_f} {seq_fields(e, L, extra)}"
        fn = None
        if via == "genword":
            fn = lambda r: pwd.genword(returns=returns, rng=r, **kw)   # noqa: E731
        run_case("word", lambda r: pwd.WordGenerator(rng=r, **kw), fields, returns, via_fn=fn, tag=tag or "word")

    if "word" in want:
        for chars in chars_opts:
            for charset in charset_opts:
                for e in entropy_opts:
                    for L in length_opts:
                        for returns in (None, 2):
                            word_case(chars, charset, e, L, False, returns, tag="word:grid")
        for chars in (None, "a", "abc", "aab", printable):
            for charset in (None, "hex"):
                for e in (None, 20, "fair", -1):
                    for L in (None, 3, 0):
                        for returns in returns_opts:
                            word_case(chars, charset, e, L, False, returns, tag="word:returns")
                        word_case(chars, charset, e, L, True, None, tag="word:extra-kwds")
        for _ in range(300 if not th else 6000):
            N = rng.choice((1, 2, 3, 5, 16, 26, 62, 94, 200))
            chars = "".join(chr(0x21 + i) for i in range(N))
            word_case(chars, None, rng.choice((None, rng.randint(1, 400))), rng.choice((None, rng.randint(1, 60))), False,
                      rng.choice((None, rng.randint(0, 6))), tag="word:random")

    if "fn" in want:
        for chars in (None, "abc", "aab", "a"):
            for charset in (None, "ascii_50", "nope"):
                for e in (None, 30, "secure", 0):
                    for L in (None, 4, 40):
                        for returns in (None, 0, 3, "x"):
                            word_case(chars, charset, e, L, False, returns, via="genword", tag="genword()")

    # ---- phrases -------------------------------------------------------------------------------------------------------------
    def phrase_case(wordset, words, sep, e, L, extra, returns, via=None, tag="", conv=None):
        kw = seq_kw(e, L, extra)
        if wordset is not None:
            kw["wordset"] = wordset
        if sep is not None:
            kw["sep"] = sep
        table = "N"
        nm = wordset if wordset is not None else ("eff_long" if words is None else None)
        if nm in pwd.default_wordsets:
            table = wl(pwd.default_wordsets[nm])
        ws_f = "N" if wordset is None else (wordset or "%")
        fields = f"{ws_f} {'N' if words is None else wl(words)} {opt(sep)} {seq_fields(e, L, extra)}"

        def mk(r):
            k2 = dict(kw)
            if words is not None:
                k2["words"] = conv(words) if conv else words
            return pwd.PhraseGenerator(rng=r, **k2)
        fn = None
        if via == "genphrase":
            def fn(r):
                k2 = dict(kw)
                if words is not None:
                    k2["words"] = conv(words) if conv else words
                return pwd.genphrase(returns=returns, rng=r, **k2)
        run_case("phrase", mk, fields, returns, table=table, via_fn=fn, tag=tag or "phrase")

    if "phrase" in want:
        words_opts = [None, [], ["x"], ["a", "b"], ["alpha", "bravo", "charlie", "delta", "echo"], ["a", "b", "a"], ("x", "x"), ["", "a"],
                      ["b", "ab", "ba"], ("é", "€uro", "𝄞"), ["a b", "a", "b"], [str(i) for i in range(100)]]
        sep_opts = [None, "", " ", "-", "aa", b"+", "\x00"]
        for wordset in (None, "eff_long", "eff_short", "eff_prefixed", "bip39"):
            for e in (None, 1, 70, "weak", 0):
                for L in (None, 2, 0):
                    for returns in (None, 2):
                        phrase_case(wordset, None, rng.choice(sep_opts), e, L, False, returns, tag="phrase:named")
        for wordset in (None, "bip39", "", "nope"):
            for words in words_opts:
                for sep in sep_opts:
                    for e in (None, 0, -3, 1, 30, "fair", "bogus"):
                        for L in (None, 0, -2, 1, 4):
                            if wordset in (None, "bip39") and words is None and ((e, L) not in ((None, None), (30, 4)) or sep not in (None, "", "aa")):
                                continue        # the named sets have their own loop above (their tables travel on the line)
                            if wordset is not None and words is not None and (sep is not None or L not in (None, 4)):
                                continue        # `words` and `wordset` together: TypeError whatever the rest is
                            phrase_case(wordset, words, sep, e, L, False, rng.choice((None, 2)), tag="phrase:grid")
        for words in (["x"], ["a", "b", "c"], [], ["a", "a"]):
            for e in (None, 9):
                for L in (None, 3):
                    for returns in returns_opts:
                        phrase_case(None, words, "-", e, L, False, returns, tag="phrase:returns")
                    phrase_case(None, words, None, e, L, True, None, tag="phrase:extra-kwds")
                    # `words` of another iterable type goes through tuple(words)
                    phrase_case(None, words, None, e, L, False, 2, tag="phrase:iterable-words", conv=lambda w: iter(list(w)))
                    phrase_case(None, words, None, e, L, False, 2, tag="phrase:tuple-words", conv=tuple)
        for _ in range(200 if not th else 4000):
            N = rng.choice((1, 2, 3, 7, 50, 300))
            words = ["w%d" % i for i in range(N)]
            phrase_case(None, words, rng.choice(sep_opts), rng.choice((None, rng.randint(1, 200))), rng.choice((None, rng.randint(1, 12))), False,
                        rng.choice((None, rng.randint(0, 5))), tag="phrase:random")
    if "fn" in want:
        for wordset, words in ((None, None), ("eff_short", None), (None, ["a", "b", "c"]), ("bip39", ["a"]), (None, ["a", "a"])):
            for e in (None, 25, 0):
                for L in (None, 3):
                    for returns in (None, 0, 2, "x"):
                        phrase_case(wordset, words, None, e, L, False, returns, via="genphrase", tag="genphrase()")
    return s_m.result()


if __name__ == "__main__":
    import argparse
    import json
    import time

    sys.path.insert(0, os.path.dirname(os.path.dirname(os.path.abspath(__file__))))
    from runner import Ctx  # type: ignore

    ap = argparse.ArgumentParser()
    ap.add_argument("--thorough", action="store_true")
    ap.add_argument("--seed", type=int, default=1)
    ap.add_argument("--only", default="")
    a = ap.parse_args()
    import passlib

    assert os.path.realpath(passlib.__file__).startswith(os.path.realpath(os.environ.get("PASSLIB_REPO", "/repo"))), passlib.__file__
    cx = Ctx("C06pwd", "thorough" if a.thorough else "quick", a.seed)
    t0 = time.time()
    sm = Suite(cx, "c06-pwd-model")
    model_suite(cx, sm, [x for x in a.only.split(",") if x] or None)
    res = sm.result()
    print(json.dumps({"cases": res["cases"], "mismatches": len(res["mismatches"]), "unmodelled": res["unmodelled"],
                      "seconds": round(time.time() - t0, 1), "passlib": os.path.dirname(passlib.__file__)}))
    for m in res["mismatches"][:12]:
        print("MISMATCH", json.dumps(m)[:900])
    print(json.dumps(res["distribution"], indent=0)[:6000])
    sys.exit(1 if res["mismatches"] else 0)
