"""C03 — all backends of a hash agree and every advertised backend works."""
from __future__ import annotations

import base64
import hashlib
import hmac
import json
import os
import subprocess
import sys
import warnings
from concurrent.futures import ThreadPoolExecutor

from .common import Oracle, Suite, errname, merge

GEN_UNITS = ["Backend", "FormatDigests", "CryptoDigest", "OsCrypt"]
LEAN_TARGETS = ["PasslibVerif.Props.C03", "PasslibVerif.Props.C03Finalize", "PasslibVerif.Props.C03OsCrypt"]
ASSUMPTIONS = [
    "which loaders succeed on this machine (os_crypt support per format, the bcrypt package, hashlib.scrypt, $PASSLIB_BUILTIN_BCRYPT) is a parameter of the model, probed in fresh processes",
    "that two different back ends compute the same digest is established by C02/C11 theorems for the pure-Python code and by differential runs for the external code (crypt(), bcrypt package, hashlib.scrypt)",
    "thread safety of switching back ends is outside this property (C19)",
]
EXPLANATION = (
    "Theorems (Props.C03) about the backend state machine for every host, declared backend list and history: a failed or dry-run set_backend leaves the class "
    "untouched; a successful one leaves it on the backend it reports; default/any pick the first loadable declared backend; a loadable backend is reported "
    "available and selectable, an unloadable one refused, an unknown one a value error; every checksum is computed by the active backend, the first one of a "
    "process by the default backend; the bcrypt family applies a class's pre-hash exactly once whether or not a backend was loaded before (given how the lazy stub "
    "continues, which is read from the source each run); os_crypt paths fall back to the builtin code for passwords crypt() cannot take; operations on one hasher "
    "never affect another (history isolation). Correspondence: random operation histories executed in FRESH interpreter processes against the compiled model; "
    "digests of every ordered pair of loadable back ends compared over passwords (non-UTF-8 included), salts and costs."
)
ONLY_CORRESPONDENCE = ["digest equality between external back ends (crypt(), bcrypt package, hashlib.scrypt) and the pure-Python code"]

HERE = os.path.dirname(os.path.abspath(__file__))
REPO = os.environ.get("PASSLIB_REPO", "/repo")
MANY = ["md5_crypt", "sha1_crypt", "sha256_crypt", "sha512_crypt", "des_crypt", "bsdi_crypt"]
BC_CLASSES = {"bcrypt": 0, "bcrypt_sha256": 1, "django_bcrypt_sha256": 1, "django_bcrypt": 0}
SALT22 = "abcdefghijklmnopqrstuO"


def worker(ops, builtin_bcrypt: bool):
    env = dict(os.environ)
    env.pop("PASSLIB_BUILTIN_BCRYPT", None)
    if builtin_bcrypt:
        env["PASSLIB_BUILTIN_BCRYPT"] = "enabled"
    p = subprocess.run([sys.executable, os.path.join(HERE, "c03_worker.py"), REPO], input=json.dumps({"ops": ops}).encode(), capture_output=True, env=env, timeout=300)
    if p.returncode != 0:
        raise RuntimeError("c03 worker failed: " + p.stderr.decode()[-800:])
    return json.loads(p.stdout)


def probe_host(builtin_bcrypt: bool):
    """loader answers, each in a fresh process history of its own"""
    import passlib.hash as H

    warnings.simplefilter("ignore")
    spec = []
    names = MANY + ["bcrypt", "scrypt"]
    ops = []
    for n in names:
        for b in getattr(H, n).backends:
            ops.append(["has", n, b])
    res = worker(ops, builtin_bcrypt)
    for (kind, n, b), r in zip(ops, res):
        spec.append(f"{n}.{b}=" + ("ok" if r == "ok True" else "missing"))
    return ",".join(spec)


def prehash(cls: str, secret: bytes) -> bytes:
    if cls == "bcrypt_sha256":
        return base64.b64encode(hmac.new(SALT22.encode(), secret, hashlib.sha256).digest())
    if cls == "django_bcrypt_sha256":
        return hashlib.sha256(secret).hexdigest().encode()
    return secret


def bcrypt_refs(cls: str, secret: bytes):
    """reference hashes for 0, 1, 2 applications of the class's pre-hash, computed with the bcrypt package alone"""
    import bcrypt as pkg

    cfg = ("$2b$04$" + SALT22).encode()
    out = {}
    s = secret
    for k in range(3):
        out.setdefault(pkg.hashpw(s[:72], cfg).decode()[-31:], k)
        s = prehash(cls, s)
    return out


def many_ref(name: str, secret: bytes):
    """the digest by the pure-Python code, called directly (no backend machinery)"""
    import passlib.handlers.des_crypt as dc
    import passlib.handlers.md5_crypt as m5
    import passlib.handlers.sha1_crypt as s1
    import passlib.handlers.sha2_crypt as s2
    from passlib.hash import bsdi_crypt, sha1_crypt

    if name == "md5_crypt":
        return m5._raw_md5_crypt(secret, "saltsalt")
    if name == "sha256_crypt":
        return s2._raw_sha2_crypt(secret, "saltsalt", 1042, False)
    if name == "sha512_crypt":
        return s2._raw_sha2_crypt(secret, "saltsalt", 1043, True)
    if name == "des_crypt":
        return dc._raw_des_crypt(secret, b"ab").decode()
    if name == "bsdi_crypt":
        return dc._raw_bsdi_crypt(secret, 7, b"abcd").decode()
    if name == "sha1_crypt":
        return sha1_crypt.using(salt="saltsalt", rounds=7)(use_defaults=True, salt="saltsalt", rounds=7)._calc_checksum_builtin(secret)
    raise KeyError(name)


def gen_history(rng, n_ops):
    ops, mops = [], []
    owners = MANY + ["bcrypt"]
    focus = rng.sample(owners, rng.randrange(1, 4))
    for _ in range(n_ops):
        o = rng.choice(focus)
        cls = o if o != "bcrypt" else rng.choice(list(BC_CLASSES))
        import passlib.hash as H

        backends = list(getattr(H, o).backends)
        k = rng.random()
        if k < 0.35:
            secret = rng.choice([b"pw", b"", b"\xff\xfe\x80", "päss".encode(), b"x" * 73])
            kind = "calc"
            if b"\xff" in secret and o == "bcrypt":
                kind = "calcnu"     # bcrypt's os_crypt path refuses non-UTF-8 (recorded finding): the worker swaps the secret only when that backend is active
            ops.append([kind, cls, secret.hex()])
            mops.append(f"calc:{o}:{BC_CLASSES.get(cls, 0)}")
        elif k < 0.65:
            name = rng.choice(backends + ["any", "default", "nope", ""])
            dry = rng.random() < 0.25
            if cls == "django_bcrypt":
                cls = "bcrypt"      # a PrefixWrapper has no set_backend of its own
            ops.append(["set", cls, name, int(dry)])
            mops.append(f"set:{o}:{name or '~'}:{int(dry)}")
        elif k < 0.8:
            if cls == "django_bcrypt":
                cls = "bcrypt"
            ops.append(["get", cls])
            mops.append(f"get:{o}")
        else:
            name = rng.choice(backends + ["any", "default", "nope"])
            if cls == "django_bcrypt":
                cls = "bcrypt"
            ops.append(["has", cls, name])
            mops.append(f"has:{o}:{name}")
    return ops, mops


def canon_outputs(ops, res):
    """map the worker's raw answers to the model's vocabulary"""
    out = []
    for op, r in zip(ops, res):
        if op[0] not in ("calc", "calcnu") or not r.startswith("ok "):
            out.append(r)
            continue
        _, backend, hs = r.split(" ", 2)
        cls = op[1]
        secret = bytes.fromhex(op[2])
        if cls in BC_CLASSES:
            k = bcrypt_refs(cls, secret).get(hs[-31:])
            if k is None and op[0] == "calcnu":
                k = bcrypt_refs(cls, b"pw2").get(hs[-31:])
            out.append(f"ok {backend} {k if k is not None else 'WRONG-DIGEST'}")
        else:
            ref = many_ref(cls, secret)
            out.append(f"ok {backend} 0" if hs.endswith(ref) else f"ok {backend} WRONG-DIGEST")
    return out


def correspond(ctx):
    warnings.simplefilter("ignore")
    rng = ctx.rng
    s_hist = Suite(ctx, "backend-histories-fresh-process")
    o_pair = Oracle(ctx, "backend-pairs-same-digest")
    hosts = {bb: probe_host(bb) for bb in (False, True)}
    ctx.notes.append("host: " + hosts[True])
    n_hist = 120 if not ctx.thorough else 1500
    jobs = []
    # the first operation of a process matters most: every class as the very first call
    for cls in list(BC_CLASSES) + MANY:
        o = "bcrypt" if cls in BC_CLASSES else cls
        for secret in (b"pw", "päss".encode()):
            jobs.append(([["calc", cls, secret.hex()], ["get", o], ["calc", cls, secret.hex()]], [f"calc:{o}:{BC_CLASSES.get(cls, 0)}", f"get:{o}", f"calc:{o}:{BC_CLASSES.get(cls, 0)}"], True))
    for _ in range(n_hist):
        ops, mops = gen_history(rng, rng.randrange(1, 9))
        jobs.append((ops, mops, rng.random() < 0.5))
    with ThreadPoolExecutor(12) as ex:
        results = list(ex.map(lambda j: worker(j[0], j[2]), jobs))
    for (ops, mops, bb), res in zip(jobs, results):
        s_hist.add_raw(f"backend src {hosts[bb]} {';'.join(mops)}", " | ".join(canon_outputs(ops, res)), "builtin-bcrypt-env" if bb else "plain-env")

    # every ordered pair of loadable back ends gives the same string (in-process switching)
    pair_oracle(ctx, o_pair)
    o_order = Oracle(ctx, "backend-order-independence")
    order_oracle(ctx, o_order)
    # bcrypt's capability detection (_finalize_backend_mixin) on synthetic and real mixin classes: Model.BcryptFinalize (suite `bfin`)
    from . import c03_finalize

    s_fin = Suite(ctx, "bcrypt-finalize-model")
    c03_finalize.model_suite(ctx, s_fin)
    # the os_crypt back ends of the crypt-family hashers (availability probe + checksum routine over crypt() as a recorded parameter):
    # Model.OsCryptBackend (suite `ocp`)
    from . import c03_oscrypt

    s_ocp = Suite(ctx, "oscrypt-backend-model")
    c03_oscrypt.model_suite(ctx, s_ocp)
    return merge(s_hist, o_pair, o_order, s_fin, s_ocp)


def order_oracle(ctx, o, first_only=False):
    """what a backend computes does not depend on which backends were loaded before it (fresh process per history): for every ordered
    pair of bcrypt back ends and every ident, [load b1, hash, load b2, hash] gives the strings that [load b1, hash] and [load b2, hash] give"""
    import itertools

    idents = ["2", "2a", "2y", "2b"]
    pw = "pässwörd".encode().hex()
    singles, jobs = {}, []
    cand = ["bcrypt", "os_crypt", "builtin"]
    with ThreadPoolExecutor(12) as ex:
        res = list(ex.map(lambda bi: worker([["set", "bcrypt", bi[0], 0], ["calci", "bcrypt", pw, bi[1]]], True), [(b, i) for b in cand for i in idents]))
    for (b, i), r in zip([(b, i) for b in cand for i in idents], res):
        if r[0].startswith("ok") and r[1].startswith("ok "):
            singles[(b, i)] = r[1].split(" ", 2)[2]
    loadable = sorted({b for (b, _i) in singles})
    for b1, b2 in itertools.permutations(loadable, 2):
        for i in idents:
            if (b1, i) in singles and (b2, i) in singles:
                jobs.append((b1, b2, i))
    if not ctx.thorough and len(jobs) > 12:
        jobs = [j for j in jobs if j[2] == "2"] + ctx.rng.sample([j for j in jobs if j[2] != "2"], 6)
    with ThreadPoolExecutor(12) as ex:
        res = list(ex.map(lambda j: worker([["set", "bcrypt", j[0], 0], ["calci", "bcrypt", pw, j[2]], ["set", "bcrypt", j[1], 0], ["calci", "bcrypt", pw, j[2]]], True), jobs))
    fails = []
    for (b1, b2, i), r in zip(jobs, res):
        want = [f"ok {b1} {singles[(b1, i)]}", f"ok {b2} {singles[(b2, i)]}"]
        got = [r[1], r[3]]
        inp = {"op": "backend-order", "hasher": "bcrypt", "first": b1, "then": b2, "ident": i, "pwd": pw}
        o.check("bcrypt:" + i, got == want, inp, got if got == want else {"answers": got, "set_backend": [r[0], r[2]]}, want)
        if got != want:
            fails.append({"input": inp, "observed": {"answers": got, "set_backend": [r[0], r[2]]}, "expected": want})
            if first_only:
                return fails
    return fails


PWS = [b"k" * 63, b"k" * 64, b"k" * 65, b"m" * 16, b"m" * 24, b"m" * 127, b"m" * 128, b"", b"a", b"pw", b"\xff\xfe\x80abc", "pässø".encode(), "pässwörd".encode(), "日本語 pass".encode(), "🔑key".encode(), b"x" * 8, b"x" * 9, b"y" * 55, b"y" * 56, b"z" * 72, b"z" * 73, b"q" * 200, bytes(range(1, 256)),
       # beyond any internal tile / block buffer, up to what the C library takes (libxcrypt refuses 512 bytes and more)
       b"r" * 255, b"r" * 256, b"r" * 257, b"s" * 300, b"t" * 400, b"u" * 511]


def pair_oracle(ctx, o_pair, first_only=False):
    os.environ["PASSLIB_BUILTIN_BCRYPT"] = "enabled"
    import passlib.hash as H

    rng = ctx.rng
    fails = []
    settings = {
        "md5_crypt": lambda: dict(salt="".join(rng.choice("abcXYZ./09") for _ in range(rng.choice([1, 4, 8])))),
        "sha1_crypt": lambda: dict(salt="".join(rng.choice("abcXYZ./09") for _ in range(rng.choice([1, 8, 16, 64]))), rounds=rng.choice([1, 2, 7, 100])),
        "sha256_crypt": lambda: dict(salt="".join(rng.choice("abcXYZ./09") for _ in range(rng.choice([1, 8, 16]))), rounds=rng.choice([1000, 1001, 1041, 1042, 1043, 5000])),
        "sha512_crypt": lambda: dict(salt="".join(rng.choice("abcXYZ./09") for _ in range(rng.choice([1, 8, 16]))), rounds=rng.choice([1000, 1001, 1041, 1042, 1043, 5000])),
        "des_crypt": lambda: dict(salt="".join(rng.choice("abcXYZ./09") for _ in range(2))),
        "bsdi_crypt": lambda: dict(salt="".join(rng.choice("abcXYZ./09") for _ in range(4)), rounds=rng.choice([1, 3, 7, 725, 4095])),
        "bcrypt": lambda: dict(salt="".join(rng.choice("abcXYZ./09") for _ in range(21)) + rng.choice(".Oeu"), rounds=rng.choice([4, 5]), ident=rng.choice(["2", "2a", "2b", "2y"])),
        "bcrypt_sha256": lambda: dict(salt="".join(rng.choice("abcXYZ./09") for _ in range(21)) + rng.choice(".Oeu"), rounds=4),
        "scrypt": lambda: dict(salt=bytes(rng.randrange(256) for _ in range(rng.choice([0, 1, 16]))), rounds=rng.choice([1, 2, 5]), block_size=rng.choice([1, 2, 8]), parallelism=rng.choice([1, 2])),
    }
    for name, mk in settings.items():
        h = getattr(H, name)
        avail = [b for b in h.backends if h.has_backend(b)]
        orig = h.get_backend()
        try:
            slow = name in ("bcrypt", "bcrypt_sha256", "scrypt")      # pure-Python Blowfish / Salsa back ends
            reps = (1 if slow else 3) if not ctx.thorough else 25
            for rep in range(reps + (1 if name == "bcrypt" else 0)):
                kw = mk()
                quick_pws = [b"", b"\xff\xfe\x80abc", "pässø".encode(), b"y" * 56, b"z" * 72, b"z" * 73, bytes(range(1, 256))]
                if name == "bcrypt" and rep == reps:
                    # the legacy "$2$" ident repeats the password up to 72 bytes before hashing: multi-byte text must survive that on every backend
                    kw["ident"] = "2"
                    quick_pws = ["pässwörd".encode(), "日本語 pass".encode(), "🔑key".encode(), b"ascii", "é".encode() * 5]
                # text passwords too — in Unicode spellings a normaliser would rewrite: every backend must hash the text's UTF-8 bytes as given
                texts = ["cafe\u0301", "\u1100\u1161\u11a8", "A\u030a \u212b", "p\u00e4ss\u00f8"] if rep == 0 else []
                for pw in list(PWS if (not slow or ctx.thorough) and not (name == "bcrypt" and rep == reps) else quick_pws) + texts:
                    if isinstance(pw, str):
                        utf8 = True
                        as_bytes_pw = pw.encode("utf-8")
                    else:
                        as_bytes_pw = pw
                    if isinstance(pw, str):
                        pass
                    elif name in ("bcrypt", "bcrypt_sha256") and "os_crypt" in avail:
                        try:
                            pw.decode("utf-8")
                            utf8 = True
                        except UnicodeDecodeError:
                            utf8 = False
                    else:
                        utf8 = True
                    outs = {}
                    for b in avail:
                        if b == "os_crypt" and not utf8:
                            continue     # recorded finding bcrypt-os-crypt-refuses-non-utf8
                        h.set_backend(b)
                        try:
                            outs[b] = h.using(**kw).hash(pw)
                        except Exception as e:  # noqa: BLE001
                            outs[b] = "err " + errname(e) + ": " + str(e)[:80]
                    ok = len(set(outs.values())) == 1 and not next(iter(outs.values())).startswith("err ")
                    if ok and isinstance(pw, str):
                        # … and it is the hash of the UTF-8 bytes
                        h.set_backend(avail[-1])
                        ok = h.verify(as_bytes_pw, next(iter(outs.values()))) is True
                        if not ok:
                            outs = dict(outs, **{"verify-utf8-bytes": False})
                    # availability queries in between must not change what the selected backend computes
                    if ok and rng.random() < 0.5:
                        for b in avail:
                            h.set_backend(b)
                            for b2 in h.backends:
                                h.has_backend(b2)
                            try:
                                again = h.using(**kw).hash(pw) if not (b == "os_crypt" and not utf8) else outs.get(b, next(iter(outs.values())))
                            except Exception as e:  # noqa: BLE001
                                again = "err " + errname(e)
                            if h.get_backend() != b or again != next(iter(outs.values())):
                                ok = False
                                outs = dict(outs, **{"after-has_backend:" + b: again, "get_backend": h.get_backend()})
                    # and every backend verifies every other backend's string
                    if ok:
                        for b in avail:
                            if b == "os_crypt" and not utf8:
                                continue
                            h.set_backend(b)
                            ok = ok and h.verify(pw, next(iter(outs.values())))
                    inp = {"op": "pair", "hasher": name, "kwds": {k: (v.hex() if isinstance(v, bytes) else v) for k, v in kw.items()}, "pwd": as_bytes_pw.hex(), "text": isinstance(pw, str), "backends": avail}
                    o_pair.check(name, ok, inp, outs, "the same string from every loadable backend")
                    if not ok:
                        fails.append({"input": inp, "observed": outs, "expected": "the same string from every loadable backend"})
                        if first_only:
                            return fails
        finally:
            h.set_backend(orig)
    # the C back end of scrypt (hashlib / OpenSSL) works for every parameter set it is advertised for — the ones at which the memory
    # OpenSSL needs crosses a power of two included (the pure-Python back end is too slow there: the reference is hashlib.scrypt called
    # directly with a generous limit)
    import hashlib

    sc = H.scrypt
    if hasattr(hashlib, "scrypt") and "stdlib" in sc.backends and sc.has_backend("stdlib"):
        orig = sc.get_backend()
        try:
            sc.set_backend("stdlib")
            grid = [(15, 8, 1), (16, 4, 1), (17, 2, 1), (14, 16, 1), (15, 8, 2), (15, 7, 1), (14, 8, 1), (16, 8, 1), (12, 64, 1)] if not ctx.thorough else \
                   [(ln, r_, p_) for ln in range(10, 18) for r_ in (1, 2, 4, 7, 8, 16, 32) for p_ in (1, 2) if (1 << ln) * r_ <= 1 << 19]
            for ln, r_, p_ in grid:
                salt = bytes(rng.randrange(256) for _ in range(8))
                inp = {"op": "scrypt-stdlib-boundary", "rounds": ln, "block_size": r_, "parallelism": p_, "salt": salt.hex()}
                if ln >= 16 * r_:
                    continue            # not scrypt parameters at all (RFC 7914: N < 2^(128 r / 8))
                try:
                    want = hashlib.scrypt(b"pw", salt=salt, n=1 << ln, r=r_, p=p_, dklen=32, maxmem=1 << 30)
                except ValueError:
                    continue            # the reference itself cannot serve this set on this host
                try:
                    hs = sc.using(rounds=ln, block_size=r_, parallelism=p_, salt=salt).hash("pw")
                    got = sc.from_string(hs).checksum
                    ok = got == want and sc.verify("pw", hs)
                    obs = hs
                except Exception as e:  # noqa: BLE001
                    ok, obs = False, errname(e) + ": " + str(e)[:80]
                o_pair.check("scrypt-stdlib-boundary", ok, inp, obs, "the RFC 7914 key (hashlib.scrypt with a generous memory limit)")
                if not ok:
                    fails.append({"input": inp, "observed": obs, "expected": "the RFC 7914 key"})
                    if first_only:
                        return fails
        finally:
            sc.set_backend(orig)
    return fails


def search(ctx, broken, seeds):
    """the property on the real code: (1) the first call of a fresh process gives the same string as later calls and as the reference;
    (2) every pair of loadable back ends agrees"""
    warnings.simplefilter("ignore")
    for cls in list(BC_CLASSES) + MANY:
        for bb in (False, True):
            secret = b"password"
            res = worker([["calc", cls, secret.hex()], ["calc", cls, secret.hex()]], bb)
            can = canon_outputs([["calc", cls, secret.hex()]] * 2, res)
            want = f"{BC_CLASSES.get(cls, 0)}"
            for i, c in enumerate(can):
                if not c.startswith("ok ") or c.split(" ")[2] != want:
                    return {"input": {"op": "fresh-process-first-call", "hasher": cls, "builtin_bcrypt_env": bb, "call": i + 1}, "observed": res[i] + " => " + c,
                            "expected": f"the reference digest (class pre-hash applied {want} time(s))"}
    o = Oracle(ctx, "search")
    fails = order_oracle(ctx, o, first_only=True)
    if fails:
        return fails[0]
    fails = pair_oracle(ctx, o, first_only=True)
    if fails:
        return fails[0]
    return None


def replay(ctx, inp):
    warnings.simplefilter("ignore")
    op = inp.get("op")
    if op == "oscrypt-short-answer":
        # a crypt() that answers a string too short to hold a checksum: the os_crypt routine must refuse it with the documented backend error
        import passlib.utils as U
        from passlib import exc, registry

        h = registry.get_crypt_handler(inp["hasher"])
        real = U._crypt
        U._crypt = lambda s_, h_: inp["answer"]
        try:
            try:
                h(salt="test", rounds=1000, use_defaults=True)._calc_checksum_os_crypt("test")
                return {"fails": True, "observed": "a checksum was sliced out of " + repr(inp["answer"])}
            except exc.InternalBackendError as e:
                return {"fails": False, "observed": "InternalBackendError: " + str(e)[:80]}
            except Exception as e:  # noqa: BLE001
                return {"fails": True, "observed": type(e).__name__ + ": " + str(e)[:80]}
        finally:
            U._crypt = real
    if op == "fresh-process-first-call":
        cls = inp["hasher"]
        secret = b"password"
        res = worker([["calc", cls, secret.hex()], ["calc", cls, secret.hex()]], bool(inp.get("builtin_bcrypt_env", False)))
        can = canon_outputs([["calc", cls, secret.hex()]] * 2, res)
        want = f"{BC_CLASSES.get(cls, 0)}"
        bad = [c for c in can if not c.startswith("ok ") or c.split(" ")[2] != want]
        return {"fails": bool(bad), "observed": can}
    if op == "bcrypt-builtin-works":
        res = worker([["set", "bcrypt", "builtin", 0], ["calc", "bcrypt", b"pw".hex()]], True)
        return {"fails": not (res[0] == "ok builtin" and res[1].startswith("ok builtin ")), "observed": res}
    if op == "bcrypt-pkg-long-secret":
        res = worker([["set", "bcrypt", "bcrypt", 0], ["calc", "bcrypt", (b"x" * 80).hex()]], False)
        return {"fails": not (res[0] == "ok bcrypt" and res[1].startswith("ok bcrypt ")), "observed": res}
    if op == "bcrypt-os-crypt-non-utf8":
        res = worker([["set", "bcrypt", "os_crypt", 0], ["calc", "bcrypt", "fffe80"]], False)
        return {"fails": res[0] == "ok os_crypt" and res[1].startswith("err "), "observed": res}
    if op == "pair":
        import passlib.hash as H

        os.environ["PASSLIB_BUILTIN_BCRYPT"] = "enabled"
        h = getattr(H, inp["hasher"])
        kw = {k: (bytes.fromhex(v) if k == "salt" and inp["hasher"] == "scrypt" else v) for k, v in inp["kwds"].items()}
        pw = bytes.fromhex(inp["pwd"])
        if inp.get("text"):
            pw = pw.decode("utf-8")
        outs = {}
        orig = h.get_backend()
        try:
            for b in h.backends:
                if h.has_backend(b):
                    h.set_backend(b)
                    try:
                        outs[b] = h.using(**kw).hash(pw)
                    except Exception as e:  # noqa: BLE001
                        outs[b] = "err " + errname(e)
        finally:
            h.set_backend(orig)
        return {"fails": len(set(outs.values())) != 1, "observed": outs}
    r = search(ctx, [], [])
    return {"fails": r is not None, "observed": r}
