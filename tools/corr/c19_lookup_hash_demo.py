"""line-level schedule: thread A is preempted in lookup_hash() after it built its HashInfo for an OpenSSL-only digest (a fresh wrapper
function per lookup) and before it filled the cache; thread B then does its own first lookup of the same name."""
import sys, threading, hashlib
import passlib.crypto.digest as dg

NAME = next((n for n in ("sha512_224", "ripemd160", "sm3", "sha512_256") if not hasattr(hashlib, n) and n in hashlib.algorithms_available), None)
if NAME is None:
    print("no OpenSSL-only digest on this host"); sys.exit(0)
a_paused, b_done = threading.Event(), threading.Event()
def tracer(frame, event, arg):
    if frame.f_code.co_name != "lookup_hash":
        return None
    def local(frame, event, arg):
        if event == "line" and "info" in frame.f_locals and isinstance(frame.f_locals.get("info"), dg.HashInfo) and not a_paused.is_set() \
                and threading.current_thread().name == "A":
            a_paused.set(); b_done.wait(10)
        return local
    return local
out = {}
def call():
    return dg.lookup_hash(NAME).const(b"abc").hexdigest()
def A():
    sys.settrace(tracer)
    try: out["A"] = call()
    except BaseException as e: out["A"] = "ERR " + repr(e)
    finally: sys.settrace(None)
def B():
    a_paused.wait(10)
    try: out["B"] = call()
    except BaseException as e: out["B"] = "ERR " + repr(e)
    b_done.set()
ta, tb = threading.Thread(target=A, name="A"), threading.Thread(target=B, name="B")
ta.start(); tb.start(); ta.join(); tb.join()
print(NAME, out)
sys.exit(0 if out["A"] == out["B"] and not out["A"].startswith("ERR") else 1)
