"""unit UsingMisc: the literal tables and statement shapes behind the remaining `using()` settings (C09):

  fshp.using(variant=)            _variant_info / _variant_aliases / default_variant, _norm_variant
  scrypt.using(block_size=)       + ParallelismMixin.using(parallelism=): the `min=` of the two norm_integer calls, class defaults, MAX_RP
  bcrypt_sha256.using(version=)   _supported_versions, version, IDENT_2B, ident_values / ident_aliases / default_ident
  scram.using(default_algs=/algs=) default_algs
  unix_disabled.using(marker=)    (tables come from unit Disabled)

Everything that is a literal of the source is reflected from the imported classes; the statement lists of the functions the hand model
(Model/UsingMisc.lean) follows are compared with the text it was written against — any other shape is Untranslatable.
"""
import ast

from extract_core import HEADER, Untranslatable, find_def, lean_nat_list, lean_str, ords, src_ast, strip_doc, unit


def _body_src(fn) -> list[str]:
    return [ast.unparse(s) for s in strip_doc(fn.body)]


def _expect(qual: str, got: list[str], want: list[str]):
    if got != want:
        raise Untranslatable(f"{qual}: statement list changed: {got!r}")


def _kw_int(fn, call_name: str, kw: str) -> int:
    """the integer literal passed as keyword `kw` to the (single) call of `call_name` inside `fn`"""
    found = []
    for n in ast.walk(fn):
        if isinstance(n, ast.Call) and ast.unparse(n.func).endswith(call_name):
            for k in n.keywords:
                if k.arg == kw:
                    if not (isinstance(k.value, ast.Constant) and isinstance(k.value.value, int)):
                        raise Untranslatable(f"{fn.name}: {kw}= is not an integer literal")
                    found.append(k.value.value)
            if any(k.arg == "max" for k in n.keywords):
                raise Untranslatable(f"{fn.name}: a max= appeared in the {call_name} call")
    if len(found) != 1:
        raise Untranslatable(f"{fn.name}: expected one {call_name}(… {kw}=…) call, found {len(found)}")
    return found[0]


@unit("UsingMisc")
def unit_using_misc():  # noqa: C901
    import passlib.crypto.scrypt as cs
    import passlib.handlers.bcrypt as hb
    from passlib.hash import bcrypt_sha256, fshp, scram, scrypt

    out = [HEADER.format(src="passlib/handlers/fshp.py, scrypt.py, bcrypt.py, scram.py, misc.py, passlib/utils/handlers.py (ParallelismMixin)"),
           "namespace Gen.UsingMisc\n"]

    # ---------------------------------------------------------------- fshp
    t = src_ast("passlib/handlers/fshp.py")
    _expect("fshp.using", _body_src(find_def(t, "fshp.using")),
            ["subcls = super().using(**kwds)", "if variant is not None:\n    subcls.default_variant = cls._norm_variant(variant)", "return subcls"])
    _expect("fshp._norm_variant", _body_src(find_def(t, "fshp._norm_variant")),
            ["if isinstance(variant, bytes):\n    variant = variant.decode('ascii')",
             "if isinstance(variant, str):\n    try:\n        variant = cls._variant_aliases[variant]\n    except KeyError:\n        raise ValueError('invalid fshp variant')",
             "if not isinstance(variant, int):\n    raise TypeError('fshp variant must be int or known alias')",
             "if variant not in cls._variant_info:\n    raise ValueError('invalid fshp variant')",
             "return variant"])
    init = ast.unparse(find_def(t, "fshp.__init__"))
    for needle in ("if variant is not None:", "variant = self._norm_variant(variant)", "elif self.use_defaults:", "variant = self.default_variant",
                   "assert self._norm_variant(variant) == variant", "raise TypeError('no variant specified')", "self.variant = variant"):
        if needle not in init:
            raise Untranslatable(f"fshp.__init__ lost statement: {needle}")
    own = [n.name for n in find_def(t, "fshp").body if isinstance(n, ast.FunctionDef)]
    if "_calc_needs_update" in own:
        raise Untranslatable("fshp now defines its own _calc_needs_update (the model says the variant is never flagged)")
    info = fshp._variant_info
    if not all(isinstance(k, int) and not isinstance(k, bool) and isinstance(v[0], str) and isinstance(v[1], int) for k, v in info.items()):
        raise Untranslatable("fshp._variant_info: unexpected value kinds")
    if not all(isinstance(k, str) and isinstance(v, int) for k, v in fshp._variant_aliases.items()):
        raise Untranslatable("fshp._variant_aliases: unexpected value kinds")
    out.append("/-- `fshp._variant_info`: variant ↦ (hash name, digest size), in dict order -/\ndef fshpVariantInfo : List (Int × List Nat × Nat) := ["
               + ", ".join(f"({k}, {lean_nat_list(ords(v[0]))}, {v[1]})" for k, v in info.items()) + "]\n")
    out.append("/-- `fshp._variant_aliases`: text ↦ variant -/\ndef fshpVariantAliases : List (List Nat × Int) := ["
               + ", ".join(f"({lean_nat_list(ords(k))}, {v})" for k, v in fshp._variant_aliases.items()) + "]\n")
    out.append(f"def fshpDefaultVariant : Int := {int(fshp.default_variant)}\n")

    # ---------------------------------------------------------------- scrypt / ParallelismMixin
    t = src_ast("passlib/handlers/scrypt.py")
    th = src_ast("passlib/utils/handlers.py")
    _expect("scrypt.using", _body_src(find_def(t, "scrypt.using")),
            ["subcls = super().using(**kwds)",
             "if block_size is not None:\n    if isinstance(block_size, str):\n        block_size = int(block_size)\n"
             "    subcls.block_size = subcls._norm_block_size(block_size, relaxed=kwds.get('relaxed'))",
             "try:\n    _scrypt.validate(1 << subcls.default_rounds, subcls.block_size, subcls.parallelism)\n"
             "except ValueError as err:\n    raise ValueError('scrypt: invalid settings combination: ' + str(err)) from None",
             "return subcls"])
    _expect("ParallelismMixin.using", _body_src(find_def(th, "ParallelismMixin.using")),
            ["subcls = super().using(**kwds)",
             "if parallelism is not None:\n    if isinstance(parallelism, str):\n        parallelism = int(parallelism)\n"
             "    subcls.parallelism = subcls._norm_parallelism(parallelism, relaxed=kwds.get('relaxed'))",
             "return subcls"])
    _expect("scrypt._norm_block_size", _body_src(find_def(t, "scrypt._norm_block_size")),
            ["return uh.norm_integer(cls, block_size, min=1, param='block_size', relaxed=relaxed)".replace("min=1", f"min={_kw_int(find_def(t, 'scrypt._norm_block_size'), 'norm_integer', 'min')}")])
    _expect("ParallelismMixin._norm_parallelism", _body_src(find_def(th, "ParallelismMixin._norm_parallelism")),
            ["return norm_integer(cls, parallelism, min=1, param='parallelism', relaxed=relaxed)".replace("min=1", f"min={_kw_int(find_def(th, 'ParallelismMixin._norm_parallelism'), 'norm_integer', 'min')}")])
    bases = [ast.unparse(b) for b in find_def(t, "scrypt").bases]
    if bases[:2] != ["uh.ParallelismMixin", "uh.HasRounds"]:
        raise Untranslatable(f"scrypt bases changed: {bases}")
    tv = src_ast("passlib/crypto/scrypt/__init__.py")
    _expect("crypto.scrypt.validate", _body_src(find_def(tv, "validate")),
            ["if r < 1:\n    raise ValueError(f'r must be > 0: r={r!r}')",
             "if p < 1:\n    raise ValueError(f'p must be > 0: p={p!r}')",
             "if r * p > MAX_RP:\n    raise ValueError(f'r * p must be < 2**30: r={r!r}, p={p!r}')",
             "if n < 2 or n & n - 1:\n    raise ValueError(f'n must be > 1, and a power of 2: n={n!r}')",
             "return True"])
    init = ast.unparse(find_def(t, "scrypt.__init__"))
    for needle in ("if block_size is None:", "assert uh.validate_default_value(self, self.block_size, self._norm_block_size, param='block_size')",
                   "self.block_size = self._norm_block_size(block_size)"):
        if needle not in init:
            raise Untranslatable(f"scrypt.__init__ lost statement: {needle}")
    out.append(f"def scryptBlockSizeMin : Int := {_kw_int(find_def(t, 'scrypt._norm_block_size'), 'norm_integer', 'min')}\n")
    out.append(f"def parallelismMin : Int := {_kw_int(find_def(th, 'ParallelismMixin._norm_parallelism'), 'norm_integer', 'min')}\n")
    out.append(f"def scryptBlockSize : Int := {int(scrypt.block_size)}\n")
    out.append(f"def scryptParallelism : Int := {int(scrypt.parallelism)}\n")
    out.append(f"def scryptDefaultRounds : Nat := {int(scrypt.default_rounds)}\n")
    out.append(f"def scryptMinRounds : Nat := {int(scrypt.min_rounds)}\n")
    out.append(f"def scryptMaxRounds : Nat := {int(scrypt.max_rounds)}\n")
    out.append(f"def scryptMaxRP : Int := {int(cs.MAX_RP)}\n")

    # ---------------------------------------------------------------- bcrypt_sha256
    t = src_ast("passlib/handlers/bcrypt.py")
    _expect("bcrypt_sha256.using", _body_src(find_def(t, "bcrypt_sha256.using")),
            ["subcls = super().using(**kwds)",
             "if version is not None:\n    if isinstance(version, str):\n        version = int(version)\n    subcls.version = subcls._norm_version(version)",
             "ident = subcls.default_ident",
             "if subcls.version > 1 and ident != IDENT_2B:\n    raise ValueError(f'bcrypt {ident!r} hashes not allowed for version {subcls.version!r}')",
             "return subcls"])
    _expect("bcrypt_sha256._norm_version", _body_src(find_def(t, "bcrypt_sha256._norm_version")),
            ["if version not in cls._supported_versions:\n    raise ValueError(f'{cls.name}: unknown or unsupported version: {version!r}')", "return version"])
    _expect("bcrypt_sha256.__init__", _body_src(find_def(t, "bcrypt_sha256.__init__")),
            ["if version is not None:\n    self.version = self._norm_version(version)", "super().__init__(**kwds)"])
    sv = bcrypt_sha256._supported_versions
    if not all(isinstance(v, int) and not isinstance(v, bool) for v in sv):
        raise Untranslatable("bcrypt_sha256._supported_versions: not plain ints")
    out.append("def bcryptSha256SupportedVersions : List Int := [" + ", ".join(str(v) for v in sorted(sv)) + "]\n")
    out.append(f"def bcryptSha256Version : Int := {int(bcrypt_sha256.version)}\n")
    out.append(f"def IDENT_2B : List Nat := {lean_nat_list(ords(hb.IDENT_2B))}\n")
    out.append("def bcryptSha256IdentValues : List (List Nat) := [" + ", ".join(lean_nat_list(ords(v)) for v in bcrypt_sha256.ident_values) + "]\n")
    out.append("def bcryptSha256IdentAliases : List (List Nat × List Nat) := ["
               + ", ".join(f"({lean_nat_list(ords(k))}, {lean_nat_list(ords(v))})" for k, v in bcrypt_sha256.ident_aliases.items()) + "]\n")
    out.append(f"def bcryptSha256DefaultIdent : List Nat := {lean_nat_list(ords(bcrypt_sha256.default_ident))}\n")

    # ---------------------------------------------------------------- scram
    t = src_ast("passlib/handlers/scram.py")
    _expect("scram.using", _body_src(find_def(t, "scram.using")),
            ["if algs is not None:\n    assert default_algs is None\n    default_algs = algs",
             "subcls = super().using(**kwds)",
             "if default_algs is not None:\n    subcls.default_algs = cls._norm_algs(default_algs)",
             "return subcls"])
    _expect("scram._norm_algs", _body_src(find_def(t, "scram._norm_algs")),
            ["if isinstance(algs, str):\n    algs = splitcomma(algs)",
             "algs = sorted((norm_hash_name(alg, 'iana') for alg in algs))",
             "if any((len(alg) > 9 for alg in algs)):\n    raise ValueError('SCRAM limits alg names to max of 9 characters')",
             "if 'sha-1' not in algs:\n    raise ValueError('sha-1 must be in algorithm list of scram hash')",
             "return algs"])
    _expect("scram._calc_needs_update", _body_src(find_def(t, "scram._calc_needs_update")),
            ["if not set(self.algs).issuperset(self.default_algs):\n    return True", "return super()._calc_needs_update(**kwds)"])
    init = ast.unparse(find_def(t, "scram.__init__"))
    for needle in ("algs = list(self.default_algs)", "assert self._norm_algs(algs) == algs"):
        if needle not in init:
            raise Untranslatable(f"scram.__init__ lost statement: {needle}")
    if not all(isinstance(a, str) and a.isascii() for a in scram.default_algs):
        raise Untranslatable("scram.default_algs: unexpected value kinds")
    out.append("def scramDefaultAlgs : List (List Nat) := [" + ", ".join(lean_nat_list(ords(a)) for a in scram.default_algs) + "]\n")

    # ---------------------------------------------------------------- unix_disabled
    t = src_ast("passlib/handlers/misc.py")
    _expect("unix_disabled.using", _body_src(find_def(t, "unix_disabled.using")),
            ["subcls = super().using(**kwds)",
             "if marker is not None:\n    if not marker or not cls.identify(marker):\n        raise ValueError(f'invalid marker: {marker!r}')\n    subcls.default_marker = marker",
             "return subcls"])
    hs = ast.unparse(find_def(t, "unix_disabled.hash"))
    for needle in ("marker = cls.default_marker", "assert marker", "assert cls.identify(marker)", "return to_native_str(marker, param='marker')"):
        if needle not in hs:
            raise Untranslatable(f"unix_disabled.hash lost statement: {needle}")
    idn = ast.unparse(find_def(t, "unix_disabled.identify"))
    for needle in ("if isinstance(hash, str):", "start = _MARKER_CHARS", "elif isinstance(hash, bytes):", "start = _MARKER_BYTES",
                   "raise uh.exc.ExpectedStringError(hash, 'hash')", "return not hash or hash[0] in start"):
        if needle not in idn:
            raise Untranslatable(f"unix_disabled.identify lost statement: {needle}")
    out.append("def shapesChecked : String := " + lean_str("fshp.using/_norm_variant/__init__, scrypt.using/_norm_block_size/__init__, ParallelismMixin.using/_norm_parallelism, "
                                                            "crypto.scrypt.validate, bcrypt_sha256.using/_norm_version/__init__, scram.using/_norm_algs/_calc_needs_update, "
                                                            "unix_disabled.using/hash/identify") + "\n")
    out.append("end Gen.UsingMisc\n")
    return "\n".join(out)
