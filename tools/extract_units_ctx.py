"""unit Ctx: statement skeleton of CryptContext.load and the option tables of passlib/context.py."""
import ast

from extract_core import HEADER, Untranslatable, find_def, lean_str, src_ast, strip_doc, unit


def strlist(xs):
    return "[" + ", ".join(lean_str(x) for x in xs) + "]"


#: calls that cannot raise (checked below by looking at their bodies) and only touch the instance
SAFE_SELF_CALLS = {"self._reset_dummy_verify()", "self.__dict__.pop('_strip_unused_context_kwds', None)"}


def classify(stmt: ast.stmt):
    """(kind, mutates_self, may_raise) for one statement of load()"""
    src = ast.unparse(stmt)
    if isinstance(stmt, ast.Expr) and isinstance(stmt.value, ast.Constant):
        return None
    if isinstance(stmt, ast.Assign):
        tgt = ast.unparse(stmt.targets[0])
        mut = tgt.startswith("self.")
        # right-hand sides: plain names / attribute reads / constants cannot raise; calls may
        raises = any(isinstance(n, ast.Call) for n in ast.walk(stmt.value))
        return ("assign " + tgt, mut, raises)
    if isinstance(stmt, ast.Expr) and isinstance(stmt.value, ast.Call):
        if src in SAFE_SELF_CALLS:
            return ("call " + src, True, False)
        return ("call " + src, src.startswith("self."), True)
    if isinstance(stmt, ast.Raise):
        return ("raise", False, True)
    if isinstance(stmt, ast.Return):
        return ("return", False, False)
    raise Untranslatable(f"load(): unclassified statement {src[:60]}")


def flatten(stmts, out, guard=""):
    for s in stmts:
        if isinstance(s, ast.If):
            # the test itself may raise only if it calls something
            test_raises = any(isinstance(n, ast.Call) and ast.unparse(n.func) not in ("isinstance", "hasattr") for n in ast.walk(s.test))
            out.append(("if " + ast.unparse(s.test), False, test_raises))
            flatten(s.body, out)
            flatten(s.orelse, out)
        else:
            c = classify(s)
            if c:
                out.append(c)


@unit("Ctx")
def unit_ctx():
    import passlib.context as pc

    tree = src_ast("passlib/context.py")
    out = [HEADER.format(src="passlib/context.py"), "namespace Gen.Ctx\n"]
    load = find_def(tree, "CryptContext.load")
    steps = []
    flatten(strip_doc(load.body), steps)
    # the bodies the whitelist relies on
    rdv = ast.unparse(find_def(tree, "CryptContext._reset_dummy_verify").body[-1])
    if rdv != "type(self)._dummy_hash.clear_cache(self)":
        raise Untranslatable("_reset_dummy_verify body changed: " + rdv)
    import passlib.utils.decor as dec

    cc = ast.unparse(ast.parse(__import__("inspect").getsource(dec.memoized_property.clear_cache).lstrip()).body[0].body[-1])
    if "pop(" not in cc or "None" not in cc:
        raise Untranslatable("memoized_property.clear_cache is not a defaulted pop: " + cc)
    out.append("/-- statements of `CryptContext.load` in order: (text, writes to self, may raise) -/")
    out.append("def loadSteps : List (String × Bool × Bool) :=\n  [" + ",\n   ".join(
        f"({lean_str(k[:70])}, {'true' if m else 'false'}, {'true' if r else 'false'})" for k, m, r in steps) + "]\n")
    out.append(f"def forbiddenSchemeOptions : List String := {strlist(sorted(pc._forbidden_scheme_options))}\n")
    out.append(f"def globalSettings : List String := {strlist(sorted(pc._global_settings))}\n")
    out.append(f"def coercedOptions : List String := {strlist(sorted(pc._coerce_scheme_options))}\n")
    # key syntax: separators and the two reserved words
    pk = ast.unparse(find_def(tree, "CryptContext._parse_config_key"))
    for needle in ("ckey.replace('.', '__').split('__')", "if cat == 'default':", "if scheme == 'context':", "keys must have less than 3 separators"):
        if needle not in pk:
            raise Untranslatable("_parse_config_key lost: " + needle)
    rk = ast.unparse(find_def(tree, "CryptContext._render_config_key"))
    for needle in ("'{}__{}__{}'.format(cat, scheme or 'context', option)", "f'{scheme}__{option}'", "return option"):
        if needle not in rk:
            raise Untranslatable("_render_config_key lost: " + needle)
    out.append('def keySyntax : String := "cat__scheme__option ; \'.\' = \'__\' ; cat \'default\' = None ; scheme \'context\' = None"\n')
    out.append("end Gen.Ctx\n")
    return "\n".join(out)
