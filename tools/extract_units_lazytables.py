"""unit LazyTables: the lazily built module-level tables of passlib.crypto.des and passlib.crypto._blowfish.base (C19).

From the SOURCE (ast): the order in which the loader function assigns its `global` tables, the table the user function tests
(`if X is None: loader()`), and the tables the user function reads afterwards.  A guard on anything but the table assigned last lets a
second thread run on while the later tables are unset (theorems in Props/C19Tables.lean)."""
import ast

from extract_core import HEADER, Untranslatable, find_def, lean_str, src_ast, strip_doc, unit


def loader_order(fn: ast.FunctionDef):
    body = strip_doc(fn.body)
    globs = [n for s in body if isinstance(s, ast.Global) for n in s.names]
    if not globs:
        raise Untranslatable(f"{fn.name}: no global statement")
    order = []
    for s in body:
        if isinstance(s, ast.Assign):
            for t in s.targets:
                names = [t.id] if isinstance(t, ast.Name) else [e.id for e in getattr(t, "elts", []) if isinstance(e, ast.Name)]
                for n in names:
                    if n in globs:
                        order.append(n)
        elif isinstance(s, (ast.If, ast.For, ast.While, ast.With, ast.Try)):
            # a table assigned under control flow: the order is no longer a straight line
            for sub in ast.walk(s):
                if isinstance(sub, ast.Name) and isinstance(sub.ctx, ast.Store) and sub.id in globs:
                    raise Untranslatable(f"{fn.name}: table {sub.id} assigned under control flow")
    if sorted(set(order)) != sorted(set(globs)) or len(order) != len(set(order)):
        raise Untranslatable(f"{fn.name}: globals {globs} vs straight-line assignments {order}")
    return order


def guard_of(fn: ast.FunctionDef, loader: str):
    """the `if <X> is None: <loader>()` statement of the user function"""
    hits = []
    for s in ast.walk(fn):
        if isinstance(s, ast.If) and len(s.body) >= 1:
            calls = [c for st in s.body for c in ast.walk(st) if isinstance(c, ast.Call) and isinstance(c.func, ast.Name) and c.func.id == loader]
            if calls:
                t = s.test
                if not (isinstance(t, ast.Compare) and isinstance(t.left, ast.Name) and len(t.ops) == 1 and isinstance(t.ops[0], ast.Is)
                        and isinstance(t.comparators[0], ast.Constant) and t.comparators[0].value is None):
                    raise Untranslatable(f"{fn.name}: guard of {loader}() is `{ast.unparse(t)}`")
                if s.orelse:
                    raise Untranslatable(f"{fn.name}: guard of {loader}() has an else branch")
                hits.append(t.left.id)
    if len(hits) != 1:
        raise Untranslatable(f"{fn.name}: {len(hits)} guarded calls of {loader}()")
    return hits[0]


def reads_of(fn: ast.FunctionDef, tables):
    return sorted({n.id for n in ast.walk(fn) if isinstance(n, ast.Name) and isinstance(n.ctx, ast.Load) and n.id in tables})


@unit("LazyTables")
def unit_lazytables():
    out = [HEADER.format(src="passlib/crypto/des.py (_load_tables, des_encrypt_int_block), passlib/crypto/_blowfish/base.py (_init_constants, BlowfishEngine.__init__)"),
           "namespace Gen.LazyTables\n"]
    for tag, path, loader, user in (("des", "passlib/crypto/des.py", "_load_tables", "des_encrypt_int_block"),
                                    ("blowfish", "passlib/crypto/_blowfish/base.py", "_init_constants", "BlowfishEngine.__init__")):
        tree = src_ast(path)
        order = loader_order(find_def(tree, loader))
        ufn = find_def(tree, user)
        guard = guard_of(ufn, loader)
        reads = reads_of(ufn, order)
        # module level: every table starts as None
        init = {}
        for s in tree.body:
            if isinstance(s, ast.Assign) and isinstance(s.value, ast.Constant) and s.value.value is None:
                for t in s.targets:
                    for n in ([t.id] if isinstance(t, ast.Name) else []):
                        init[n] = True
        missing = [n for n in order if n not in init]
        if missing:
            raise Untranslatable(f"{path}: tables {missing} are not initialised to None at module level")
        if guard not in order:
            raise Untranslatable(f"{user}: guard {guard} is not one of the loader's tables {order}")
        out.append(f"/-- `{loader}()`: the tables in the order they are assigned -/\ndef {tag}Order : List String := [" + ", ".join(lean_str(n) for n in order) + "]\n")
        out.append(f"/-- `{user}`: `if {guard} is None: {loader}()` -/\ndef {tag}Guard : String := {lean_str(guard)}\n")
        out.append(f"/-- the tables `{user}` reads after the guard -/\ndef {tag}Reads : List String := [" + ", ".join(lean_str(n) for n in reads) + "]\n")
    out.append("end Gen.LazyTables\n")
    return "\n".join(out)
