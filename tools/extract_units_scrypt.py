"""unit Scrypt: passlib/crypto/scrypt/{_salsa,_builtin,__init__}.py -> Gen/Scrypt.lean

  * `_salsa.salsa20(input)`: the whole body is translated (mode "expr"): the 16-way unpack of
    `input`, the straight-line prologue, the counted `while i < K` loop (its body becomes
    `salsa20_loop_body`, applied K times), the straight-line epilogue and the returned tuple.
    Any other statement shape is refused.
  * `ScryptEngine.__init__`: the derived sizes (`smix_bytes`, `iv_bytes`, `bmix_len`,
    `bmix_half_len`), the struct format, the `r == 1` fast-path test and the two `integerify`
    variants are reflected from the AST.
  * `validate(n, r, p)`: the ordered list of raise-conditions, and MAX_RP / MAX_KEYLEN.
  * `ScryptEngine.run / smix / bmix / _bmix_1` are modelled by hand in Model/Scrypt.lean; their
    normalised source text is pinned here (sha256), so that any edit of those functions makes the
    extraction (and therefore the build) fail instead of silently keeping a stale model.

Stand-alone use:  /venv/bin/python extract_units_scrypt.py [out.lean]
"""
import ast
import hashlib
import os
import sys

_HERE = os.path.dirname(os.path.abspath(__file__))          # checkout-relative: a snapshot of /verif elsewhere must use ITS tools and pins
if _HERE not in sys.path:
    sys.path.insert(0, _HERE)
from extract_core import HEADER, Untranslatable, block, expr, find_def, src_ast, strip_doc, unit  # noqa: E402

SALSA = "passlib/crypto/scrypt/_salsa.py"
BUILTIN = "passlib/crypto/scrypt/_builtin.py"
FRONT = "passlib/crypto/scrypt/__init__.py"

#: sha256 of `ast.unparse` of the (docstring-stripped) hand-modelled methods
PINNED = {
    "run": "771892ebd87356102db800dda016578dec48c7d97464a2c90eef1ab6be3787d2",
    "smix": "fa8a679ef6311687f34408d53b44b15f6f3f2b0fba2160ae9e66b66698a778b0",
    "bmix": "19f7c871201b243a377b5295c87e5fa6a06518178fc8f38b01db008ba47e609a",
    "_bmix_1": "90ca91dc5569dae0c19485094992799d4e52e146740c7541ad228294d390bd73",
}


def names_tuple(node, what):
    if not (isinstance(node, ast.Tuple) and all(isinstance(e, ast.Name) for e in node.elts)):
        raise Untranslatable(f"{what}: expected a tuple of names")
    return [e.id for e in node.elts]


def reads_writes(stmts):
    """(live-in names, assigned names in order of first assignment) of a straight-line block"""
    live, written = [], []
    for s in stmts:
        if isinstance(s, ast.Assign) and len(s.targets) == 1:
            rd, tg = s.value, s.targets[0]
            tgs = [tg.id] if isinstance(tg, ast.Name) else names_tuple(tg, "target")
            rds = [n.id for n in ast.walk(rd) if isinstance(n, ast.Name)]
        elif isinstance(s, ast.AugAssign) and isinstance(s.target, ast.Name):
            tgs = [s.target.id]
            rds = [s.target.id] + [n.id for n in ast.walk(s.value) if isinstance(n, ast.Name)]
        else:
            raise Untranslatable(f"statement {type(s).__name__} in straight-line block: {ast.unparse(s)[:60]}")
        for r in rds:
            if r not in written and r not in live:
                live.append(r)
        for t in tgs:
            if t not in written:
                written.append(t)
    return live, written


def indent(text, n):
    pad = " " * n
    return "\n".join(pad + ln.strip() for ln in text.split("\n"))


def translate_salsa():
    fn = find_def(src_ast(SALSA), "salsa20")
    if [a.arg for a in fn.args.args] != ["input"] or fn.args.vararg or fn.args.kwarg or fn.args.defaults:
        raise Untranslatable("salsa20 signature")
    body = strip_doc(fn.body)
    # --- 1. unpack of the argument
    s0 = body[0]
    if not (isinstance(s0, ast.Assign) and len(s0.targets) == 1 and isinstance(s0.value, ast.Name) and s0.value.id == "input"):
        raise Untranslatable("first statement is not `<names> = input`")
    inputs = names_tuple(s0.targets[0], "unpack")
    if len(set(inputs)) != len(inputs):
        raise Untranslatable("duplicate names in unpack")
    # --- 2. prologue / loop / epilogue / return
    loops = [i for i, s in enumerate(body) if isinstance(s, ast.While)]
    if len(loops) != 1:
        raise Untranslatable("expected exactly one while loop")
    li = loops[0]
    loop = body[li]
    pre, post, ret = body[1 : li - 1], body[li + 1 : -1], body[-1]
    init = body[li - 1]
    if not isinstance(ret, ast.Return) or ret.value is None:
        raise Untranslatable("last statement is not a return")
    # counter:  i = 0 ; while i < K: ... ; i += 1
    if not (isinstance(init, ast.Assign) and len(init.targets) == 1 and isinstance(init.targets[0], ast.Name)
            and isinstance(init.value, ast.Constant) and init.value.value == 0 and type(init.value.value) is int):
        raise Untranslatable("loop counter initialisation")
    ctr = init.targets[0].id
    t = loop.test
    if loop.orelse or not (isinstance(t, ast.Compare) and len(t.ops) == 1 and isinstance(t.ops[0], ast.Lt)
                           and isinstance(t.left, ast.Name) and t.left.id == ctr
                           and isinstance(t.comparators[0], ast.Constant) and type(t.comparators[0].value) is int):
        raise Untranslatable("loop test is not `<counter> < <int literal>`")
    count = t.comparators[0].value
    if not (0 < count <= 64):
        raise Untranslatable("loop count out of range")
    lbody, inc = loop.body[:-1], loop.body[-1]
    if ast.unparse(inc) != f"{ctr} += 1":
        raise Untranslatable("loop does not end with `<counter> += 1`")
    for s in pre + lbody + post + [ret]:
        for n in ast.walk(s):
            if isinstance(n, ast.Name) and n.id == ctr:
                raise Untranslatable("loop counter used outside the loop control")
    # --- 3. data flow
    live_in, written = reads_writes(lbody)
    _, pre_written = reads_writes(pre)
    post_live, post_written = reads_writes(post)
    ret_names = names_tuple(ret.value, "return")
    after_loop_reads = post_live + [n for n in ret_names if n not in post_written and n not in post_live]
    state = [w for w in written if w in live_in or w in after_loop_reads]
    state = [w for w in pre_written if w in state] + [w for w in state if w not in pre_written]
    if [v for v in live_in if v not in state]:
        raise Untranslatable(f"loop body reads names it does not carry: {[v for v in live_in if v not in state]}")
    for v in state:
        if v not in pre_written:
            raise Untranslatable(f"loop variable {v} not initialised by the prologue")
    for v in after_loop_reads:
        if v not in state and v not in inputs:
            raise Untranslatable(f"epilogue reads unknown name {v}")
    # --- 4. emit
    st_node = ast.Tuple(elts=[ast.Name(id=v) for v in state])
    body_txt = block(lbody, st_node, "nat", {v: v for v in state})
    pre_txt = block(pre, st_node, "nat", {v: v for v in inputs})
    post_txt = block(post, ret.value, "nat", {v: v for v in inputs + state})
    pat_state = "[" + ", ".join(state) + "]"
    pat_in = "[" + ", ".join(inputs) + "]"
    out = []
    out.append(
        f"/-- body of `while {ctr} < {count}` in `salsa20` (without the counter): one Salsa20 double round on the\n"
        f"    loop-carried variables `{state[0]} … {state[-1]}`; {len(lbody)} statements. -/\n"
        f"def salsa20_loop_body (state : List Nat) : List Nat :=\n  match state with\n  | {pat_state} =>\n"
        + indent(body_txt, 4) + "\n  | _ => []\n"
    )
    nest = "st0"
    for _ in range(count):
        nest = f"(salsa20_loop_body {nest})"
    out.append(f"/-- number of iterations of the loop (`{ctr} = 0; while {ctr} < {count}: …; {ctr} += 1`) -/\n"
               f"def salsa20_loop_count : Nat := {count}\n")
    out.append(
        "/-- `_salsa.salsa20(input)`; the result tuple as a list.  (An `input` that does not have exactly\n"
        f"    {len(inputs)} items makes the Python unpack raise ValueError; here: `[]`.) -/\n"
        f"def salsa20 (input : List Nat) : List Nat :=\n  match input with\n  | {pat_in} =>\n"
        "    let st0 :=\n" + indent(pre_txt, 6) + "\n"
        f"    match {nest[1:-1]} with\n    | {pat_state} =>\n" + indent(post_txt, 6) + "\n    | _ => []\n  | _ => []\n"
    )
    return "\n".join(out)


def self_assigns(fn):
    """{attr: value-node} for `self.attr = value` / `self.attr = name = value` at the top level of fn"""
    res = {}
    for s in fn.body:
        if isinstance(s, ast.Assign):
            for tg in s.targets:
                if isinstance(tg, ast.Attribute) and isinstance(tg.value, ast.Name) and tg.value.id == "self":
                    res[tg.attr] = s.value
    return res


def itemgetter_back(node):
    """`operator.itemgetter(-k)` -> k"""
    if (isinstance(node, ast.Call) and ast.unparse(node.func) == "operator.itemgetter" and len(node.args) == 1
            and isinstance(node.args[0], ast.UnaryOp) and isinstance(node.args[0].op, ast.USub)
            and isinstance(node.args[0].operand, ast.Constant) and type(node.args[0].operand.value) is int):
        return node.args[0].operand.value
    raise Untranslatable(f"not operator.itemgetter(-k): {ast.unparse(node)}")


def translate_engine():
    tree = src_ast(BUILTIN)
    init = find_def(tree, "ScryptEngine.__init__")
    if [a.arg for a in init.args.args] != ["self", "n", "r", "p"]:
        raise Untranslatable("ScryptEngine.__init__ signature")
    sa = self_assigns(init)
    for k in ("n", "r", "p"):
        if ast.unparse(sa.get(k, ast.Constant(value=None))) != k:
            raise Untranslatable(f"self.{k} is not {k}")
    out = []
    out.append(f"/-- `self.smix_bytes = {ast.unparse(sa['smix_bytes'])}` -/\ndef smix_bytes (r : Nat) : Nat := {expr(sa['smix_bytes'], 'nat', {'r': 'r'})}\n")
    out.append(f"/-- `self.iv_bytes = {ast.unparse(sa['iv_bytes'])}` -/\ndef iv_bytes (r p : Nat) : Nat := "
               f"{expr(sa['iv_bytes'], 'nat', {'self.smix_bytes': '(smix_bytes r)', 'p': 'p'})}\n")
    out.append(f"/-- `self.bmix_len = bmix_len = {ast.unparse(sa['bmix_len'])}` -/\ndef bmix_len (r : Nat) : Nat := {expr(sa['bmix_len'], 'nat', {'r': 'r'})}\n")
    out.append(f"/-- `self.bmix_half_len = {ast.unparse(sa['bmix_half_len'])}` -/\ndef bmix_half_len (r : Nat) : Nat := {expr(sa['bmix_half_len'], 'nat', {'r': 'r'})}\n")
    # struct format
    if ast.unparse(sa["bmix_struct"]) != "struct.Struct('<' + str(bmix_len) + 'I')":
        raise Untranslatable(f"bmix_struct: {ast.unparse(sa['bmix_struct'])}")
    asserts = [ast.unparse(s.test) for s in init.body if isinstance(s, ast.Assert)]
    if "struct.calcsize('I') == 4" not in asserts:
        raise Untranslatable("missing assert struct.calcsize('I') == 4")
    out.append("/-- `struct.Struct(\"<\" + str(bmix_len) + \"I\")`: `bmix_len` unsigned little-endian items of\n"
               "    `struct.calcsize(\"I\") == 4` bytes (asserted in `__init__`) -/\n"
               "def struct_item_bytes : Nat := 4\ndef struct_little_endian : Bool := true\n"
               "def struct_items (r : Nat) : Nat := bmix_len r\n")
    ifs = [s for s in init.body if isinstance(s, ast.If)]
    if len(ifs) != 2:
        raise Untranslatable("__init__: expected two if statements")
    fast, integ = ifs
    # fast path
    if not (isinstance(fast.test, ast.Compare) and ast.unparse(fast.test.left) == "r" and isinstance(fast.test.ops[0], ast.Eq)
            and len(fast.body) == 1 and ast.unparse(fast.body[0]) == "self.bmix = self._bmix_1" and not fast.orelse):
        raise Untranslatable("fast path selection")
    out.append(f"/-- `if {ast.unparse(fast.test)}: self.bmix = self._bmix_1` -/\n"
               f"def bmix_fast_path (r : Nat) : Bool := {expr(fast.test, 'nat', {'r': 'r'})}\n")
    # integerify
    if not (isinstance(integ.test, ast.Compare) and ast.unparse(integ.test.left) == "n" and isinstance(integ.test.ops[0], ast.LtE)
            and len(integ.body) == 1 and isinstance(integ.body[0], ast.Assign) and ast.unparse(integ.body[0].targets[0]) == "integerify"):
        raise Untranslatable("integerify selection")
    small_back = itemgetter_back(integ.body[0].value)
    out.append(f"/-- `if {ast.unparse(integ.test)}: integerify = {ast.unparse(integ.body[0].value)}` -/\n"
               f"def integerify_small (n : Nat) : Bool := {expr(integ.test, 'nat', {'n': 'n'})}\n"
               f"/-- `itemgetter(-{small_back})` -/\ndef integerify_small_back : Nat := {small_back}\n")
    els = integ.orelse
    if not (len(els) == 4 and isinstance(els[0], ast.Assert) and isinstance(els[1], ast.Assign) and isinstance(els[2], ast.Assign)
            and isinstance(els[3], ast.FunctionDef) and els[3].name == "integerify" and [a.arg for a in els[3].args.args] == ["X"]
            and len(els[3].body) == 1 and isinstance(els[3].body[0], ast.Return)):
        raise Untranslatable("integerify else-branch shape")
    g1, g2 = ast.unparse(els[1].targets[0]), ast.unparse(els[2].targets[0])
    b1, b2 = itemgetter_back(els[1].value), itemgetter_back(els[2].value)
    out.append(f"/-- `else: assert {ast.unparse(els[0].test)}` -/\n"
               f"def integerify_large_ok (n : Nat) : Bool := {expr(els[0].test, 'nat', {'n': 'n'})}\n"
               f"/-- `{g1} = itemgetter(-{b1})`, `{g2} = itemgetter(-{b2})` -/\n"
               f"def integerify_large_back1 : Nat := {b1}\ndef integerify_large_back2 : Nat := {b2}\n"
               f"/-- `def integerify(X): return {ast.unparse(els[3].body[0].value)}` -/\n"
               f"def integerify_large ({g1} {g2} : List Nat → Nat) (X : List Nat) : Nat :=\n  "
               f"{expr(els[3].body[0].value, 'nat', {g1: g1, g2: g2, 'X': 'X'})}\n")
    # smix: the index computation
    smix = find_def(tree, "ScryptEngine.smix")
    flat = [ast.unparse(s) for s in ast.walk(smix) if isinstance(s, ast.Assign)]
    for need in ("n_mask = n - 1", "j = integerify(buffer) & n_mask", "n = self.n", "integerify = self.integerify"):
        if need not in flat:
            raise Untranslatable(f"smix: missing `{need}`")
    out.append("/-- `n_mask = n - 1`; `j = integerify(buffer) & n_mask` -/\n"
               "def smix_index (n i : Nat) : Nat := i &&& (n - 1)\n")
    # pins
    pins = []
    for name in ("run", "smix", "bmix", "_bmix_1"):
        f = find_def(tree, "ScryptEngine." + name)
        txt = ast.unparse(ast.Module(body=strip_doc(f.body), type_ignores=[]))
        h = hashlib.sha256(txt.encode()).hexdigest()
        pins.append((name, h))
        if os.environ.get("SCRYPT_PRINT_PINS"):
            print(f'    "{name}": "{h}",', file=sys.stderr)
            continue
        if PINNED.get(name) != h:
            raise Untranslatable(f"ScryptEngine.{name} changed (sha256 {h}); Model/Scrypt.lean must be re-audited")
    out.append("/-- sha256 of the normalised source of the hand-modelled methods (checked by the extractor) -/\n"
               "def pinned_sources : List (String × String) :=\n  [" + ",\n   ".join(f'("{n}", "{h}")' for n, h in pins) + "]\n")
    return "\n".join(out)


def translate_validate():
    import passlib.crypto.scrypt as mod

    tree = src_ast(FRONT)
    out = []
    # constants: value from the running module, shape from the AST
    consts = {}
    for s in tree.body:
        if isinstance(s, ast.Assign) and len(s.targets) == 1 and isinstance(s.targets[0], ast.Name) and s.targets[0].id in ("MAX_RP", "MAX_KEYLEN"):
            consts[s.targets[0].id] = s.value
    for nm in ("MAX_KEYLEN", "MAX_RP"):
        if nm not in consts:
            raise Untranslatable(f"{nm} not found")
        val = getattr(mod, nm)
        if not (isinstance(val, int) and val >= 0):
            raise Untranslatable(f"{nm} value")
        out.append(f"/-- `{nm} = {ast.unparse(consts[nm])}` -/\ndef {nm} : Nat := {val}\n")
    fn = find_def(tree, "validate")
    if [a.arg for a in fn.args.args] != ["n", "r", "p"]:
        raise Untranslatable("validate signature")
    body = strip_doc(fn.body)
    if ast.unparse(body[-1]) != "return True":
        raise Untranslatable("validate does not end with `return True`")
    env = {"n": "n", "r": "r", "p": "p", "MAX_RP": "(MAX_RP : Int)"}

    def cond(t):
        if isinstance(t, ast.BoolOp) and isinstance(t.op, ast.Or):
            return "(" + " || ".join(cond(v) for v in t.values) + ")"
        if isinstance(t, ast.Compare):
            return expr(t, "int", env)
        if ast.unparse(t) == "n & n - 1":
            # truthiness of `n & (n - 1)`; only evaluated after `n < 2` was false (short-circuit `or`),
            # so n is a natural number >= 2 here
            return "(decide ((n.toNat &&& (n.toNat - 1)) ≠ 0))"
        raise Untranslatable(f"validate condition {ast.unparse(t)}")

    conds, docs = [], []
    for s in body[:-1]:
        if not (isinstance(s, ast.If) and not s.orelse and len(s.body) == 1 and isinstance(s.body[0], ast.Raise)
                and isinstance(s.body[0].exc, ast.Call) and ast.unparse(s.body[0].exc.func) == "ValueError"):
            raise Untranslatable(f"validate statement {ast.unparse(s)[:50]}")
        if isinstance(s.test, ast.BoolOp):
            first = s.test.values[0]
            if ast.unparse(first) != "n < 2" and any(ast.unparse(v) == "n & n - 1" for v in s.test.values):
                raise Untranslatable("`n & (n-1)` not guarded by `n < 2`")
        conds.append(cond(s.test))
        docs.append(ast.unparse(s.test))
    out.append("/-- the conditions of `validate(n, r, p)` under which ValueError is raised, in source order:\n    "
               + "; ".join(f"`{d}`" for d in docs) + " -/\n"
               "def validate_raises (n r p : Int) : List Bool :=\n  [" + ",\n   ".join(conds) + "]\n")
    return "\n".join(out)


@unit("Scrypt")
def unit_scrypt():
    parts = [HEADER.format(src=f"{SALSA}, {BUILTIN}, {FRONT}"), "namespace Gen.Scrypt\n"]
    parts.append("/-! ### `_salsa.salsa20` -/\n")
    parts.append(translate_salsa())
    parts.append("/-! ### `ScryptEngine.__init__` -/\n")
    parts.append(translate_engine())
    parts.append("/-! ### `validate` and limits -/\n")
    parts.append(translate_validate())
    parts.append("end Gen.Scrypt\n")
    return "\n".join(parts)


if __name__ == "__main__":
    dest = sys.argv[1] if len(sys.argv) > 1 else os.path.join(os.path.dirname(os.path.abspath(__file__)), "lean", "PasslibVerif", "Gen", "Scrypt.lean")
    try:
        text = unit_scrypt()
    except Untranslatable as err:
        text = f"-- EXTRACTION FAILED for unit Scrypt: {err}\n"
        print(text, file=sys.stderr)
        open(dest, "w", encoding="utf-8").write(text)
        sys.exit(1)
    open(dest, "w", encoding="utf-8").write(text)
    print("wrote", dest)
