"""unit ShaCrypt: the optimised round loops of md5-crypt / sha256-crypt / sha512-crypt.

Extracted from the *source text* (ast) of
    passlib/handlers/sha2_crypt.py::_raw_sha2_crypt
    passlib/handlers/md5_crypt.py::_raw_md5_crypt
    libpass/hashers/sha_crypt.py::_sha_crypt
  * `_c_digest_offsets`                       -> offsets tables
  * `perms = [...]`                           -> the six concatenations as symbolic lists over {P, S}
  * `divmod(rounds, 42)`, `blocks = 23`, `data[:17]`, `< 96`, `16 + da[0]`  -> the numeric constants
  * the statement list of each function (docstring, comments, asserts and the str->bytes prologue removed,
    local names canonicalised) must equal the statement list the hand-written Lean model
    (Model/ShaCrypt.lean) was written against; any other shape is a translation failure.
"""
import ast

from extract_core import HEADER, Untranslatable, find_def, lean_nat_list, src_ast, strip_doc, unit


def _module_tuple(tree, name):
    for n in tree.body:
        if isinstance(n, ast.Assign) and len(n.targets) == 1 and isinstance(n.targets[0], ast.Name) and n.targets[0].id == name:
            return ast.literal_eval(n.value)
    raise Untranslatable(f"module constant {name} not found")


def _sym(node, env):
    """bytes expression built from + over names -> list of 'p'/'s' symbols"""
    if isinstance(node, ast.Name):
        if node.id in env:
            return env[node.id]
        raise Untranslatable(f"perms: unknown name {node.id}")
    if isinstance(node, ast.BinOp) and isinstance(node.op, ast.Add):
        return _sym(node.left, env) + _sym(node.right, env)
    raise Untranslatable("perms: " + ast.unparse(node))


class _Rename(ast.NodeTransformer):
    def __init__(self, mp):
        self.mp = mp

    def visit_Name(self, n):
        return ast.copy_location(ast.Name(id=self.mp.get(n.id, n.id), ctx=n.ctx), n)

    def visit_arg(self, n):
        n.arg = self.mp.get(n.arg, n.arg)
        n.annotation = None
        return n


def _canon(fn, rename, drop_prefix=()):
    """canonical statement list of a function: no docstring, no asserts, names renamed"""
    fn = _Rename(rename).visit(ast.parse(ast.unparse(fn)).body[0])
    out = []
    for s in strip_doc(fn.body):
        if isinstance(s, ast.Assert):
            continue
        txt = ast.unparse(s)
        if any(txt.startswith(p) for p in drop_prefix):
            continue
        out.append(txt)
    return out


def _strip_asserts(txt):
    return "\n".join(l for l in txt.split("\n") if not l.strip().startswith("assert "))


SHA2_SHAPE = [
    "pwd_len = len(pwd)",
    "db = H(pwd + salt + pwd).digest()",
    "a_ctx = H(pwd + salt)",
    "a_ctx.update(repeat_string(db, pwd_len))",
    "i = pwd_len",
    "while i:\n    a_ctx.update(db if i & 1 else pwd)\n    i >>= 1",
    "da = a_ctx.digest()",
    "if pwd_len < 96:\n    dp = repeat_string(H(pwd * pwd_len).digest(), pwd_len)\nelse:\n    tmp_ctx = H(pwd)\n    i = pwd_len - 1\n"
    "    while i:\n        tmp_ctx.update(pwd)\n        i -= 1\n    dp = repeat_string(tmp_ctx.digest(), pwd_len)",
    "ds = H(salt * (16 + da[0])).digest()[:salt_len]",
    "perms = PERMS",
    "data = [(perms[even], perms[odd]) for even, odd in _c_digest_offsets]",
    "dc = da",
    "blocks, tail = divmod(rounds, 42)",
    "while blocks:\n    for even, odd in data:\n        dc = H(odd + H(dc + even).digest()).digest()\n    blocks -= 1",
    "if tail:\n    pairs = tail >> 1\n    for even, odd in data[:pairs]:\n        dc = H(odd + H(dc + even).digest()).digest()\n"
    "    if tail & 1:\n        dc = H(dc + data[pairs][0]).digest()",
    "return ENGINE.encode_transposed_bytes(dc, transpose_map).decode('ascii')",
]

MD5_SHAPE = [
    "pwd_len = len(pwd)",
    "magic = MAGIC",
    "db = md5(pwd + salt + pwd).digest()",
    "a_ctx = md5(pwd + magic + salt)",
    "a_ctx.update(repeat_string(db, pwd_len))",
    "i = pwd_len",
    "evenchar = pwd[:1]",
    "while i:\n    a_ctx.update(_BNULL if i & 1 else evenchar)\n    i >>= 1",
    "da = a_ctx.digest()",
    "perms = PERMS",
    "data = [(perms[even], perms[odd]) for even, odd in _c_digest_offsets]",
    "dc = da",
    "blocks = 23",
    "while blocks:\n    for even, odd in data:\n        dc = md5(odd + md5(dc + even).digest()).digest()\n    blocks -= 1",
    "for even, odd in data[:17]:\n    dc = md5(odd + md5(dc + even).digest()).digest()",
    "return h64.encode_transposed_bytes(dc, _transpose_map).decode('ascii')",
]


def _normalise(fn, rename, update_alias, perms_env, ignore):
    """returns (canonical statement list with the perms expression abstracted, symbolic perms)"""
    stmts = []
    perms = None
    env = dict(perms_env)
    fn = _Rename(rename).visit(ast.parse(ast.unparse(fn)).body[0])
    for s in strip_doc(fn.body):
        if isinstance(s, ast.Assert):
            continue
        txt = _strip_asserts(ast.unparse(s))
        if any(txt.startswith(p) for p in ignore):
            continue
        # `x_update = x.update` aliases: drop the alias statement, write calls through the object
        for alias, obj in update_alias.items():
            txt = txt.replace(f"    {alias} = {obj}.update\n", "")
            txt = txt.replace(f"{alias}(", f"{obj}.update(")
        if any(txt == f"{alias} = {obj}.update" for alias, obj in update_alias.items()):
            continue
        # helper concatenations feeding perms (dp_dp = dp + dp, ...)
        if isinstance(s, ast.Assign) and isinstance(s.targets[0], ast.Name) and isinstance(s.value, ast.BinOp) and isinstance(s.value.op, ast.Add):
            try:
                env[s.targets[0].id] = _sym(s.value, env)
                if s.targets[0].id not in ("dc",):
                    continue
            except Untranslatable:
                pass
        if isinstance(s, ast.Assign) and isinstance(s.targets[0], ast.Name) and s.targets[0].id == "perms":
            if not isinstance(s.value, ast.List):
                raise Untranslatable("perms is not a list display")
            perms = [_sym(e, env) for e in s.value.elts]
            txt = "perms = PERMS"
        stmts.append(txt)
    if perms is None:
        raise Untranslatable("no perms assignment")
    return stmts, perms


def _lean_perms(perms):
    return "[" + ", ".join("[" + ", ".join("." + c for c in p) + "]" for p in perms) + "]"


def _lean_pairs(pairs):
    return "[" + ", ".join(f"({a}, {b})" for a, b in pairs) + "]"


def _check(name, got, want):
    if got != want:
        for i, (g, w) in enumerate(zip(got, want)):
            if g != w:
                raise Untranslatable(f"{name}: statement {i} is\n{g}\nbut the model was written against\n{w}")
        raise Untranslatable(f"{name}: {len(got)} statements, the model was written against {len(want)}")


@unit("ShaCrypt")
def unit_shacrypt():
    out = [HEADER.format(src="passlib/handlers/sha2_crypt.py, passlib/handlers/md5_crypt.py, libpass/hashers/sha_crypt.py"),
           "namespace Gen.ShaCrypt\n",
           "/-- symbolic pieces of the round constants: P = password (digest) sequence, S = salt (digest) sequence -/",
           "inductive PS | p | s deriving DecidableEq, Repr\n"]
    # ---- passlib sha2_crypt
    t = src_ast("passlib/handlers/sha2_crypt.py")
    fn = find_def(t, "_raw_sha2_crypt")
    stmts, perms = _normalise(
        fn, {"hash_const": "H"}, {"a_ctx_update": "a_ctx", "tmp_ctx_update": "tmp_ctx"}, {"dp": ["p"], "ds": ["s"]},
        ignore=("if isinstance(pwd, str)", "if _BNULL in pwd", "salt = salt.encode", "salt_len = len(salt)", "if use_512:"))
    stmts = [s.replace("h64.encode_transposed_bytes", "ENGINE.encode_transposed_bytes") for s in stmts]
    _check("_raw_sha2_crypt", stmts, SHA2_SHAPE)
    # the backend selection block that was skipped above
    sel = [ast.unparse(s) for s in fn.body if isinstance(s, ast.If) and ast.unparse(s.test) == "use_512"]
    if sel != ["if use_512:\n    hash_const = hashlib.sha512\n    transpose_map = _512_transpose_map\nelse:\n    hash_const = hashlib.sha256\n    transpose_map = _256_transpose_map"]:
        raise Untranslatable("_raw_sha2_crypt: digest/transposition selection changed: " + repr(sel))
    out.append(f"def sha2Offsets : List (Nat × Nat) := {_lean_pairs(_module_tuple(t, '_c_digest_offsets'))}")
    out.append(f"def sha2Perms : List (List PS) := {_lean_perms(perms)}\n")
    # ---- libpass sha_crypt
    t = src_ast("libpass/hashers/sha_crypt.py")
    fn = find_def(t, "_sha_crypt")
    stmts, perms = _normalise(
        fn, {"hash_method": "H", "secret": "pwd", "secret_len": "pwd_len", "initial": "db", "sha": "a_ctx"}, {}, {"dp": ["p"], "ds": ["s"]}, ignore=())
    stmts = [s.replace("h64_engine.encode_transposed_bytes", "ENGINE.encode_transposed_bytes").replace("[:len(salt)]", "[:salt_len]") for s in stmts]
    _check("libpass _sha_crypt", stmts, SHA2_SHAPE)
    out.append(f"def lpOffsets : List (Nat × Nat) := {_lean_pairs(_module_tuple(t, '_c_digest_offsets'))}")
    out.append(f"def lpPerms : List (List PS) := {_lean_perms(perms)}\n")
    # which digest / table each libpass hasher passes (reflection)
    import hashlib

    import libpass.hashers.sha_crypt as lsc

    if lsc.SHA256Hasher._sha_func is not hashlib.sha256 or lsc.SHA256Hasher._transpose_map is not lsc._256_transpose_map:
        raise Untranslatable("libpass SHA256Hasher no longer passes hashlib.sha256 / _256_transpose_map")
    if lsc.SHA512Hasher._sha_func is not hashlib.sha512 or lsc.SHA512Hasher._transpose_map is not lsc._512_transpose_map:
        raise Untranslatable("libpass SHA512Hasher no longer passes hashlib.sha512 / _512_transpose_map")
    out.append(f"def lpDefaultRounds : Nat := {int(lsc._ShaHasher._DEFAULT_ROUNDS)}\n")
    # ---- md5_crypt
    t = src_ast("passlib/handlers/md5_crypt.py")
    fn = find_def(t, "_raw_md5_crypt")
    stmts, perms = _normalise(
        fn, {}, {"a_ctx_update": "a_ctx"}, {"pwd": ["p"], "salt": ["s"]},
        ignore=("if isinstance(pwd, str)", "if _BNULL in pwd", "salt = salt.encode"))
    stmts = ["magic = MAGIC" if s == "if use_apr:\n    magic = _APR_MAGIC\nelse:\n    magic = _MD5_MAGIC" else s for s in stmts]
    _check("_raw_md5_crypt", stmts, MD5_SHAPE)
    out.append(f"def md5Offsets : List (Nat × Nat) := {_lean_pairs(_module_tuple(t, '_c_digest_offsets'))}")
    out.append(f"def md5Perms : List (List PS) := {_lean_perms(perms)}\n")
    import passlib.handlers.md5_crypt as m5

    out.append(f"def md5Magic : List Nat := {lean_nat_list(list(m5._MD5_MAGIC))}")
    out.append(f"def aprMagic : List Nat := {lean_nat_list(list(m5._APR_MAGIC))}\n")
    out.append("end Gen.ShaCrypt")
    return "\n".join(out) + "\n"
