"""unit MiscTables: data the scram alg-name normalisation model needs (passlib/crypto/digest.py + the running interpreter)."""
from extract_core import HEADER, lean_nat_list, ords, unit


@unit("MiscTables")
def unit_misctables():
    import hashlib
    import logging
    import sys
    import warnings

    import passlib.crypto.digest as pd

    out = [HEADER.format(src=f"passlib/crypto/digest.py, CPython {sys.version.split()[0]} str.lower / hashlib (reflected)"),
           "namespace Gen.MiscTables\n"]
    # ---- _known_hash_names rows
    rows = ", ".join("[" + ", ".join(lean_nat_list(ords(n)) for n in row) + "]" for row in pd._known_hash_names)
    out.append(f"/-- passlib.crypto.digest._known_hash_names: (hashlib name, iana name, aliases…) -/\ndef knownHashNames : List (List (List Nat)) :=\n  [{rows}]\n")
    # ---- str.lower() on single code points
    single, multi = [], []
    for cp in range(0x110000):
        if 0xD800 <= cp <= 0xDFFF:
            continue
        lo = chr(cp).lower()
        if lo != chr(cp):
            if len(lo) == 1:
                single.append((cp, ord(lo)))
            else:
                multi.append((cp, ords(lo)))
    out.append(f"/-- code points changed by `str.lower()` (one-to-one part) -/\ndef lowerFrom : List Nat :=\n  {lean_nat_list([a for a, _ in single])}\n")
    out.append(f"def lowerTo : List Nat :=\n  {lean_nat_list([b for _, b in single])}\n")
    out.append("/-- code points whose lower case is more than one code point -/\ndef lowerMulti : List (Nat × List Nat) :=\n  ["
               + ", ".join(f"({a}, {lean_nat_list(b)})" for a, b in multi) + "]\n")
    # ---- characters matched by (?i)[a-z] in a str pattern
    import re

    ci = [cp for cp in range(0x110000) if not (0xD800 <= cp <= 0xDFFF) and re.match(r"(?i)[a-z]", chr(cp))]
    out.append(f"/-- code points matched by `(?i)[a-z]` -/\ndef ciLetters : List Nat :=\n  {lean_nat_list(ci)}\n")
    # ---- hashlib-format names (fixed points of the alias normalisation) for which lookup_hash(required=False) raises
    logging.disable(logging.CRITICAL)
    try:
        cands = set(dir(hashlib)) | set(hashlib.algorithms_available) | set(hashlib.algorithms_guaranteed)
        cands |= {c.replace("_", "") for c in cands} | {c.replace("-", "_") for c in cands}
        raises = {}
        with warnings.catch_warnings():
            warnings.simplefilter("ignore")
            for c in sorted(cands):
                if not c or c.startswith("_"):
                    continue
                h = c
                for _ in range(8):
                    n = pd._get_hash_aliases(h)[0]
                    if n == h or not n:
                        break
                    h = n
                if not h or pd._get_hash_aliases(h)[0] != h:
                    continue
                pd.lookup_hash.clear_cache()
                try:
                    pd.lookup_hash(h, required=False)
                except Exception as e:  # noqa: BLE001
                    raises[h] = type(e).__name__
        pd.lookup_hash.clear_cache()
    finally:
        logging.disable(logging.NOTSET)
    kinds = {"TypeError": ".typeError", "ValueError": ".valueError", "RuntimeError": ".runtimeError", "AttributeError": ".attributeError",
             "AssertionError": ".assertionError", "KeyError": ".keyError"}
    out.append("/-- fixed-point hashlib names for which `lookup_hash(name, required=False)` raises, with the exception kind -/\n"
               "def lookupRaises : List (List Nat × Py.ErrKind) :=\n  ["
               + ", ".join(f"({lean_nat_list(ords(h))}, {kinds[k]})" for h, k in sorted(raises.items())) + "]\n")
    out.append("end Gen.MiscTables\n")
    return "import PasslibVerif.Py.Basic\n" + "\n".join(out)
