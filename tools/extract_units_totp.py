"""unit Totp: arithmetic of TOTP._generate / match / _find_match / TotpMatch (passlib/totp.py)."""
import ast

from extract_core import HEADER, Untranslatable, expr, find_def, lean_nat_list, lean_str, ords, src_ast, strip_doc, unit


def ret_expr(fn):
    body = strip_doc(fn.body)
    if len(body) != 1 or not isinstance(body[0], ast.Return):
        raise Untranslatable(f"{fn.name}: not a single return")
    return body[0].value


def assign_of(fn, name):
    hits = [s for s in ast.walk(fn) if isinstance(s, ast.Assign) and len(s.targets) == 1 and ast.unparse(s.targets[0]) == name]
    if not hits:
        raise Untranslatable(f"{fn.name}: no assignment to {name}")
    return hits


@unit("Totp")
def unit_totp():
    import re

    import passlib.totp as pt
    from passlib.crypto import digest as pd

    tree = src_ast("passlib/totp.py")
    out = [HEADER.format(src="passlib/totp.py, passlib/crypto/digest.py"), "namespace Gen.Totp\n"]
    # ---- _generate: dynamic truncation
    g = find_def(tree, "TOTP._generate")
    off = assign_of(g, "offset")[0].value
    out.append(f"/-- `offset = digest[-1] & 0xF` as a function of the last digest byte -/\ndef dtOffset (lastByte : Nat) : Nat := {expr(off, 'nat', {'digest[-1]': 'lastByte'}) if False else expr(ast.BinOp(left=ast.Name(id='lastByte'), op=off.op, right=off.right), 'nat', {'lastByte': 'lastByte'})}\n")
    if ast.unparse(off.left) != "digest[-1]":
        raise Untranslatable("offset is not taken from digest[-1]")
    val = assign_of(g, "value")[0].value
    # value = _unpack_uint32(digest[offset:offset + 4])[0] & MASK
    if not (isinstance(val, ast.BinOp) and isinstance(val.op, ast.BitAnd)):
        raise Untranslatable("value shape")
    sl = val.left
    if ast.unparse(sl) != "_unpack_uint32(digest[offset:offset + 4])[0]":
        raise Untranslatable(f"value slice shape: {ast.unparse(sl)}")
    out.append(f"def dtSliceLen : Nat := 4\ndef dtMask (word : Nat) : Nat := (word &&& {expr(val.right)})\n")
    if pt._unpack_uint32.__self__.format != ">I" or pt._pack_uint64.__self__.format != ">Q":
        raise Untranslatable("struct formats changed")
    out.append('def unpackFormat : String := ">I"\ndef packFormat : String := ">Q"\n')
    ret = [s for s in strip_doc(g.body) if isinstance(s, ast.Return)][0]
    if ast.unparse(ret.value) != "('%0*d' % (digits, value))[-digits:]":
        raise Untranslatable(f"render shape: {ast.unparse(ret.value)}")
    out.append("/-- `('%0*d' % (digits, value))[-digits:]` (shape checked by the translator) -/\ndef renderShape : String := \"pad-then-last-digits\"\n")
    # ---- counters
    env_p = {"self.period": "period", "time": "time", "counter": "counter"}
    out.append(f"def timeToCounter (time period : Int) : Int := {expr(ret_expr(find_def(tree, 'TOTP._time_to_counter')), 'int', env_p)}\n")
    out.append(f"def counterToTime (counter period : Int) : Int := {expr(ret_expr(find_def(tree, 'TOTP._counter_to_time')), 'int', env_p)}\n")
    # ---- match
    m = find_def(tree, "TOTP.match")
    env = {"time": "time", "skew": "skew", "window": "window", "last_counter": "last", "client_time": "clientTime",
           "self._time_to_counter": "(fun t => timeToCounter t period)", "self.period": "period"}
    ct = assign_of(m, "client_time")[0].value
    st = assign_of(m, "start")[0].value
    en = assign_of(m, "end")[0].value
    out.append(f"def matchClientTime (time skew : Int) : Int := {expr(ct, 'int', env)}\n")
    out.append("def matchStart (period last clientTime window : Int) : Int :=\n  " + expr(st, "int", env) + "\n")
    out.append("def matchEnd (period clientTime window : Int) : Int :=\n  " + expr(en, "int", env) + "\n")
    lc = [s for s in strip_doc(m.body) if isinstance(s, ast.If) and ast.unparse(s.test) == "last_counter is None"]
    if not lc or ast.unparse(lc[0].body[0]) != "last_counter = -1":
        raise Untranslatable("last_counter default")
    out.append("def lastCounterDefault : Int := -1\n")
    used = [s for s in ast.walk(m) if isinstance(s, ast.Raise) and "UsedTokenError" in ast.unparse(s)]
    if len(used) != 1:
        raise Untranslatable("UsedTokenError raise")
    ucond = [s for s in strip_doc(m.body) if isinstance(s, ast.If) and used[0] in s.body]
    if not ucond or ast.unparse(ucond[0].test) != "counter == last_counter":
        raise Untranslatable("used-token condition")
    out.append(f"def usedExpireTime (last period : Int) : Int := {expr(used[0].exc.keywords[0].value, 'int', env)}\n")
    order = [ast.unparse(s).split('\n')[0][:60] for s in strip_doc(m.body)]
    # ---- _find_match
    f = find_def(tree, "TOTP._find_match")
    fs = [s for s in strip_doc(f.body)]
    clamp = [s for s in fs if isinstance(s, ast.Assign) and ast.unparse(s.targets[0]) == "start"]
    if len(clamp) != 1:
        raise Untranslatable("_find_match clamp")
    out.append(f"def findStart (start : Int) : Int := {expr(clamp[0].value, 'int', {'start': 'start'})}\n")
    emp = [s for s in fs if isinstance(s, ast.If) and ast.unparse(s.test) == "end <= start"]
    if len(emp) != 1 or "InvalidTokenError" not in ast.unparse(emp[0].body[0]):
        raise Untranslatable("_find_match empty range")
    loop = [s for s in fs if isinstance(s, ast.While)]
    if len(loop) != 1 or ast.unparse(loop[0].test) != "counter < end" or ast.unparse(loop[0].body[-1]) != "counter += 1":
        raise Untranslatable("_find_match loop")
    if ast.unparse(fs[0]) != "token = self.normalize_token(token)":
        raise Untranslatable("_find_match must normalise the token first")
    out.append('def findLoop : String := "counter=start; while counter < end: if eq(token, gen counter) return counter; counter += 1; raise Invalid"\n')
    # ---- TotpMatch / TotpToken
    envm = {"self.totp._time_to_counter": "(fun t => timeToCounter t period)", "self.totp._counter_to_time": "(fun c => counterToTime c period)",
            "self.time": "time", "self.counter": "counter",
            "self.expected_counter": "expected", "self.totp.period": "period", "self.window": "window", "self.expire_time": "expire"}

    def prop(cls, name):
        return expr(ret_expr(find_def(tree, f"{cls}.{name}")), "int", envm)

    out.append("def matchExpectedCounter (time period : Int) : Int := " + prop("TotpMatch", "expected_counter") + "\n")
    out.append("def matchSkipped (counter expected : Int) : Int := " + prop("TotpMatch", "skipped") + "\n")
    out.append("def matchExpireTime (counter period : Int) : Int := " + prop("TotpMatch", "expire_time") + "\n")
    out.append("def matchCacheSeconds (period window : Int) : Int := " + prop("TotpMatch", "cache_seconds") + "\n")
    out.append("def matchCacheTime (expire window : Int) : Int := " + prop("TotpMatch", "cache_time") + "\n")
    out.append("def tokenStartTime (counter period : Int) : Int := " + prop("TotpToken", "start_time") + "\n")
    out.append("def tokenExpireTime (counter period : Int) : Int := " + prop("TotpToken", "expire_time") + "\n")
    # ---- token cleaning: characters removed by _clean_re (enumerated over all code points)
    removed = [cp for cp in range(0x110000) if not (0xD800 <= cp <= 0xDFFF) and pt._clean_re.sub("", chr(cp)) == ""]
    out.append(f"def cleanRemoved : List Nat :=\n  {lean_nat_list(removed)}\n")
    out.append(f"def cleanPattern : String := {lean_str(pt._clean_re.pattern)}\n")
    # ---- HMAC translation tables
    out.append(f"def TRANS_36 : List Nat :=\n  {lean_nat_list(ords(pd._TRANS_36))}\n")
    out.append(f"def TRANS_5C : List Nat :=\n  {lean_nat_list(ords(pd._TRANS_5C))}\n")
    out.append("end Gen.Totp\n")
    return "\n".join(out)


@unit("PyUnicode")
def unit_pyunicode():
    """tables of the running interpreter's str predicates used by the models"""
    import sys

    def cps(pred):
        return [cp for cp in range(0x110000) if not (0xD800 <= cp <= 0xDFFF) and pred(chr(cp))]

    out = [HEADER.format(src=f"CPython {sys.version.split()[0]} unicodedata (reflected)"), "namespace Gen.PyUnicode\n"]
    out.append(f"/-- code points with `str.isdigit()` -/\ndef isdigit : List Nat :=\n  {lean_nat_list(cps(str.isdigit))}\n")
    out.append(f"/-- code points with `str.isspace()` -/\ndef isspace : List Nat :=\n  {lean_nat_list(cps(str.isspace))}\n")
    dec = [(cp, int(chr(cp))) for cp in cps(str.isdecimal)]
    out.append(f"/-- code points with `str.isdecimal()` and their digit values (accepted by `int()`) -/\ndef decimalCps : List Nat :=\n  {lean_nat_list([c for c, _ in dec])}\n")
    out.append(f"def decimalVals : List Nat :=\n  {lean_nat_list([v for _, v in dec])}\n")
    def int_strips(cp):
        try:
            return int(chr(cp) + "7" + chr(cp)) == 7
        except ValueError:
            return False

    out.append(f"/-- code points that `int()` strips as surrounding whitespace -/\ndef intSpace : List Nat :=\n  {lean_nat_list([cp for cp in range(0x110000) if not (0xD800 <= cp <= 0xDFFF) and int_strips(cp)])}\n")
    out.append("end Gen.PyUnicode\n")
    return "\n".join(out)
