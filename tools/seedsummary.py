#!/usr/bin/env python3
"""write seeded/SUMMARY.md from seeded/*/seed*/{meta.json,result.json}"""
import glob
import json
import os

VERIF = os.path.dirname(os.path.dirname(os.path.abspath(__file__)))
rows = []
for d in sorted(glob.glob(os.path.join(VERIF, "seeded", "C*", "seed*"))):
    prop, seed = d.split(os.sep)[-2:]
    meta, res = {}, {}
    try:
        meta = json.load(open(os.path.join(d, "meta.json")))
    except Exception:  # noqa: BLE001
        pass
    try:
        res = json.load(open(os.path.join(d, "result.json")))
    except Exception:  # noqa: BLE001
        pass
    files = ", ".join(os.path.basename(f) for f in meta.get("files", []))[:60]
    summ = " ".join(str(meta.get("summary", "")).split())[:170]
    checks = []
    for c, v in sorted(res.get("checks", {}).items()):
        if v.get("exit") == 1:
            checks.append(f"{c}: caught" + (" (concrete input)" if v.get("concrete_input") else " (no-failing-input-found)"))
        elif v.get("exit") == 0:
            checks.append(f"{c}: MISSED")
        else:
            checks.append(f"{c}: tool failure")
    demo = f"{res.get('demo_clean_exit', '?')}/{res.get('demo_seeded_exit', '?')}"
    rows.append((prop, seed, files, summ, demo, "; ".join(checks)))
with open(os.path.join(VERIF, "seeded", "SUMMARY.md"), "w") as fh:
    fh.write("# Seeded changes and what caught them\n\n"
             "Each seed was produced by a fresh sub-agent that saw only the property text and a private worktree of /repo, passes the pinned suite, and was\n"
             "confirmed here (demo exit code on the clean tree / with the patch).  Result = final state of the checks after strengthening (see DESIGN.md §10.7).\n\n"
             "| property | seed | file(s) | change | demo clean/seeded | checks |\n|---|---|---|---|---|---|\n")
    for r in rows:
        fh.write("| " + " | ".join(x.replace("|", "/") for x in r) + " |\n")
uncaught = [r for r in rows if "caught" not in r[5]]
no_input = [r for r in rows if "caught" in r[5] and "concrete input" not in r[5]]
print(len(rows), "seeds;", len(uncaught), "caught by no check;", len(no_input), "caught without a concrete input;",
      sum("MISSED" in r[5] for r in rows), "with at least one listed check silent (another one caught them)")
for r in uncaught + no_input:
    print("  ", r[0], r[1], r[5])
