"""Statement-level translator for small DECISION functions (clamp / refuse logic): Python ast -> a Lean term of type `Res Int`.

Subset (strict: anything else raises Untranslatable):
  return <int expr> · raise <ValueError|TypeError|…>(…) · <int var> = <int expr> · msg = <anything>   (message text: dropped)
  warn(…)  (dropped) · if <test>: … [else: …]  (fall-through continues with the rest of the block: the rest is duplicated into both arms)
  `if not isinstance(…): raise …`  is a type guard: recorded, not translated (the model's arguments are typed)
tests:  comparisons of int expressions · a Bool variable · `<opt> and <cmp>` where <opt> is an Optional[int] variable (Python truthiness:
        None and 0 are false) · `<int> == <opt>` / `<opt> == <int>`
Variables have declared kinds: "int" (Lean Int), "opt" (Option Int), "bool" (Bool).
"""
from __future__ import annotations

import ast

from pyexpr2lean import Untranslatable

ERR = {"ValueError": ".valueError", "TypeError": ".typeError", "ExpectedTypeError": ".typeError", "KeyError": ".keyError", "AssertionError": ".assertionError"}


class Tr:
    def __init__(self, kinds: dict[str, str], rename: dict[str, str] | None = None, result: str = "int"):
        self.result = result
        self.kinds = dict(kinds)
        self.rename = rename or {}
        self.guards: list[str] = []
        self.fresh = 0

    def nm(self, n: str) -> str:
        return self.rename.get(n, n)

    # ---- expressions
    def ex(self, e: ast.AST, unwrapped: dict[str, str] | None = None) -> str:
        unwrapped = unwrapped or {}
        if isinstance(e, ast.Constant) and isinstance(e.value, int) and not isinstance(e.value, bool):
            return f"({e.value} : Int)"
        if isinstance(e, ast.Name):
            if e.id in unwrapped:
                return unwrapped[e.id]
            k = self.kinds.get(e.id)
            if k == "int":
                return self.nm(e.id)
            raise Untranslatable(f"expression uses {e.id} of kind {k}")
        if isinstance(e, ast.Attribute) and isinstance(e.value, ast.Name) and e.value.id in ("self", "cls") and self.kinds.get(e.attr) == "int":
            return self.nm(e.attr)
        # `type(self).attr`: the class-level value, a parameter named cls_<attr>
        if (isinstance(e, ast.Attribute) and isinstance(e.value, ast.Call) and ast.unparse(e.value) == "type(self)" and self.kinds.get("cls_" + e.attr) == "int"):
            return self.nm("cls_" + e.attr)
        if isinstance(e, ast.BinOp) and isinstance(e.op, (ast.Add, ast.Sub, ast.Mult)):
            op = {ast.Add: "+", ast.Sub: "-", ast.Mult: "*"}[type(e.op)]
            return f"({self.ex(e.left, unwrapped)} {op} {self.ex(e.right, unwrapped)})"
        if isinstance(e, ast.UnaryOp) and isinstance(e.op, ast.USub):
            return f"(-{self.ex(e.operand, unwrapped)})"
        raise Untranslatable(f"expression {ast.unparse(e)}")

    def cmp(self, t: ast.Compare, unwrapped=None) -> str:
        if len(t.ops) != 1:
            raise Untranslatable("chained comparison")
        op = {ast.Lt: "<", ast.Gt: ">", ast.LtE: "≤", ast.GtE: "≥", ast.Eq: "=", ast.NotEq: "≠"}.get(type(t.ops[0]))
        if op is None:
            raise Untranslatable(f"operator in {ast.unparse(t)}")
        l, r = t.left, t.comparators[0]
        unwrapped = unwrapped or {}
        lk = self.kinds.get(l.id) if isinstance(l, ast.Name) and l.id not in unwrapped else "int"
        rk = self.kinds.get(r.id) if isinstance(r, ast.Name) and r.id not in unwrapped else "int"
        if "opt" in (lk, rk):
            if op not in ("=", "≠") or lk == rk:
                raise Untranslatable(f"ordering with an optional value outside a truthiness guard: {ast.unparse(t)}")
            o, i = (l, r) if lk == "opt" else (r, l)
            return f"({self.nm(o.id)} {op} some {self.ex(i, unwrapped)})"
        return f"({self.ex(l, unwrapped)} {op} {self.ex(r, unwrapped)})"

    def test(self, t: ast.AST, unwrapped=None) -> str:
        if isinstance(t, ast.Compare):
            return self.cmp(t, unwrapped)
        if isinstance(t, ast.Name) and self.kinds.get(t.id) == "bool":
            return f"({self.nm(t.id)} = true)"
        if isinstance(t, ast.UnaryOp) and isinstance(t.op, ast.Not):
            return f"(¬ {self.test(t.operand, unwrapped)})"
        if isinstance(t, ast.BoolOp) and isinstance(t.op, (ast.And, ast.Or)):
            if any(isinstance(v, ast.Name) and self.kinds.get(v.id) == "opt" for v in t.values):
                raise Untranslatable("optional in a boolean operator: handled at statement level only")
            j = " ∧ " if isinstance(t.op, ast.And) else " ∨ "
            return "(" + j.join(self.test(v, unwrapped) for v in t.values) + ")"
        raise Untranslatable(f"test {ast.unparse(t)}")

    # ---- statements
    def block(self, stmts: list[ast.stmt], ind: int = 2) -> str:
        pad = " " * ind
        if not stmts:
            raise Untranslatable("control falls off the end of the function")
        s, rest = stmts[0], stmts[1:]
        if isinstance(s, ast.Expr) and isinstance(s.value, ast.Constant):
            return self.block(rest, ind)                       # docstring
        if isinstance(s, ast.Return):
            if s.value is None:
                raise Untranslatable("bare return")
            if self.result == "bool":
                v = s.value
                if isinstance(v, ast.Constant) and isinstance(v.value, bool):
                    return f"{pad}.ok {'true' if v.value else 'false'}"
                if isinstance(v, ast.Call) and isinstance(v.func, ast.Attribute) and isinstance(v.func.value, ast.Call) and ast.unparse(v.func.value.func) == "super":
                    if "super_result" not in self.kinds:
                        raise Untranslatable("super() call without a declared parameter")
                    return f"{pad}.ok {self.nm('super_result')}"
                raise Untranslatable(f"boolean result {ast.unparse(v)}")
            return f"{pad}.ok {self.ex(s.value)}"
        if isinstance(s, ast.Raise):
            exc = s.exc.func if isinstance(s.exc, ast.Call) else s.exc
            name = ast.unparse(exc).split(".")[-1]
            if name not in ERR:
                raise Untranslatable(f"raise {name}")
            return f"{pad}.error {ERR[name]}"
        if isinstance(s, ast.Expr) and isinstance(s.value, ast.Call) and ast.unparse(s.value.func).split(".")[-1] == "warn":
            return self.block(rest, ind)
        if isinstance(s, ast.Assign) and len(s.targets) == 1 and isinstance(s.targets[0], ast.Name):
            tgt = s.targets[0].id
            if tgt == "msg":
                return self.block(rest, ind)
            v = s.value
            # `x = cls.attr`: the attribute is a parameter of the Lean function (declared kind); x becomes its alias
            if isinstance(v, ast.Attribute) and isinstance(v.value, ast.Name) and v.value.id in ("cls", "self"):
                if v.attr not in self.kinds:
                    raise Untranslatable(f"attribute {v.attr} is not a declared parameter")
                self.kinds[tgt] = self.kinds[v.attr]
                self.rename[tgt] = self.nm(v.attr)
                return self.block(rest, ind)
            # `x = cls.attr or <int>`  (Python truthiness of an Optional[int])
            if (isinstance(v, ast.BoolOp) and isinstance(v.op, ast.Or) and len(v.values) == 2 and isinstance(v.values[0], ast.Attribute)
                    and isinstance(v.values[0].value, ast.Name) and v.values[0].value.id in ("cls", "self") and self.kinds.get(v.values[0].attr) == "opt"):
                a = self.nm(v.values[0].attr)
                d = self.ex(v.values[1])
                self.kinds[tgt] = "int"
                return f"{pad}let {self.nm(tgt)} : Int := (match {a} with | some v => if v ≠ 0 then v else {d} | none => {d})\n" + self.block(rest, ind)
            if self.kinds.get(tgt, "int") != "int":
                raise Untranslatable(f"assignment to {tgt}")
            rhs = self.ex(s.value)
            self.kinds[tgt] = "int"
            return f"{pad}let {self.nm(tgt)} : Int := {rhs}\n" + self.block(rest, ind)
        if isinstance(s, ast.If):
            t = s.test
            # type guard
            if isinstance(t, ast.UnaryOp) and isinstance(t.op, ast.Not) and isinstance(t.operand, ast.Call) and ast.unparse(t.operand.func) == "isinstance":
                self.guards.append(ast.unparse(t))
                return self.block(rest, ind)
            yes, no = list(s.body) + rest, list(s.orelse) + rest
            # `<opt> and <cmp>`
            if isinstance(t, ast.BoolOp) and isinstance(t.op, ast.And) and len(t.values) == 2 and isinstance(t.values[0], ast.Name) and self.kinds.get(t.values[0].id) == "opt":
                o = t.values[0].id
                self.fresh += 1
                v = f"{self.nm(o)}_v{self.fresh}"
                saved = dict(self.kinds)
                saved_rn = dict(self.rename)
                cond = self.test(t.values[1], {o: v})
                # inside the guarded arm the optional is known to be a (non-zero) integer: reads of it see the unwrapped value
                self.kinds[o] = "int"
                self.rename[o] = v
                a = self.block(yes, ind + 4)
                self.kinds = dict(saved)
                self.rename = dict(saved_rn)
                b = self.block(no, ind + 4)
                self.kinds = dict(saved)
                b2 = self.block(no, ind + 2)
                self.kinds = saved
                return (f"{pad}match {self.nm(o)} with\n{pad}| some {v} =>\n{pad}  if {v} ≠ 0 ∧ {cond} then\n{a}\n{pad}  else\n{b}\n{pad}| none =>\n{b2}")
            saved = dict(self.kinds)
            cond = self.test(t)
            a = self.block(yes, ind + 2)
            self.kinds = dict(saved)
            b = self.block(no, ind + 2)
            self.kinds = saved
            return f"{pad}if {cond} then\n{a}\n{pad}else\n{b}"
        raise Untranslatable(f"statement {type(s).__name__}: {ast.unparse(s)[:60]}")


def function(fn: ast.FunctionDef, lean_name: str, params: list[tuple[str, str, str]], rename: dict[str, str] | None = None, pre: list[ast.stmt] | None = None,
             result: str = "int") -> tuple[str, list[str]]:
    """params: (python name, kind, lean name) in the order of the Lean definition.  `pre`: statements to put in front (e.g. attribute loads
    `mn = cls.min_salt_size` are dropped by the caller and the names declared as parameters instead)."""
    kinds = {p: k for p, k, _ in params}
    rn = {p: ln for p, k, ln in params}
    rn.update(rename or {})
    tr = Tr(kinds, rn, result)
    body = tr.block(list(pre or []) + list(fn.body))
    ty = {"int": "Int", "opt": "Option Int", "bool": "Bool"}
    sig = " ".join(f"({ln} : {ty[k]})" for _p, k, ln in params)
    return f"def {lean_name} {sig} : Py.Res {'Bool' if result == 'bool' else 'Int'} :=\n{body}\n", tr.guards
