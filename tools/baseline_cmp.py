#!/usr/bin/env python3
"""compare a junit xml of the repo's suite against BASELINE.json stable_pass."""
import json, sys, xml.etree.ElementTree as ET
base = json.load(open("/root/.vp/BASELINE.json"))
stable = set(base["stable_pass"])
t = ET.parse(sys.argv[1])
res = {}
for tc in t.iter("testcase"):
    name = f"{tc.get('classname')}::{tc.get('name')}"
    st = "pass"
    for ch in tc:
        if ch.tag in ("failure", "error"): st = "fail"
        elif ch.tag == "skipped": st = "skip"
    res[name] = st
missing = [n for n in stable if res.get(n) != "pass"]
print("stable:", len(stable), "passing now:", len(stable) - len(missing), "not passing:", len(missing))
for n in missing[:40]: print("  ", n, res.get(n))
print("failing overall:", [n for n, s in res.items() if s == "fail"][:40])
