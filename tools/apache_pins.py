"""statement lists of passlib/apache.py and the htdigest hasher that Model/Apache.lean was written against (docstrings dropped)."""

PINS = {('passlib/apache.py', 'HtdigestFile._encode_key'): ['return (self._encode_user(user), self._encode_realm(realm))'],
 ('passlib/apache.py', 'HtdigestFile._encode_realm'): ['realm = self._require_realm(realm)', "return self._encode_field(realm, 'realm')"],
 ('passlib/apache.py', 'HtdigestFile._parse_record'): ['result = record.rstrip().split(_BCOLON)',
                                                       'if len(result) != 3:\n'
                                                       "    raise ValueError('malformed htdigest file (error reading line %d)' % lineno)",
                                                       'user, realm, hash = result',
                                                       'return ((user, realm), hash)'],
 ('passlib/apache.py', 'HtdigestFile._render_record'): ['user, realm = key', "return render_bytes('%s:%s:%s\\n', user, realm, hash)"],
 ('passlib/apache.py', 'HtdigestFile._require_realm'): ['if realm is None:\n'
                                                        '    realm = self.default_realm\n'
                                                        '    if realm is None:\n'
                                                        "        raise TypeError('you must specify a realm explicitly, or set the default_realm "
                                                        "attribute')",
                                                        'return realm'],
 ('passlib/apache.py', 'HtdigestFile.check_password'): ['if password is _UNSET:\n    realm, password = (None, realm)',
                                                        'user = self._encode_user(user)',
                                                        'realm = self._encode_realm(realm)',
                                                        'hash = self._records.get((user, realm))',
                                                        'if hash is None:\n    return None',
                                                        'return htdigest.verify(password, hash, user, realm, encoding=self.encoding)'],
 ('passlib/apache.py', 'HtdigestFile.delete'): ['key = self._encode_key(user, realm)',
                                                'try:\n    del self._records[key]\nexcept KeyError:\n    return False',
                                                'self._autosave()',
                                                'return True'],
 ('passlib/apache.py', 'HtdigestFile.delete_realm'): ['realm = self._encode_realm(realm)',
                                                      'records = self._records',
                                                      'keys = [key for key in records if key[1] == realm]',
                                                      'for key in keys:\n    del records[key]',
                                                      'self._autosave()',
                                                      'return len(keys)'],
 ('passlib/apache.py', 'HtdigestFile.get_hash'): ['key = self._encode_key(user, realm)',
                                                  'hash = self._records.get(key)',
                                                  'if hash is None:\n    return None',
                                                  'return hash.decode(self.encoding)'],
 ('passlib/apache.py', 'HtdigestFile.realms'): ['realms = set((key[1] for key in self._records))',
                                                'return [self._decode_field(realm) for realm in realms]'],
 ('passlib/apache.py', 'HtdigestFile.set_hash'): ['if hash is _UNSET:\n    realm, hash = (None, realm)',
                                                  'if isinstance(hash, str):\n    hash = hash.encode(self.encoding)',
                                                  'key = self._encode_key(user, realm)',
                                                  'existing = self._set_record(key, hash)',
                                                  'self._autosave()',
                                                  'return existing'],
 ('passlib/apache.py', 'HtdigestFile.set_password'): ['if password is _UNSET:\n    realm, password = (None, realm)',
                                                      'realm = self._require_realm(realm)',
                                                      'hash = htdigest.hash(password, user, realm, encoding=self.encoding)',
                                                      'return self.set_hash(user, realm, hash)'],
 ('passlib/apache.py', 'HtdigestFile.users'): ['realm = self._encode_realm(realm)',
                                               'return [self._decode_field(key[0]) for key in self._records if key[1] == realm]'],
 ('passlib/apache.py', 'HtpasswdFile._parse_record'): ['result = record.rstrip().split(_BCOLON)',
                                                       'if len(result) != 2:\n'
                                                       "    raise ValueError('malformed htpasswd file (error reading line %d)' % lineno)",
                                                       'return result'],
 ('passlib/apache.py', 'HtpasswdFile._render_record'): ["return render_bytes('%s:%s\\n', user, hash)"],
 ('passlib/apache.py', 'HtpasswdFile.check_password'): ['user = self._encode_user(user)',
                                                        'hash = self._records.get(user)',
                                                        'if hash is None:\n    return None',
                                                        'if isinstance(password, str):\n    password = password.encode(self.encoding)',
                                                        'ok, new_hash = self.context.verify_and_update(password, hash)',
                                                        'if ok and new_hash is not None:\n'
                                                        '    assert user in self._records\n'
                                                        '    self._records[user] = new_hash\n'
                                                        '    self._autosave()',
                                                        'return ok'],
 ('passlib/apache.py', 'HtpasswdFile.delete'): ['try:\n    del self._records[self._encode_user(user)]\nexcept KeyError:\n    return False',
                                                'self._autosave()',
                                                'return True'],
 ('passlib/apache.py', 'HtpasswdFile.get_hash'): ['try:\n    return self._records[self._encode_user(user)]\nexcept KeyError:\n    return None'],
 ('passlib/apache.py', 'HtpasswdFile.set_hash'): ['if isinstance(hash, str):\n    hash = hash.encode(self.encoding)',
                                                  'user = self._encode_user(user)',
                                                  'existing = self._set_record(user, hash)',
                                                  'self._autosave()',
                                                  'return existing'],
 ('passlib/apache.py', 'HtpasswdFile.set_password'): ['if isinstance(password, str):\n    password = password.encode(self.encoding)', 'hash = self.context.hash(password)',
                                                      'return self.set_hash(user, hash)'],
 ('passlib/apache.py', 'HtpasswdFile.users'): ['return [self._decode_field(user) for user in self._records]'],
 ('passlib/apache.py', '_CommonFile._autosave'): ['if self.autosave and self._path:\n    self.save()'],
 ('passlib/apache.py', '_CommonFile._decode_field'): ["assert isinstance(value, bytes), 'expected value to be bytes'",
                                                      'if self.return_unicode:\n    return value.decode(self.encoding)',
                                                      'return value'],
 ('passlib/apache.py', '_CommonFile._encode_field'): ['if isinstance(value, str):\n'
                                                      '    value = value.encode(self.encoding)\n'
                                                      'elif not isinstance(value, bytes):\n'
                                                      '    raise ExpectedStringError(value, param)',
                                                      'if len(value) > 255:\n'
                                                      "    raise ValueError(f'{param} must be at most 255 characters: {value!r}')",
                                                      'if any((c in _INVALID_FIELD_CHARS for c in value)):\n'
                                                      "    raise ValueError(f'{param} contains invalid characters: {value!r}')",
                                                      'return value'],
 ('passlib/apache.py', '_CommonFile._encode_realm'): ["return self._encode_field(realm, 'realm')"],
 ('passlib/apache.py', '_CommonFile._encode_user'): ["return self._encode_field(user, 'user')"],
 ('passlib/apache.py', '_CommonFile._iter_lines'): ['records = self._records',
                                                    'if __debug__:\n    pending = set(records)',
                                                    'for action, content in self._source:\n'
                                                    '    if action == _SKIPPED:\n'
                                                    '        yield content\n'
                                                    '    else:\n'
                                                    '        assert action == _RECORD\n'
                                                    '        if content not in records:\n'
                                                    '            continue\n'
                                                    '        yield self._render_record(content, records[content])\n'
                                                    '        if __debug__:\n'
                                                    '            pending.remove(content)',
                                                    "if __debug__:\n    assert not pending, f'failed to write all records: missing={pending!r}'"],
 ('passlib/apache.py', '_CommonFile._load_lines'): ['parse = self._parse_record',
                                                    'records = {}',
                                                    'source = []',
                                                    "skipped = b''",
                                                    'for idx, line in enumerate(lines):\n'
                                                    '    tmp = line.lstrip()\n'
                                                    '    if not tmp or tmp.startswith(_BHASH):\n'
                                                    '        skipped += line\n'
                                                    '        continue\n'
                                                    '    key, value = parse(line, idx + 1)\n'
                                                    '    if key in records:\n'
                                                    "        logging.warning('username occurs multiple times in source file: %r', key)\n"
                                                    '        continue\n'
                                                    '    if skipped:\n'
                                                    '        source.append((_SKIPPED, skipped))\n'
                                                    "        skipped = b''\n"
                                                    '    records[key] = value\n'
                                                    '    source.append((_RECORD, key))',
                                                    'if skipped.rstrip():\n'
                                                    "    if not skipped.endswith(b'\\n'):\n"
                                                    "        skipped += b'\\n'\n"
                                                    '    source.append((_SKIPPED, skipped))',
                                                    'self._records = records',
                                                    'self._source = source'],
 ('passlib/apache.py', '_CommonFile._set_record'): ['records = self._records',
                                                    'existing = key in records',
                                                    'records[key] = value',
                                                    'if not existing and (_RECORD, key) not in self._source:\n'
                                                    '    self._source.append((_RECORD, key))',
                                                    'return existing'],
 ('passlib/apache.py', '_CommonFile.load'): ['if path is not None:\n'
                                             "    with open(path, 'rb') as fh:\n"
                                             '        self._mtime = 0\n'
                                             '        self._load_lines(fh)\n'
                                             'elif self._path:\n'
                                             "    with open(self._path, 'rb') as fh:\n"
                                             '        self._mtime = os.path.getmtime(self._path)\n'
                                             '        self._load_lines(fh)\n'
                                             'else:\n'
                                             "    raise RuntimeError(f'{self.__class__.__name__}().path is not set, an explicit path is required')",
                                             'return True'],
 ('passlib/apache.py', '_CommonFile.load_if_changed'): ["if not self._path:\n    raise RuntimeError(f'{self!r} is not bound to a local file')",
                                                        'if self._mtime and self._mtime == os.path.getmtime(self._path):\n    return False',
                                                        'self.load()',
                                                        'return True'],
 ('passlib/apache.py', '_CommonFile.load_string'): ["data = to_bytes(data, self.encoding, 'data')",
                                                    'self._mtime = 0',
                                                    'self._load_lines(BytesIO(data))'],
 ('passlib/apache.py', '_CommonFile.save'): ['if path is not None:\n'
                                             "    with open(path, 'wb') as fh:\n"
                                             '        fh.writelines(self._iter_lines())\n'
                                             'elif self._path:\n'
                                             '    self.save(self._path)\n'
                                             '    self._mtime = os.path.getmtime(self._path)\n'
                                             'else:\n'
                                             "    raise RuntimeError(f'{self.__class__.__name__}().path is not set, cannot autosave')"],
 ('passlib/apache.py', '_CommonFile.to_string'): ['return join_bytes(self._iter_lines())'],
 ('passlib/handlers/digests.py', 'htdigest._norm_hash'): ["hash = to_native_str(hash, param='hash')",
                                                          "if len(hash) != 32:\n    raise uh.exc.MalformedHashError(cls, 'wrong size')",
                                                          'for char in hash:\n'
                                                          '    if char not in uh.LC_HEX_CHARS:\n'
                                                          "        raise uh.exc.MalformedHashError(cls, 'invalid chars in hash')",
                                                          'return hash'],
 ('passlib/handlers/digests.py', 'htdigest.hash'): ['if not encoding:\n    encoding = cls.default_encoding',
                                                    'uh.validate_secret(secret)',
                                                    'if isinstance(secret, str):\n    secret = secret.encode(encoding)',
                                                    "user = to_bytes(user, encoding, 'user')",
                                                    "realm = to_bytes(realm, encoding, 'realm')",
                                                    "data = render_bytes('%s:%s:%s', user, realm, secret)",
                                                    'return hashlib.md5(data).hexdigest()'],
 ('passlib/handlers/digests.py', 'htdigest.verify'): ['hash = cls._norm_hash(hash)',
                                                      'other = cls.hash(secret, user, realm, encoding)',
                                                      'return consteq(hash, other)']}
