"""Generate Props/C08Families<Family>.lean: the C08 theorem set per hasher instance of the C01 families, as one-line corollaries of
Lemmas/C08Families.lean.  Usage: python tools/dev/gen_c08_families.py [lean-dir]   (default: the lean/ next to tools/).

Per hasher (a value of `Model.Verify.Hasher`), with F = its `C08Facts`:
  X_verify_total, X_no_internal_error, X_oversized_iff, X_altered_checksum_rejected, X_altered_iff_checksum, X_altered_hash_rejected
  (generic over settings with `RoundTrips`, and `X_altered_hash_rejected_on` on the family's admissible settings), X_same_parse_same_answer,
  X_config_string_value_error.
Per wrapper (verify = unwrap; inner.verify): the same set through `unwrapVerify`.
The hand-written parts (header, examples, special classes) live in c08_families_parts/<Family>.{head,tail}.lean.
"""
import os, sys

HERE = os.path.dirname(os.path.abspath(__file__))
LEAN = sys.argv[1] if len(sys.argv) > 1 else os.path.join(HERE, "..", "..", "lean")
PARTS = os.path.join(HERE, "c08_families_parts")


def lst(extra):
    return "[" + ", ".join("." + e for e in extra) + "]"


def hasher(name, term, facts, extra=(), nul=False, binders="", config=True, settings=()):
    """settings: list of (suffix, binders, settings-term, roundtrips-proof)"""
    b = (binders + " ") if binders else ""
    if " " in term and not term.startswith("("):
        term = f"({term})"
    ex = lst(extra)
    nulS = "true" if nul else "false"
    o = []
    w = o.append
    w(f"/-! ### {name} -/")
    w(f"theorem {name}_verify_total {b}(s : Secret) (hs : Str) : Total {ex} {nulS} (verify {term} s hs) :=\n  verify_total {facts} s hs")
    w(f"theorem {name}_no_internal_error {b}(s : Secret) (hs : Str) (e : ErrKind) (h1 : e ≠ .valueError) (h2 : e ≠ .sizeError)\n"
      f"    (h3 : e ≠ .nullError) (h4 : e ∉ ({ex} : List ErrKind)) : verify {term} s hs ≠ .error e :=\n"
      f"  ({name}_verify_total {argnames(binders)}s hs).not_other e h1 h2 h3 h4")
    if not nul:
        w(f"theorem {name}_never_null_error {b}(s : Secret) (hs : Str) : verify {term} s hs ≠ .error .nullError :=\n"
          f"  ({name}_verify_total {argnames(binders)}s hs).no_null (by decide)")
    w(f"theorem {name}_oversized_iff {b}(s : Secret) (hs : Str) :\n"
      f"    verify {term} s hs = .error .sizeError ↔ s.len > MAX_PASSWORD_SIZE := verify_sizeError_iff {facts} (by decide) s hs")
    w(f"theorem {name}_altered_checksum_rejected {b}(s : Secret) (hs hs' : Str) (p : Parsed) (c c' : Str)\n"
      f"    (hp : ({term}).parse hs = .ok {{ p with checksum := some c }}) (hp' : ({term}).parse hs' = .ok {{ p with checksum := some c' }})\n"
      f"    (hne : c' ≠ c) (hv : verify {term} s hs = .ok true) : verify {term} s hs' = .ok false :=\n"
      f"  altered_checksum_rejected {facts} s hs hs' p c c' hp hp' hne hv")
    w(f"theorem {name}_altered_iff_checksum {b}(s : Secret) (hs hs' : Str) (p : Parsed) (c c' : Str)\n"
      f"    (hp : ({term}).parse hs = .ok {{ p with checksum := some c }}) (hp' : ({term}).parse hs' = .ok {{ p with checksum := some c' }})\n"
      f"    (hv : verify {term} s hs = .ok true) : verify {term} s hs' = .ok (c' == c) :=\n"
      f"  altered_iff_checksum {facts} s hs hs' p c c' hp hp' hv")
    w(f"theorem {name}_altered_hash_rejected {b}(s : Secret) (p : Parsed) (hs hs' c' : Str) (hrt : RoundTrips ({term}) p)\n"
      f"    (hh : hashSecret {term} s p = .ok hs) (hp' : ({term}).parse hs' = .ok {{ p with checksum := some c' }})\n"
      f"    (hne : ({term}).parse hs' ≠ ({term}).parse hs) : verify {term} s hs' = .ok false :=\n"
      f"  altered_hash_rejected {facts} s p hs hs' c' hrt hh hp' hne")
    for (suffix, sb, st, rt) in settings:
        w(f"theorem {name}_altered_hash_rejected_on{suffix} {b}{sb} (s : Secret) (hs hs' c' : Str)\n"
          f"    (hh : hashSecret {term} s ({st}) = .ok hs) (hp' : ({term}).parse hs' = .ok {{ {st} with checksum := some c' }})\n"
          f"    (hne : ({term}).parse hs' ≠ ({term}).parse hs) : verify {term} s hs' = .ok false :=\n"
          f"  altered_hash_rejected {facts} s _ hs hs' c' ({rt}) hh hp' hne")
    w(f"theorem {name}_same_parse_same_answer {b}(s : Secret) (h1 h2 : Str) (hp : ({term}).parse h1 = ({term}).parse h2) :\n"
      f"    verify {term} s h1 = verify {term} s h2 := same_parse_same_answer _ s h1 h2 hp")
    if config:
        w(f"theorem {name}_config_string_value_error {b}(s : Secret) (hs : Str) (p : Parsed) (hl : s.len ≤ MAX_PASSWORD_SIZE)\n"
          f"    (hp : ({term}).parse hs = .ok p) (hc : p.checksum = none) : verify {term} s hs = .error .valueError :=\n"
          f"  config_string_value_error _ s hs p hl hp hc")
    return "\n".join(o) + "\n"


def argnames(binders):
    """'(te : Bool) (user : Option Bytes)' -> 'te user '"""
    out = []
    for part in binders.replace(")", "(").split("("):
        part = part.strip()
        if ":" in part:
            out += part.split(":")[0].split()
    return "".join(n + " " for n in out)


def wrapper(name, vterm, unwrap, inner, facts, eqn, extra=(), nul=False, binders="", config=True, inner_total=None):
    """vterm s hs : the wrapper's verify; eqn : ∀ s hs, vterm s hs = unwrapVerify unwrap (verify inner) s hs"""
    b = (binders + " ") if binders else ""
    ex = lst(extra)
    nulS = "true" if nul else "false"
    o = []
    w = o.append
    w(f"/-! ### {name} (PrefixWrapper) -/")
    w(f"theorem {name}_verify_total {b}(s : Secret) (hs : Str) : Total {ex} {nulS} ({vterm} s hs) := by\n"
      f"  rw [{eqn}]; exact unwrap_total _ _ (fun s u => verify_total {facts} s u) s hs")
    w(f"theorem {name}_no_internal_error {b}(s : Secret) (hs : Str) (e : ErrKind) (h1 : e ≠ .valueError) (h2 : e ≠ .sizeError)\n"
      f"    (h3 : e ≠ .nullError) (h4 : e ∉ ({ex} : List ErrKind)) : {vterm} s hs ≠ .error e :=\n"
      f"  ({name}_verify_total {argnames(binders)}s hs).not_other e h1 h2 h3 h4")
    w(f"theorem {name}_no_prefix_value_error {b}(s : Secret) (hs : Str) (hu : ({unwrap}) hs = none) :\n"
      f"    {vterm} s hs = .error .valueError := by\n  rw [{eqn}]; exact unwrap_no_prefix _ _ s hs hu")
    w(f"theorem {name}_altered_checksum_rejected {b}(s : Secret) (hs hs' u u' : Str) (p : Parsed) (c c' : Str)\n"
      f"    (hu : ({unwrap}) hs = some u) (hu' : ({unwrap}) hs' = some u')\n"
      f"    (hp : ({inner}).parse u = .ok {{ p with checksum := some c }}) (hp' : ({inner}).parse u' = .ok {{ p with checksum := some c' }})\n"
      f"    (hne : c' ≠ c) (hv : {vterm} s hs = .ok true) : {vterm} s hs' = .ok false := by\n"
      f"  rw [{eqn}] at hv ⊢; exact unwrap_altered_checksum_rejected {facts} _ s hs hs' u u' p c c' hu hu' hp hp' hne hv")
    w(f"theorem {name}_same_parse_same_answer {b}(s : Secret) (h1 h2 u1 u2 : Str) (hu1 : ({unwrap}) h1 = some u1)\n"
      f"    (hu2 : ({unwrap}) h2 = some u2) (hp : ({inner}).parse u1 = ({inner}).parse u2) : {vterm} s h1 = {vterm} s h2 := by\n"
      f"  rw [{eqn}, {eqn}]; exact unwrap_same_parse _ _ s h1 h2 u1 u2 hu1 hu2 hp")
    if config:
        w(f"theorem {name}_config_string_value_error {b}(s : Secret) (hs u : Str) (p : Parsed) (hl : s.len ≤ MAX_PASSWORD_SIZE)\n"
          f"    (hu : ({unwrap}) hs = some u) (hp : ({inner}).parse u = .ok p) (hc : p.checksum = none) :\n"
          f"    {vterm} s hs = .error .valueError := by\n  rw [{eqn}]; exact unwrap_config_string_value_error _ _ s hs u p hl hu hp hc")
    return "\n".join(o) + "\n"


def custom(name, vterm, hterm, facts, L, extra=(), nul=False, binders="", config=True):
    """a class whose own `verify` (vterm) is not the generic one; L = prefix of its lemmas in the family's Lemmas file
    (L_total, L_altered_checksum_rejected, L_altered_iff_checksum, L_same_parse, L_config_string_value_error)"""
    b = (binders + " ") if binders else ""
    ex = lst(extra)
    nulS = "true" if nul else "false"
    o = []
    w = o.append
    w(f"/-! ### {name} (its own `verify`) -/")
    w(f"theorem {name}_verify_total {b}(s : Secret) (hs : Str) : Total {ex} {nulS} ({vterm} s hs) :=\n  {L}_total {facts} s hs")
    w(f"theorem {name}_no_internal_error {b}(s : Secret) (hs : Str) (e : ErrKind) (h1 : e ≠ .valueError) (h2 : e ≠ .sizeError)\n"
      f"    (h3 : e ≠ .nullError) (h4 : e ∉ ({ex} : List ErrKind)) : {vterm} s hs ≠ .error e :=\n"
      f"  ({name}_verify_total {argnames(binders)}s hs).not_other e h1 h2 h3 h4")
    w(f"theorem {name}_altered_checksum_rejected {b}(s : Secret) (hs hs' : Str) (p : Parsed) (c c' : Str)\n"
      f"    (hp : ({hterm}).parse hs = .ok {{ p with checksum := some c }}) (hp' : ({hterm}).parse hs' = .ok {{ p with checksum := some c' }})\n"
      f"    (hne : c' ≠ c) (hv : {vterm} s hs = .ok true) : {vterm} s hs' = .ok false :=\n"
      f"  {L}_altered_checksum_rejected {facts} s hs hs' p c c' hp hp' hne hv")
    w(f"theorem {name}_altered_iff_checksum {b}(s : Secret) (hs hs' : Str) (p : Parsed) (c c' : Str)\n"
      f"    (hp : ({hterm}).parse hs = .ok {{ p with checksum := some c }}) (hp' : ({hterm}).parse hs' = .ok {{ p with checksum := some c' }})\n"
      f"    (hv : {vterm} s hs = .ok true) : {vterm} s hs' = .ok (c' == c) :=\n"
      f"  {L}_altered_iff_checksum {facts} s hs hs' p c c' hp hp' hv")
    w(f"theorem {name}_same_parse_same_answer {b}(s : Secret) (h1 h2 : Str) (hp : ({hterm}).parse h1 = ({hterm}).parse h2) :\n"
      f"    {vterm} s h1 = {vterm} s h2 := {L}_same_parse _ s h1 h2 hp")
    if config:
        w(f"theorem {name}_config_string_value_error {b}(s : Secret) (hs : Str) (p : Parsed) (hl : s.len ≤ MAX_PASSWORD_SIZE)\n"
          f"    (hp : ({hterm}).parse hs = .ok p) (hc : p.checksum = none) : {vterm} s hs = .error .valueError :=\n"
          f"  {L}_config_string_value_error _ s hs p hl hp hc")
    return "\n".join(o) + "\n"


def part(fam, kind):
    p = os.path.join(PARTS, f"{fam}.{kind}.lean")
    return open(p).read() if os.path.exists(p) else ""


def emit(fam, body):
    text = part(fam, "head") + "\n" + "\n".join(body) + "\n" + part(fam, "tail")
    path = os.path.join(LEAN, "PasslibVerif", "Props", f"C08Families{fam}.lean")
    open(path, "w").write(text)
    print(path, text.count("\ntheorem "), "theorems", text.count("\nexample "), "examples")
    ex = part(fam, "examples")
    if ex:
        path = os.path.join(LEAN, "PasslibVerif", "Props", f"C08Families{fam}Examples.lean")
        open(path, "w").write(ex)
        print(path, ex.count("\nexample "), "examples")


# ------------------------------------------------------------------ Pbkdf
RAW = "(salt : Bytes) (rounds : Nat) (hset : RawSettingsOK salt rounds)"


def pbkdf():
    B = []
    for a, ident in (("sha1", "PBKDF2_SHA1_IDENT"), ("sha256", "PBKDF2_SHA256_IDENT"), ("sha512", "PBKDF2_SHA512_IDENT")):
        B.append(hasher(f"pbkdf2_{a}", f"pbkdf2_{a}Hasher", f"pbkdf2_{a}_facts", extra=["typeError"],
                        settings=[("", RAW, f"mc3Settings {ident} salt rounds", f"pbkdf2_{a}_roundtrips salt rounds hset")]))
    B.append(hasher("cta_pbkdf2_sha1", "ctaHasher", "cta_facts",
                    settings=[("", RAW, "mc3Settings P5K2_IDENT salt rounds", "cta_roundtrips salt rounds hset")]))
    B.append(hasher("grub_pbkdf2_sha512", "grubHasher", "grub_facts",
                    settings=[("", RAW, "mc3Settings GRUB_IDENT salt rounds", "grub_roundtrips salt rounds hset")]))
    B.append(hasher("atlassian_pbkdf2_sha1", "atlassianHasher", "atlassian_facts", config=False,
                    settings=[("", "(salt : Bytes) (hsw : Bytes.WF salt) (hl : salt.length = 16)", "atlassianSettings salt",
                               "Props.C01Pbkdf.atlassian_roundtrips salt hsw hl")]))
    B.append(hasher("sha1_crypt", "sha1CryptHasher", "sha1_crypt_facts", nul=True,
                    settings=[("", "(salt : Str) (rounds : Nat) (hset : Sha1CryptSettingsOK salt rounds)",
                               "mc3Settings SHA1C_IDENT salt rounds", "sha1_crypt_roundtrips salt rounds hset")]))
    B.append(hasher("dlitz_pbkdf2_sha1", "dlitzHasher", "dlitz_facts",
                    settings=[("", "(salt : Str) (rounds : Nat) (hset : DlitzSettingsOK salt rounds)",
                               "mc3Settings P5K2_IDENT salt rounds", "Props.C01Pbkdf.dlitz_roundtrips salt rounds hset")]))
    for a, ident in (("sha1", "DJANGO_PBKDF2_SHA1_IDENT"), ("sha256", "DJANGO_PBKDF2_SHA256_IDENT")):
        B.append(hasher(f"django_pbkdf2_{a}", f"django_pbkdf2_{a}Hasher", f"django_pbkdf2_{a}_facts",
                        settings=[("", "(salt : Str) (rounds : Nat) (hset : DjangoSettingsOK salt rounds)",
                                   f"mc3Settings {ident} salt rounds", f"django_pbkdf2_{a}_roundtrips salt rounds hset")]))
    for a, ident in (("md5", "DJANGO_MD5_IDENT"), ("sha1", "DJANGO_SHA1_IDENT")):
        B.append(hasher(f"django_salted_{a}", f"django_salted_{a}Hasher", f"django_salted_{a}_facts",
                        settings=[("", "(salt : Str) (hset : allIn DJANGO_SALT_CHARS salt = true)",
                                   f"djSaltedSettings {ident} salt", f"django_salted_{a}_roundtrips salt hset")]))
    for a in ("sha1", "sha256", "sha512"):
        W = f"ldap_pbkdf2_{a}W"
        B.append(wrapper(f"ldap_pbkdf2_{a}", f"{W}.verify", f"fun x => (stripPrefix {W}.pfx x).map ({W}.orig ++ ·)",
                         f"pbkdf2_{a}Hasher", f"pbkdf2_{a}_facts", "Wrapped_verify_eq",
                         extra=["typeError"]))
    emit("Pbkdf", B)


# ------------------------------------------------------------------ DesBcrypt
def desbcrypt():
    B = []
    S2 = "(salt : Str) (hsalt : allIn h64 salt = true) (hl : salt.length = 2)"
    B.append(hasher("des_crypt", "desHasher te", "(des_crypt_facts te)", nul=True, binders="(te : Bool)",
                    settings=[("", S2, "desSettings salt", "des_crypt_roundtrips te salt hsalt hl")]))
    B.append(hasher("bsdi_crypt", "bsdiHasher", "bsdi_crypt_facts", nul=True,
                    settings=[("", "(salt : Str) (rounds : Nat) (hsalt : allIn h64 salt = true) (hl : salt.length = 4) (hr : 1 ≤ rounds ∧ rounds ≤ 16777215)",
                               "bsdiSettings salt rounds", "bsdi_crypt_roundtrips salt rounds hsalt hl hr")]))
    B.append(hasher("bigcrypt", "bigcryptHasher", "bigcrypt_facts", nul=True,
                    settings=[("", S2, "desSettings salt", "bigcrypt_roundtrips salt hsalt hl")]))
    B.append(hasher("crypt16", "crypt16Hasher te", "(crypt16_facts te)", binders="(te : Bool)",
                    settings=[("", S2, "desSettings salt", "crypt16_roundtrips te salt hsalt hl")]))
    B.append(hasher("django_des_crypt", "djangoDesHasher te", "(django_des_crypt_facts te)", nul=True, binders="(te : Bool)",
                    settings=[("", "(salt : Str) (hsalt : allIn h64 salt = true) (hl : 2 ≤ salt.length)", "djangoDesSettings salt",
                               "django_des_crypt_roundtrips te salt hsalt hl")]))
    B.append(hasher("phpass", "phpassHasher", "phpass_facts",
                    settings=[("", '(ident salt : Str) (rounds : Nat) (hi : ident = ofString "$P$" ∨ ident = ofString "$H$") '
                               "(hsalt : allIn h64 salt = true) (hl : salt.length = 8) (hr : 7 ≤ rounds ∧ rounds ≤ 30)",
                               "phpassSettings ident salt rounds", "phpass_roundtrips ident salt rounds hi hsalt hl hr")]))
    B.append(hasher("sun_md5_crypt", "sunHasher", "sun_md5_crypt_facts",
                    settings=[("", "(salt : Str) (rounds : Nat) (bare : Bool) (hsalt : allIn h64 salt = true) (hr : rounds ≤ 4294963199) "
                               "(hbare : bare = false ∨ salt ≠ [])", "sunSettings salt rounds bare",
                               "sun_md5_crypt_roundtrips salt rounds bare hsalt hr hbare")]))
    BC = "(ident salt : Str) (rounds : Nat) (hi : ident ∈ bcryptOkIdents) (hsalt : BcCanon 22 salt) (hr : 4 ≤ rounds ∧ rounds ≤ 31)"
    B.append(custom("bcrypt", "bcVerify (bcryptHasher te)", "bcryptHasher te", "(bcrypt_facts te)", "bcVerify", nul=True, binders="(te : Bool)"))
    B.append(hasher("django_bcrypt_sha256", "djangoBcryptSha256Hasher", "django_bcrypt_sha256_facts",
                    settings=[("", BC, "bcryptSettings ident salt rounds", "django_bcrypt_sha256_roundtrips ident salt rounds hi hsalt hr")]))
    BS = "(version : Nat) (ident salt : Str) (rounds : Nat) (hv : BsVersionOk version ident) (hsalt : BcCanon 22 salt) (hr : 4 ≤ rounds ∧ rounds ≤ 31)"
    T = hasher("bcrypt_sha256", "bcryptSha256Hasher", "bcrypt_sha256_facts_partial", extra=["runtimeError"],
               settings=[("", BS, "bcryptSha256Settings version ident salt rounds", "bcrypt_sha256_roundtrips version ident salt rounds hv hsalt hr")])
    T = T.replace("bcrypt_sha256_verify_total", "bcrypt_sha256_verify_total_partial").replace("bcrypt_sha256_no_internal_error", "bcrypt_sha256_no_internal_error_partial")
    B.append(part("DesBcrypt", "mid") + T)
    emit("DesBcrypt", B)


# ------------------------------------------------------------------ Static
def static():
    B = []
    for a in ("md4", "md5", "sha1", "sha256", "sha512"):
        B.append(hasher(f"hex_{a}", f"hex_{a}Hasher", "(hex_facts _ _)", config=False,
                        settings=[("", "", "noSettings", f"hex_{a}_roundtrips")]))
    B.append(hasher("nthash", "nthashHasher", "nthash_facts", config=False, settings=[("", "", "noSettings", "nthash_roundtrips")]))
    B.append(hasher("lmhash", "lmhashHasher te", "(lmhash_facts te)", binders="(te : Bool)", config=False,
                    settings=[("", "", "noSettings", "lmhash_roundtrips te")]))
    U = "(user : Option Bytes)"
    for n in ("msdcc", "msdcc2", "postgres_md5", "oracle10"):
        B.append(hasher(n, f"{n}Hasher user", f"({n}_facts user)", extra=["typeError"], binders=U, config=False,
                        settings=[("", "", "noSettings", f"{n}_roundtrips user")]))
    B.append(hasher("mysql323", "mysql323Hasher", "mysql323_facts", config=False, settings=[("", "", "noSettings", "mysql323_roundtrips")]))
    B.append(hasher("mysql41", "mysql41Hasher", "mysql41_facts", config=False, settings=[("", "", "noSettings", "mysql41_roundtrips")]))
    B.append(hasher("oracle11", "oracle11Hasher", "oracle11_facts", config=False,
                    settings=[("", "(salt : Str) (hl : salt.length = 20) (hx : allIn upperHex salt = true)", "saltSettings [] salt",
                               "oracle11_roundtrips salt hl hx")]))
    B.append(hasher("cisco", "ciscoHasher asa user", "(cisco_facts asa user)", binders="(asa : Bool) (user : Option Bytes)", config=False,
                    settings=[("", "", "noSettings", "cisco_roundtrips asa user")]))
    B.append(hasher("ldap_md5", "ldap_md5Hasher", "(ldapB64_facts _ _)", config=False,
                    settings=[("", "", "noSettings LDAP_MD5", "ldap_md5_roundtrips")]))
    B.append(hasher("ldap_sha1", "ldap_sha1Hasher", "(ldapB64_facts _ _)", config=False,
                    settings=[("", "", "noSettings LDAP_SHA", "ldap_sha1_roundtrips")]))
    for a, ident in (("md5", "{SMD5}"), ("sha1", "{SSHA}"), ("sha256", "{SSHA256}"), ("sha512", "{SSHA512}")):
        B.append(hasher(f"ldap_salted_{a}", f"ldap_salted_{a}Hasher", "(ldapSalted_facts _ _)", config=False,
                        settings=[("", "(salt : Bytes) (h4 : 4 ≤ salt.length) (h16 : salt.length ≤ 16) (hw : Bytes.WF salt)",
                                   f'saltSettings (ofString "{ident}") salt', f"ldap_salted_{a}_roundtrips salt h4 h16 hw")]))
    B.append(hasher("mssql2005", "mssql2005Hasher", "mssql2005_facts", config=False,
                    settings=[("", "(salt : Bytes) (hl : salt.length = 4) (hw : Bytes.WF salt)", "saltSettings [] salt",
                               "mssql2005_roundtrips salt hl hw")]))
    for n, pfx, inner, facts in (("bsd_nthash", "BSD_NT", "nthashHasher", "nthash_facts"),
                                 ("ldap_hex_md5", "LDAP_MD5", "hex_md5Hasher", "(hex_facts hex_md5 Spec.MD5.md5)"),
                                 ("ldap_hex_sha1", "LDAP_SHA", "hex_sha1Hasher", "(hex_facts hex_sha1 Spec.SHA1.sha1)")):
        B.append(wrapper(n, f"wrapVerify {pfx} {inner}", f"stripPrefix {pfx}", inner, facts, "wrapVerify_eq", config=False))
    emit("Static", B)


def inst_custom(name, inst, pfx, hterm, inner, extra=(), nul=False, binders="", config=True):
    """an `Inst` (Model/VerifyFmt/Wrap.lean) around a class with its own `verify`: `inner` = prefix of that class's C08 theorems
    (inner_verify_total, inner_altered_checksum_rejected, inner_same_parse_same_answer, inner_config_string_value_error)"""
    b = (binders + " ") if binders else ""
    a = argnames(binders)
    ex = lst(extra)
    nulS = "true" if nul else "false"
    I = f"({inst})" if " " in inst else inst
    H = f"({hterm})"
    o = []
    w = o.append
    w(f"/-! ### {name} (PrefixWrapper around a class with its own `verify`) -/")
    w(f"theorem {name}_verify_total {b}(s : Secret) (hs : Str) : Total {ex} {nulS} ({I}.wVerify s hs) := by\n"
      f"  rw [Inst_wVerify_eq]; exact unwrap_total _ _ (fun s u => {inner}_verify_total {a}s u) s hs")
    w(f"theorem {name}_no_internal_error {b}(s : Secret) (hs : Str) (e : ErrKind) (h1 : e ≠ .valueError) (h2 : e ≠ .sizeError)\n"
      f"    (h3 : e ≠ .nullError) (h4 : e ∉ ({ex} : List ErrKind)) : {I}.wVerify s hs ≠ .error e :=\n"
      f"  ({name}_verify_total {a}s hs).not_other e h1 h2 h3 h4")
    w(f"theorem {name}_no_prefix_value_error {b}(s : Secret) (hs : Str) (hu : unwrapOf {pfx} [] hs = none) :\n"
      f"    {I}.wVerify s hs = .error .valueError := wVerify_no_prefix {I} s hs hu")
    w(f"theorem {name}_altered_checksum_rejected {b}(s : Secret) (hs hs' u u' : Str) (p : Parsed) (c c' : Str)\n"
      f"    (hu : unwrapOf {pfx} [] hs = some u) (hu' : unwrapOf {pfx} [] hs' = some u')\n"
      f"    (hp : {H}.parse u = .ok {{ p with checksum := some c }}) (hp' : {H}.parse u' = .ok {{ p with checksum := some c' }})\n"
      f"    (hne : c' ≠ c) (hv : {I}.wVerify s hs = .ok true) : {I}.wVerify s hs' = .ok false := by\n"
      f"  rw [wVerify_of_unwrap {I} s hs u hu] at hv; rw [wVerify_of_unwrap {I} s hs' u' hu']\n"
      f"  exact {inner}_altered_checksum_rejected {a}s u u' p c c' hp hp' hne hv")
    w(f"theorem {name}_same_parse_same_answer {b}(s : Secret) (h1 h2 u1 u2 : Str) (hu1 : unwrapOf {pfx} [] h1 = some u1)\n"
      f"    (hu2 : unwrapOf {pfx} [] h2 = some u2) (hp : {H}.parse u1 = {H}.parse u2) : {I}.wVerify s h1 = {I}.wVerify s h2 := by\n"
      f"  rw [wVerify_of_unwrap {I} s h1 u1 hu1, wVerify_of_unwrap {I} s h2 u2 hu2]\n"
      f"  exact {inner}_same_parse_same_answer {a}s u1 u2 hp")
    if config:
        w(f"theorem {name}_config_string_value_error {b}(s : Secret) (hs u : Str) (p : Parsed) (hl : s.len ≤ MAX_PASSWORD_SIZE)\n"
          f"    (hu : unwrapOf {pfx} [] hs = some u) (hp : {H}.parse u = .ok p) (hc : p.checksum = none) :\n"
          f"    {I}.wVerify s hs = .error .valueError := by\n"
          f"  rw [wVerify_of_unwrap {I} s hs u hu]; exact {inner}_config_string_value_error {a}s u p hl hp hc")
    return "\n".join(o) + "\n"


# ------------------------------------------------------------------ Wrap
def wrapfam():
    B = []
    def ofh(name, inst, pfx, orig, inner, facts, **k):
        I = f"({inst})" if " " in inst else inst
        return wrapper(name, f"{I}.wVerify", f"unwrapOf {pfx} {orig}", inner, facts, "Inst_wVerify_eq", **k)
    B.append(ofh("ldap_des_crypt", "ldap_des_cryptI te", "CRYPT", "[]", "desHasher te", "(des_crypt_facts te)", nul=True, binders="(te : Bool)"))
    B.append(ofh("ldap_bsdi_crypt", "ldap_bsdi_cryptI", "CRYPT", "[]", "bsdiHasher", "bsdi_crypt_facts", nul=True))
    B.append(ofh("ldap_sha1_crypt", "ldap_sha1_cryptI", "CRYPT", "[]", "sha1CryptHasher", "sha1_crypt_facts", nul=True))
    B.append(ofh("ldap_md5_crypt", "ldap_md5_cryptI", "CRYPT", "[]", "md5Hasher false", "(md5_crypt_facts false)", nul=True))
    B.append(ofh("ldap_sha256_crypt", "ldap_sha256_cryptI", "CRYPT", "[]", "sha256Hasher", "sha256_crypt_facts", nul=True))
    B.append(ofh("ldap_sha512_crypt", "ldap_sha512_cryptI", "CRYPT", "[]", "sha512Hasher", "sha512_crypt_facts", nul=True))
    B.append(ofh("bsd_nthash", "bsd_nthashI", "BSD_NT", "[]", "nthashHasher", "nthash_facts", config=False))
    B.append(ofh("ldap_hex_md5", "ldap_hex_md5I", "LDAP_MD5", "[]", "hex_md5Hasher", "(hex_facts hex_md5 Spec.MD5.md5)", config=False))
    B.append(ofh("ldap_hex_sha1", "ldap_hex_sha1I", "LDAP_SHA", "[]", "hex_sha1Hasher", "(hex_facts hex_sha1 Spec.SHA1.sha1)", config=False))
    for a in ("sha1", "sha256", "sha512"):
        A = a.upper()
        B.append(ofh(f"ldap_pbkdf2_{a}", f"ldap_pbkdf2_{a}I", f"LDAP_PBKDF2_{A}_PREFIX", f"PBKDF2_{A}_IDENT", f"pbkdf2_{a}Hasher",
                     f"pbkdf2_{a}_facts", extra=["typeError"]))
    BC = "Props.C08Families.DesBcrypt.bcrypt"
    B.append(inst_custom("ldap_bcrypt", "ldap_bcryptI te", "CRYPT", "bcryptHasher te", BC, nul=True, binders="(te : Bool)"))
    B.append(inst_custom("django_bcrypt", "django_bcryptI te", "DJANGO_BCRYPT_PREFIX", "bcryptHasher te", BC, nul=True, binders="(te : Bool)"))
    emit("Wrap", B)


# ------------------------------------------------------------------ Misc
def misc():
    B = []
    B.append(hasher("fshp", "fshpHasher", "fshp_facts", config=False,
                    settings=[("", "(v : Nat) (hv : v < 4) (salt : Bytes) (hsalt : Bytes.WF salt) (r : Nat) (hr : 1 ≤ r ∧ r ≤ 4294967295)",
                               "fshpSettings v salt r", "fshp_roundtrips v hv salt hsalt r hr")]))
    B.append(hasher("scrypt", "scryptHasher", "scrypt_facts", extra=["typeError"],
                    settings=[("", "(i7 : Bool) (salt : Bytes) (hsalt : ScryptSaltOK i7 salt) (logN r p : Nat) (hc : ScryptCost logN r p)",
                               "scryptSettings i7 salt logN r p", "scrypt_roundtrips_both i7 salt hsalt logN r p hc")]))
    emit("Misc", B)


# ------------------------------------------------------------------ bcrypt_sha256, full (closes the `_partial` of DesBcrypt)
def bcrypt_sha256():
    BS = "(version : Nat) (ident salt : Str) (rounds : Nat) (hv : BsVersionOk version ident) (hsalt : BcCanon 22 salt) (hr : 4 ≤ rounds ∧ rounds ≤ 31)"
    emit("BcryptSha256", [hasher("bcrypt_sha256", "bcryptSha256Hasher", "bcrypt_sha256_facts",
         settings=[("", BS, "bcryptSha256Settings version ident salt rounds", "bcrypt_sha256_roundtrips version ident salt rounds hv hsalt hr")])])


FAMILIES = {"BcryptSha256": bcrypt_sha256, "Misc": misc, "Wrap": wrapfam, "Static": static, "Pbkdf": pbkdf, "DesBcrypt": desbcrypt}

if __name__ == "__main__":
    for k, f in FAMILIES.items():
        f()
