import sys
sys.path.insert(0, '/repo')
import warnings; warnings.simplefilter("ignore")
from passlib import hash as H

def cps(s): return "[" + ", ".join(str(ord(c)) for c in s) + "]"
def bl(b): return "[" + ", ".join(str(x) for x in b) + "]"

out = []
w = out.append
w('''import PasslibVerif.Lemmas.C01StaticAscii
import PasslibVerif.Props.C01Crypt
/-
C01 instantiated end to end for the `Static` family (Model/VerifyFmt/Static.lean): the hasher assembled from the C07 model of
`from_string` / `to_string` and the C02 checksum specification verifies every secret against the hash made from it, identifies that
hash as its own, and answers for any other secret exactly "the checksums are equal" — for every secret `hash` accepts, every
admissible salt, every user name.  Per format X:

  X_sound               the bundle: round trip on every producible checksum, checksum independent of the stored one, identified
  X_roundtrips          `Props.C01.RoundTrips`
  X_verifies_own_hash   whatever `hash` returns verifies True for the same secret
  X_identifies_own_hash … and is identified by the format's C07 `identify`
  X_verifies_other      `verify` of another secret = equality of the two checksums (no collision-freeness claimed)
  X_hash_succeeds       `hash` returns for every encodable secret within the size limit (and the class's own conditions)
  X_verifies_equivalent where the format documents an equivalence (lmhash: case, 14 octets; mysql323: blanks; hex formats: case of
                        the stored string)

Classes with their own `hash` / `verify` (cisco_pix / cisco_asa `hash`, mssql2000 `verify`, htdigest, the PrefixWrapper) are proved about
THOSE functions (`ciscoHashSecret`, `mssql2000Verify`, `htdigestHash` / `htdigestVerify`, `wrapHashSecret` / `wrapVerify`).
-/
namespace Props.C01Static
open Py Model.Handler Model.Formats Model.Verify Model.VerifyCrypt Model.VerifyFmt.Static Props.C01 Lemmas.Formats Lemmas.C01Static
  Lemmas.C01StaticEnc Lemmas.DigestLen

/-! ### checksum shapes -/
theorem map_ok_inv {α β} (x : Res α) (f : α → β) (c : β) (h : x.map f = .ok c) : ∃ a, x = .ok a ∧ c = f a := by
  cases x with
  | error e => simp [Except.map] at h
  | ok a => exact ⟨a, rfl, by simpa [Except.map] using h.symm⟩

theorem hex_shape (n : Nat) (raw : Bytes) (hn : raw.length = n) :
    (Spec.Formats.hexLower raw).length = 2 * n ∧ allIn lowerHex (Spec.Formats.hexLower raw) = true :=
  ⟨by rw [hexLower_length, hn], hexLower_allIn _⟩

theorem hexDigest_shape (H : Bytes → Bytes) (n : Nat) (hH : ∀ x, (H x).length = n) (b : Bytes) (c : Str)
    (hc : (Except.ok (Spec.Formats.hexDigest H b) : Res Str) = .ok c) : c.length = 2 * n ∧ allIn lowerHex c = true := by
  cases hc
  exact hex_shape n _ (hH b)

theorem nthash_shape (b : Bytes) (c : Str) (hc : nthashDigest b = .ok c) : c.length = 32 ∧ allIn lowerHex c = true := by
  unfold nthashDigest at hc
  split at hc
  · cases hc; exact hex_shape 16 _ (md4_length _)
  · cases hc

theorem lmhash_shape (b : Bytes) : (Spec.Formats.lmhash b).length = 32 ∧ allIn lowerHex (Spec.Formats.lmhash b) = true := by
  unfold Spec.Formats.lmhash
  exact hex_shape 16 _ (by rw [List.length_append, Lemmas.C02Formats.lmDesHash_length, Lemmas.C02Formats.lmDesHash_length])

theorem msdccRaw_inv (b : Bytes) (user : Option Bytes) (r : Bytes × Bytes) (h : msdccRawOf b user = .ok r) :
    ∃ u, r = (Spec.MD4.md4 (Spec.Formats.ntHashRaw b ++ u), u) := by
  unfold msdccRawOf at h
  by_cases hu : utf8Ok b = true
  · rw [if_pos hu] at h
    obtain ⟨u, _, rfl⟩ := map_ok_inv _ _ _ h
    exact ⟨u, rfl⟩
  · rw [if_neg hu] at h
    cases h

theorem msdcc_shape (user : Option Bytes) (b : Bytes) (c : Str) (hc : msdccDigest user b = .ok c) :
    c.length = 32 ∧ allIn lowerHex c = true := by
  obtain ⟨r, hr, rfl⟩ := map_ok_inv _ _ _ hc
  obtain ⟨u, rfl⟩ := msdccRaw_inv _ _ _ hr
  exact hex_shape 16 _ (md4_length _)

theorem sha1_hashOK : Lemmas.PbkdfLen.HashOK Spec.SHA1.sha1 20 := fun x => ⟨sha1_length x, sha1_bytes x⟩

theorem msdcc2_shape (user : Option Bytes) (b : Bytes) (c : Str) (hc : msdcc2Digest user b = .ok c) :
    c.length = 32 ∧ allIn lowerHex c = true := by
  unfold msdcc2Digest at hc
  generalize (10240 : Nat) = n at hc
  obtain ⟨r, _, rfl⟩ := map_ok_inv (msdccRawOf b user) _ _ hc
  exact hex_shape 16 _ (Lemmas.PbkdfLen.pbkdf2_props Spec.SHA1.sha1 64 20 sha1_hashOK (by decide) r.1 r.2 n 16).1

theorem mysql323_shape (b : Bytes) : (Spec.Formats.mysql323 b).length = 16 ∧ allIn lowerHex (Spec.Formats.mysql323 b) = true := by
  unfold Spec.Formats.mysql323
  exact hex_shape 8 _ (by rw [List.length_append, beBytes_length, beBytes_length])

theorem mysql41_shape (b : Bytes) : (Spec.Formats.mysql41 b).length = 40 ∧ allIn upperHex (Spec.Formats.mysql41 b) = true :=
  ⟨by rw [Spec.Formats.mysql41, hexUpper_length, sha1_length], hexUpper_allIn _⟩

theorem oracle10_shape (user : Option Bytes) (b : Bytes) (c : Str) (hc : oracle10Digest user b = .ok c) :
    c.length = 16 ∧ allIn upperHex c = true := by
  unfold oracle10Digest at hc
  split at hc
  · cases hc
  · obtain ⟨u, _, rfl⟩ := map_ok_inv _ _ _ hc
    exact ⟨by rw [oracle10OfText, hexUpper_length, beBytes_length], hexUpper_allIn _⟩

theorem postgres_shape (user : Option Bytes) (b : Bytes) (c : Str) (hc : postgresDigest user b = .ok c) :
    c.length = 32 ∧ allIn hexChars c = true := by
  unfold postgresDigest at hc
  split at hc
  · cases hc
  · cases hc
    refine ⟨?_, allIn_mono _ _ lowerHex_sub_hex _ (hexLower_allIn _)⟩
    rw [Spec.Formats.postgresMd5, hexLower_length, md5_length]

theorem utf8Ok_decode (b : Bytes) (h : utf8Ok b = true) : ∃ t, decodeUtf8 b = .ok t := by
  unfold utf8Ok at h
  unfold decodeUtf8
  cases hd : Model.TotpSerial.utf8Decode b with
  | none => simp [hd] at h
  | some t => exact ⟨t, rfl⟩
''')

def std(name, binders, hasher, settings, ident, sound_proof, args=""):
    """the five standard theorems"""
    a = (" " + args) if args else ""
    w(f'''theorem {name}_sound {binders}: Sound {hasher} {ident} {settings} :=
  {sound_proof}
theorem {name}_roundtrips {binders}: RoundTrips {hasher} {settings} := ({name}_sound{a}).rt
/-- {name}: whatever `hash` returns verifies True for the same secret -/
theorem {name}_verifies_own_hash {binders}(s : Secret) (hs : Str) (hh : hashSecret {hasher} s {settings} = .ok hs) :
    verify {hasher} s hs = .ok true := ({name}_sound{a}).verifies_own s hs hh
theorem {name}_identifies_own_hash {binders}(s : Secret) (hs : Str) (hh : hashSecret {hasher} s {settings} = .ok hs) :
    {ident} hs = true := ({name}_sound{a}).identifies s hs hh
theorem {name}_verifies_other {binders}(s s' : Secret) (hs c' : Str) (hh : hashSecret {hasher} s {settings} = .ok hs)
    (hv : s'.len ≤ MAX_PASSWORD_SIZE) (hc' : checksumOf {hasher} false s' {settings} = .ok c') :
    ∃ c, checksumOf {hasher} true s {settings} = .ok c ∧ verify {hasher} s' hs = .ok (c' == c) :=
  ({name}_sound{a}).verifies_other s s' hs c' hh hv hc\'''')

def succeeds(name, binders, hasher, settings, extra, proof_hd):
    w(f'''theorem {name}_hash_succeeds {binders}(s : Secret) (b : Bytes) (hv : s.len ≤ MAX_PASSWORD_SIZE) (hb : s.toBytes = .ok b){extra} :
    ∃ hs, hashSecret {hasher} s {settings} = .ok hs :=
  {proof_hd}''')

EX = []
def example(lines):
    EX.append("example : " + " ∧\n    ".join(lines) + " := by\n  decide +kernel")

PW = "[112, 119]"
# ---------------------------------------------------------------- hex digests
w("/-! ### hex_md4, hex_md5, hex_sha1, hex_sha256, hex_sha512 -/")
for nm, fn, n, lem in [("hex_md4", "Spec.MD4.md4", 16, "md4_length"), ("hex_md5", "Spec.MD5.md5", 16, "md5_length"), ("hex_sha1", "Spec.SHA1.sha1", 20, "sha1_length"),
                       ("hex_sha256", "Spec.SHA256.sha256", 32, "sha256_length"), ("hex_sha512", "Spec.SHA512.sha512", 64, "sha512_length")]:
    std(nm, "", f"{nm}Hasher", "noSettings", f"{nm}.identify", f'hexLower_sound "{nm}" {2*n} (by decide) _ (hexDigest_shape _ {n} {lem})')
    succeeds(nm, "", f"{nm}Hasher", "noSettings", "", f"succeeds_of_digest _ s _ b _ hv hb rfl rfl rfl")
    hs = getattr(H, nm).hash("pw")
    example([f'hashSecret {nm}Hasher (.text {PW}) noSettings = .ok (ofString "{hs}")',
             f'verify {nm}Hasher (.bytes {PW}) (ofString "{hs.upper()}") = .ok true', f'{nm}.identify (ofString "{hs}") = true'])

# ---------------------------------------------------------------- windows
w("/-! ### nthash, lmhash, msdcc, msdcc2 -/")
std("nthash", "", "nthashHasher", "noSettings", "nthash.identify", 'hexLower_sound "nthash" 32 (by decide) _ nthash_shape')
succeeds("nthash", "", "nthashHasher", "noSettings", " (hu : utf8Ok b = true)", "succeeds_of_digest _ s _ b (Spec.Formats.nthash b) hv hb rfl rfl (by simp [nthashHasher, ofFormat, nthashDigest, hu])")
hs = H.nthash.hash("pw")
example([f'hashSecret nthashHasher (.text {PW}) noSettings = .ok (ofString "{hs}")', f'verify nthashHasher (.bytes {PW}) (ofString "{hs}") = .ok true',
         'hashSecret nthashHasher (.bytes [255]) noSettings = .error .valueError'])

w('''theorem lmhash_sound (te : Bool) : Sound (lmhashHasher te) lmhash.identify noSettings :=
  let g := hexLower_sound "lmhash" 32 (by decide) (fun b => .ok (Spec.Formats.lmhash b)) (fun b c hc => by cases hc; exact lmhash_shape b)
  ⟨g.rt, g.ic, g.id⟩
theorem lmhash_roundtrips (te : Bool) : RoundTrips (lmhashHasher te) noSettings := (lmhash_sound te).rt
/-- lmhash (bytes secrets in the OEM code page, or ASCII text): whatever `hash` returns verifies True for the same secret -/
theorem lmhash_verifies_own_hash (te : Bool) (s : Secret) (hs : Str) (hh : hashSecret (lmhashHasher te) s noSettings = .ok hs) :
    verify (lmhashHasher te) s hs = .ok true := (lmhash_sound te).verifies_own s hs hh
theorem lmhash_identifies_own_hash (te : Bool) (s : Secret) (hs : Str) (hh : hashSecret (lmhashHasher te) s noSettings = .ok hs) :
    lmhash.identify hs = true := (lmhash_sound te).identifies s hs hh
theorem lmhash_verifies_other (te : Bool) (s s' : Secret) (hs c' : Str) (hh : hashSecret (lmhashHasher te) s noSettings = .ok hs)
    (hv : s'.len ≤ MAX_PASSWORD_SIZE) (hc' : checksumOf (lmhashHasher te) false s' noSettings = .ok c') :
    ∃ c, checksumOf (lmhashHasher te) true s noSettings = .ok c ∧ verify (lmhashHasher te) s' hs = .ok (c' == c) :=
  (lmhash_sound te).verifies_other s s' hs c' hh hv hc'
/-- `hash` succeeds for every secret when truncation is silent (the default), and for secrets of at most 14 octets under `truncate_error=True` -/
theorem lmhash_hash_succeeds (te : Bool) (s : Secret) (b : Bytes) (hv : s.len ≤ MAX_PASSWORD_SIZE) (hb : s.toBytes = .ok b)
    (ht : te = true → b.length ≤ 14) : ∃ hs, hashSecret (lmhashHasher te) s noSettings = .ok hs :=
  ⟨_, hashSecret_ok _ s _ b (Spec.Formats.lmhash b) hv hb (by
      unfold checkTruncate lmhashHasher
      cases te
      · simp
      · have := ht rfl
        have h2 : ¬ b.length > 14 := by omega
        simp [h2]) (by simp [checkNul, lmhashHasher, ofFormat]) rfl⟩
/-- … and `hash` under `truncate_error=True` refuses a longer secret -/
theorem lmhash_truncate_error (s : Secret) (b : Bytes) (hv : s.len ≤ MAX_PASSWORD_SIZE) (hb : s.toBytes = .ok b) (hl : b.length > 14) :
    hashSecret (lmhashHasher true) s noSettings = .error .truncateError := by
  unfold hashSecret validateSecret checksumOf checkTruncate
  have : ¬ s.len > MAX_PASSWORD_SIZE := by omega
  simp [this, hb, lmhashHasher, hl]
/-- lmhash's documented equivalences: a secret whose first 14 octets agree after upper-casing ASCII letters verifies -/
theorem lmhash_verifies_equivalent (te : Bool) (s s' : Secret) (hs : Str) (b b' : Bytes)
    (hh : hashSecret (lmhashHasher te) s noSettings = .ok hs) (hb : s.toBytes = .ok b) (hv : s'.len ≤ MAX_PASSWORD_SIZE)
    (hb' : s'.toBytes = .ok b')
    (heq : (b'.map Spec.Formats.upperAscii ++ List.replicate 14 0).take 14 = (b.map Spec.Formats.upperAscii ++ List.replicate 14 0).take 14) :
    verify (lmhashHasher te) s' hs = .ok true :=
  (lmhash_sound te).verifies_equivalent s s' hs b b' hh hb hv hb' (by simp [checkNul, lmhashHasher, ofFormat])
    (by show Except.ok (Spec.Formats.lmhash b') = Except.ok (Spec.Formats.lmhash b); rw [lmhash_equiv b' b heq])
/-- in particular: the upper-cased secret and the secret cut after 14 octets -/
theorem lmhash_verifies_upper_and_truncated (te : Bool) (b : Bytes) (hs : Str) (hl : b.length ≤ MAX_PASSWORD_SIZE)
    (hh : hashSecret (lmhashHasher te) (.bytes b) noSettings = .ok hs) :
    verify (lmhashHasher te) (.bytes (b.map Spec.Formats.upperAscii)) hs = .ok true ∧ verify (lmhashHasher te) (.bytes (b.take 14)) hs = .ok true := by
  refine ⟨lmhash_verifies_equivalent te _ _ hs b _ hh rfl (by simp [Secret.len]; omega) rfl ?_,
    lmhash_verifies_equivalent te _ _ hs b _ hh rfl (by simp [Secret.len, List.length_take]; omega) rfl ?_⟩
  · rw [List.map_map]
    congr 2
    apply List.map_congr_left
    intro c _
    exact upperAscii_idem c
  · rw [List.map_take, take_pad]''')
hs = H.lmhash.hash("Password1")
example([f'lmhash.identify (ofString "{hs}") = true', f'lmhash.parse (ofString "{hs.upper()}") = some {{ checksum := some (ofString "{hs}") }}'])

for nm, shape in [("msdcc", "msdcc_shape"), ("msdcc2", "msdcc2_shape")]:
    std(nm, "(user : Option Bytes) ", f"({nm}Hasher user)", "noSettings", f"{nm}.identify", f'hexLower_sound "{nm}" 32 (by decide) _ ({shape} user)', "user")
    w(f'''theorem {nm}_hash_succeeds (u : Bytes) (s : Secret) (b : Bytes) (hv : s.len ≤ MAX_PASSWORD_SIZE) (hb : s.toBytes = .ok b)
    (hu : utf8Ok b = true) (huu : utf8Ok u = true) : ∃ hs, hashSecret ({nm}Hasher (some u)) s noSettings = .ok hs := by
  obtain ⟨t, ht⟩ := utf8Ok_decode u huu
  exact succeeds_of_digest _ s _ b _ hv hb rfl rfl
    (by simp only [{nm}Hasher, ofFormat, {nm}Digest, msdccRawOf, hu, if_true, dccUserOf, userText, ht, Except.map]; rfl)''')
hs = H.msdcc.hash("pw", "Admin")
example([f'hashSecret (msdccHasher (some (ofString "Admin"))) (.text {PW}) noSettings = .ok (ofString "{hs}")',
         f'verify (msdccHasher (some (ofString "ADMIN"))) (.bytes {PW}) (ofString "{hs}") = .ok true',
         f'hashSecret (msdccHasher none) (.text {PW}) noSettings = .error .typeError'])
hs = H.msdcc2.hash("pw", "Admin")
w(f'-- msdcc2 runs 10240 PBKDF2 rounds: the real hash "{hs}" (password "pw", user "Admin") is checked through the compiled driver (tools/corr/c01_static.py)')
example([f'msdcc2.identify (ofString "{hs}") = true', 'utf8Ok (ofString "Admin") = true'])

# ---------------------------------------------------------------- mysql / postgres / oracle
w("/-! ### mysql323, mysql41, postgres_md5, oracle10, oracle11 -/")
std("mysql323", "", "mysql323Hasher", "noSettings", "mysql323.identify", 'hexLower_sound "mysql323" 16 (by decide) _ (fun b c hc => by cases hc; exact mysql323_shape b)')
succeeds("mysql323", "", "mysql323Hasher", "noSettings", "", "succeeds_of_digest _ s _ b _ hv hb rfl rfl rfl")
w('''/-- mysql323's documented equivalence: blanks and tabs in the secret are not significant -/
theorem mysql323_verifies_equivalent (s s' : Secret) (hs : Str) (b b' : Bytes) (hh : hashSecret mysql323Hasher s noSettings = .ok hs)
    (hb : s.toBytes = .ok b) (hv : s'.len ≤ MAX_PASSWORD_SIZE) (hb' : s'.toBytes = .ok b')
    (heq : (b'.filter fun c => !(c == 32 || c == 9)) = (b.filter fun c => !(c == 32 || c == 9))) : verify mysql323Hasher s' hs = .ok true :=
  mysql323_sound.verifies_equivalent s s' hs b b' hh hb hv hb' (by simp [checkNul, mysql323Hasher, ofFormat])
    (by show Except.ok (Spec.Formats.mysql323 b') = Except.ok (Spec.Formats.mysql323 b)
        rw [← mysql323_blanks b', ← mysql323_blanks b, heq])''')
hs = H.mysql323.hash("p w")
example([f'hashSecret mysql323Hasher (.text [112, 32, 119]) noSettings = .ok (ofString "{hs}")', f'verify mysql323Hasher (.bytes {PW}) (ofString "{hs}") = .ok true'])

std("mysql41", "", "mysql41Hasher", "noSettings", "mysql41.identify", 'hexUpper_sound "mysql41" [42] star_ascii star_noLower 40 (by decide) _ (fun b c hc => by cases hc; exact mysql41_shape b)')
succeeds("mysql41", "", "mysql41Hasher", "noSettings", "", "succeeds_of_digest _ s _ b _ hv hb rfl rfl rfl")
hs = H.mysql41.hash("pw")
example([f'hashSecret mysql41Hasher (.text {PW}) noSettings = .ok (ofString "{hs}")', f'verify mysql41Hasher (.bytes {PW}) (ofString "{hs.lower()}") = .ok true'])

std("postgres_md5", "(user : Option Bytes) ", "(postgres_md5Hasher user)", "noSettings", "postgres_md5.identify",
    'fixed_sound "postgres_md5" (ofString "md5") 32 (by decide) hexChars _ (postgres_shape user)', "user")
w('''theorem postgres_md5_hash_succeeds (u : Bytes) (s : Secret) (b : Bytes) (hv : s.len ≤ MAX_PASSWORD_SIZE) (hb : s.toBytes = .ok b) :
    ∃ hs, hashSecret (postgres_md5Hasher (some u)) s noSettings = .ok hs :=
  succeeds_of_digest _ s _ b _ hv hb rfl rfl rfl
/-- without the `user` keyword the class raises TypeError -/
theorem postgres_md5_needs_user (s : Secret) (b : Bytes) (hv : s.len ≤ MAX_PASSWORD_SIZE) (hb : s.toBytes = .ok b) :
    hashSecret (postgres_md5Hasher none) s noSettings = .error .typeError := by
  unfold hashSecret validateSecret checksumOf checkTruncate checkNul
  have : ¬ s.len > MAX_PASSWORD_SIZE := by omega
  simp [this, hb, postgres_md5Hasher, ofFormat, postgresDigest]''')
hs = H.postgres_md5.hash("pw", user="user")
example([f'hashSecret (postgres_md5Hasher (some (ofString "user"))) (.text {PW}) noSettings = .ok (ofString "{hs}")',
         f'verify (postgres_md5Hasher (some (ofString "user"))) (.bytes {PW}) (ofString "{hs}") = .ok true',
         f'verify (postgres_md5Hasher (some (ofString "User"))) (.bytes {PW}) (ofString "{hs}") = .ok false'])

std("oracle10", "(user : Option Bytes) ", "(oracle10Hasher user)", "noSettings", "oracle10.identify",
    'hexUpper_sound "oracle10" [] nil_ascii nil_noLower 16 (by decide) _ (oracle10_shape user)', "user")
w('''theorem oracle10_hash_succeeds (u : Bytes) (s : Secret) (b : Bytes) (hv : s.len ≤ MAX_PASSWORD_SIZE) (hb : s.toBytes = .ok b)
    (hu : utf8Ok b = true) (huu : utf8Ok u = true) : ∃ hs, hashSecret (oracle10Hasher (some u)) s noSettings = .ok hs := by
  obtain ⟨t, ht⟩ := utf8Ok_decode u huu
  obtain ⟨t2, ht2⟩ := utf8Ok_decode b hu
  exact succeeds_of_digest _ s _ b _ hv hb rfl rfl
    (by simp only [oracle10Hasher, ofFormat, oracle10Digest, ht2, userText, ht, Except.map]; rfl)''')
hs = H.oracle10.hash("pw", user="sys")
example([f'oracle10.identify (ofString "{hs}") = true', 'utf8Ok (ofString "sys") = true'])
w(f'-- the real hash "{hs}" (password "pw", user "sys": two DES-CBC passes) is checked through the compiled driver')

std("oracle11", "(salt : Str) (hl : salt.length = 20) (hx : allIn upperHex salt = true) ", "oracle11Hasher", "(saltSettings [] salt)", "oracle11.identify",
    "Lemmas.C01Static.oracle11_sound salt hl hx", "salt hl hx")
w('''theorem oracle11_hash_succeeds (salt : Str) (hl : salt.length = 20) (hx : allIn upperHex salt = true) (s : Secret) (b : Bytes)
    (hv : s.len ≤ MAX_PASSWORD_SIZE) (hb : s.toBytes = .ok b) : ∃ hs, hashSecret oracle11Hasher s (saltSettings [] salt) = .ok hs := by
  obtain ⟨c, hc⟩ := oracle11_digest_ok b salt hl hx
  exact succeeds_of_digest _ s _ b c hv hb rfl rfl hc''')
salt = "01234567890123456789"
hs = H.oracle11.using(salt=salt).hash("pw")
example([f'hashSecret oracle11Hasher (.text {PW}) (saltSettings [] (ofString "{salt}")) = .ok (ofString "{hs}")',
         f'verify oracle11Hasher (.bytes {PW}) (ofString "{hs.lower()}") = .ok true',
         f'(ofString "{salt}").length = 20 ∧ allIn upperHex (ofString "{salt}") = true'])

# ---------------------------------------------------------------- cisco
w('''/-! ### cisco_pix, cisco_asa (`hash` = `ciscoHashSecret`: PasswordSizeError beyond 16 / 32 octets) -/
theorem cisco_roundtrips (asa : Bool) (user : Option Bytes) : RoundTrips (ciscoHasher asa user) noSettings := (cisco_sound asa user).rt
/-- whatever `hash` returns verifies True for the same secret — every user name, every secret within the size limit -/
theorem cisco_verifies_own_hash (asa : Bool) (user : Option Bytes) (s : Secret) (hs : Str) (hh : ciscoHashSecret asa user s = .ok hs) :
    verify (ciscoHasher asa user) s hs = .ok true :=
  (cisco_sound asa user).verifies_own s hs (cisco_hash_inv asa user s hs hh).1
theorem cisco_identifies_own_hash (asa : Bool) (user : Option Bytes) (s : Secret) (hs : Str) (hh : ciscoHashSecret asa user s = .ok hs) :
    (if asa then cisco_asa else cisco_pix).identify hs = true :=
  (cisco_sound asa user).identifies s hs (cisco_hash_inv asa user s hs hh).1
theorem cisco_verifies_other (asa : Bool) (user : Option Bytes) (s s' : Secret) (hs c' : Str) (hh : ciscoHashSecret asa user s = .ok hs)
    (hv : s'.len ≤ MAX_PASSWORD_SIZE) (hc' : checksumOf (ciscoHasher asa user) false s' noSettings = .ok c') :
    ∃ c, checksumOf (ciscoHasher asa user) true s noSettings = .ok c ∧ verify (ciscoHasher asa user) s' hs = .ok (c' == c) :=
  (cisco_sound asa user).verifies_other s s' hs c' (cisco_hash_inv asa user s hs hh).1 hv hc'
theorem cisco_hash_succeeds (asa : Bool) (user : Option Bytes) (s : Secret) (b : Bytes) (hv : s.len ≤ MAX_PASSWORD_SIZE)
    (hb : s.toBytes = .ok b) (hl : b.length ≤ ciscoLimit asa) : ∃ hs, ciscoHashSecret asa user s = .ok hs := by
  obtain ⟨hs, h⟩ := succeeds_of_digest (ciscoHasher asa user) s noSettings b _ hv hb rfl rfl rfl
  have : ¬ b.length > ciscoLimit asa := by omega
  exact ⟨hs, by simp [ciscoHashSecret, h, hb, this]⟩
/-- beyond the limit `hash` raises PasswordSizeError -/
theorem cisco_oversize_refused (asa : Bool) (user : Option Bytes) (s : Secret) (b : Bytes) (hv : s.len ≤ MAX_PASSWORD_SIZE)
    (hb : s.toBytes = .ok b) (hl : b.length > ciscoLimit asa) : ciscoHashSecret asa user s = .error .sizeError := by
  obtain ⟨hs, h⟩ := succeeds_of_digest (ciscoHasher asa user) s noSettings b _ hv hb rfl rfl rfl
  simp [ciscoHashSecret, h, hb, hl]
/-- what is hashed within the limit is the published construction -/
theorem cisco_digest_eq_spec (asa : Bool) (user : Option Bytes) (b : Bytes) (hl : b.length ≤ ciscoLimit asa) :
    ciscoDigest asa user b = if asa then Spec.Formats.ciscoAsa b (user.getD []) else Spec.Formats.ciscoPix b (user.getD []) :=
  ciscoDigest_eq_spec asa user b hl''')
hp = H.cisco_pix.hash("pw", user="user"); ha = H.cisco_asa.hash("0123456789abcdefq", user="365")
example([f'ciscoHashSecret false (some (ofString "user")) (.text {PW}) = .ok (ofString "{hp}")',
         f'verify (ciscoHasher false (some (ofString "user"))) (.bytes {PW}) (ofString "{hp}") = .ok true',
         f'ciscoHashSecret true (some (ofString "365")) (.text (ofString "0123456789abcdefq")) = .ok (ofString "{ha}")',
         f'ciscoHashSecret false none (.text (ofString "0123456789abcdefq")) = .error .sizeError'])

# ---------------------------------------------------------------- ldap
w("/-! ### ldap_md5, ldap_sha1, ldap_salted_md5, ldap_salted_sha1, ldap_salted_sha256, ldap_salted_sha512 -/")
for nm, ident, cst in [("ldap_md5", "{MD5}", "LDAP_MD5"), ("ldap_sha1", "{SHA}", "LDAP_SHA")]:
    std(nm, "", f"{nm}Hasher", f"(noSettings {cst})", f"{nm}.identify", f'ldapB64_sound "{nm}" (ofString "{ident}") (by decide) _ (fun b c hc => by cases hc; exact base64_allIn _)')
    succeeds(nm, "", f"{nm}Hasher", f"(noSettings {cst})", "", "succeeds_of_digest _ s _ b _ hv hb rfl rfl rfl")
    hs = getattr(H, nm).hash("pw")
    example([f'hashSecret {nm}Hasher (.text {PW}) (noSettings {cst}) = .ok (ofString "{hs}")', f'verify {nm}Hasher (.bytes {PW}) (ofString "{hs}") = .ok true'])

SB = "(salt : Bytes) (h4 : 4 ≤ salt.length) (h16 : salt.length ≤ 16) (hw : Bytes.WF salt) "
for nm, ident, mn, cs, fn, l1, l2 in [("ldap_salted_md5", "{SMD5}", 27, 16, "Spec.MD5.md5", "md5_length", "md5_bytes"), ("ldap_salted_sha1", "{SSHA}", 32, 20, "Spec.SHA1.sha1", "sha1_length", "sha1_bytes"),
                              ("ldap_salted_sha256", "{SSHA256}", 48, 32, "Spec.SHA256.sha256", "sha256_length", "sha256_bytes"), ("ldap_salted_sha512", "{SSHA512}", 91, 64, "Spec.SHA512.sha512", "sha512_length", "sha512_bytes")]:
    st = f'(saltSettings (ofString "{ident}") salt)'
    std(nm, SB, f"{nm}Hasher", st, f"{nm}.identify",
        f'ldapSalted_sound "{nm}" (ofString "{ident}") {mn} {cs} (by decide) (by decide) (by decide) {fn} (fun x => ⟨{l1} x, {l2} x⟩) salt h4 h16 hw', "salt h4 h16 hw")
    w(f'''theorem {nm}_hash_succeeds (salt : Bytes) (s : Secret) (b : Bytes) (hv : s.len ≤ MAX_PASSWORD_SIZE) (hb : s.toBytes = .ok b) :
    ∃ hs, hashSecret {nm}Hasher s {st} = .ok hs := succeeds_of_digest _ s _ b _ hv hb rfl rfl rfl''')
    salt = bytes([1, 2, 3, 4, 250])
    hs = getattr(H, nm).using(salt=salt).hash("pw")
    example([f'hashSecret {nm}Hasher (.text {PW}) (saltSettings (ofString "{ident}") {bl(salt)}) = .ok (ofString "{hs}")',
             f'verify {nm}Hasher (.bytes {PW}) (ofString "{hs}") = .ok true'])
w('''/-- the rendered string is the published construction `ident + base64(H(password ‖ salt) ‖ salt)` -/
theorem ldap_salted_render_eq_spec (ident : Str) (H : Bytes → Bytes) (b salt : Bytes) :
    ldapSaltedRender { saltSettings ident salt with checksum := some (H (b ++ salt)) } = ident ++ Spec.Formats.ldapSalted H b salt :=
  ldapSalted_render_eq_spec ident H b salt''')

# ---------------------------------------------------------------- mssql
w("/-! ### mssql2000 (own `verify`: `mssql2000Verify`), mssql2005 -/")
MB = "(salt : Bytes) (hl : salt.length = 4) (hw : Bytes.WF salt) "
std("mssql2005", MB, "mssql2005Hasher", "(saltSettings [] salt)", "mssql2005.identify", "Lemmas.C01Static.mssql2005_sound salt hl hw", "salt hl hw")
w('''theorem mssql2005_hash_succeeds (salt : Bytes) (s : Secret) (b : Bytes) (hv : s.len ≤ MAX_PASSWORD_SIZE) (hb : s.toBytes = .ok b)
    (hu : utf8Ok b = true) : ∃ hs, hashSecret mssql2005Hasher s (saltSettings [] salt) = .ok hs := by
  obtain ⟨t, ht⟩ := utf8Ok_decode b hu
  exact succeeds_of_digest _ s _ b _ hv hb rfl rfl (by simp only [mssql2005Hasher, ofFormat, mssql2005Digest, ht, Except.map]; rfl)
theorem mssql2000_roundtrips (salt : Bytes) (hl : salt.length = 4) (hw : Bytes.WF salt) : RoundTrips mssql2000Hasher (saltSettings [] salt) :=
  (Lemmas.C01Static.mssql2000_sound salt hl hw).rt
/-- mssql2000: whatever `hash` returns is accepted by the class's own `verify` (which compares the upper-cased half only) -/
theorem mssql2000_verifies_own_hash (salt : Bytes) (hl : salt.length = 4) (hw : Bytes.WF salt) (s : Secret) (hs : Str)
    (hh : hashSecret mssql2000Hasher s (saltSettings [] salt) = .ok hs) : mssql2000Verify s hs = .ok true :=
  mssql2000_verify_own s salt hs hl hw hh
theorem mssql2000_identifies_own_hash (salt : Bytes) (hl : salt.length = 4) (hw : Bytes.WF salt) (s : Secret) (hs : Str)
    (hh : hashSecret mssql2000Hasher s (saltSettings [] salt) = .ok hs) : mssql2000.identify hs = true :=
  (Lemmas.C01Static.mssql2000_sound salt hl hw).identifies s hs hh
theorem mssql2000_hash_succeeds (salt : Bytes) (s : Secret) (b : Bytes) (hv : s.len ≤ MAX_PASSWORD_SIZE) (hb : s.toBytes = .ok b)
    (hu : utf8Ok b = true) : ∃ hs, hashSecret mssql2000Hasher s (saltSettings [] salt) = .ok hs := by
  obtain ⟨t, ht⟩ := utf8Ok_decode b hu
  exact succeeds_of_digest _ s _ b _ hv hb rfl rfl (by simp only [mssql2000Hasher, ofFormat, mssql2000Digest, ht, Except.map]; rfl)''')
salt = bytes([1, 2, 3, 4])
h5 = H.mssql2005.using(salt=salt).hash("pw"); h0 = H.mssql2000.using(salt=salt).hash("pw")
example([f'hashSecret mssql2005Hasher (.text {PW}) (saltSettings [] {bl(salt)}) = .ok (ofString "{h5}")', f'verify mssql2005Hasher (.bytes {PW}) (ofString "{h5}") = .ok true'])
example([f'hashSecret mssql2000Hasher (.text {PW}) (saltSettings [] {bl(salt)}) = .ok (ofString "{h0}")', f'mssql2000Verify (.bytes [80, 87]) (ofString "{h0}") = .ok true'])

# ---------------------------------------------------------------- wrappers
w('''/-! ### PrefixWrapper: bsd_nthash, ldap_hex_md5, ldap_hex_sha1, ldap_md5_crypt, ldap_sha256_crypt, ldap_sha512_crypt
(`hash` = `wrapHashSecret`, `verify` = `wrapVerify`: the prefix is checked before the secret's size) -/''')
for nm, pfx, inner, innerF in [("bsd_nthash", "BSD_NT", "nthash", "nthash"), ("ldap_hex_md5", "LDAP_MD5", "hex_md5", "hex_md5"), ("ldap_hex_sha1", "LDAP_SHA", "hex_sha1", "hex_sha1")]:
    w(f'''theorem {nm}_verifies_own_hash (s : Secret) (hs : Str) (hh : wrapHashSecret {pfx} {inner}Hasher s noSettings = .ok hs) :
    wrapVerify {pfx} {inner}Hasher s hs = .ok true :=
  wrap_verifies_own {pfx} _ s _ hs (fun hs0 h0 => {inner}_verifies_own_hash s hs0 h0) hh
theorem {nm}_identifies_own_hash (s : Secret) (hs : Str) (hh : wrapHashSecret {pfx} {inner}Hasher s noSettings = .ok hs) :
    {nm}.identify hs = true :=
  wrap_identifies_own "{nm}" {pfx} {innerF} _ s _ hs (fun hs0 h0 => {inner}_identifies_own_hash s hs0 h0) hh''')
    extra = " (hu : utf8Ok b = true)" if nm == "bsd_nthash" else ""
    arg = " hu" if nm == "bsd_nthash" else ""
    w(f'''theorem {nm}_hash_succeeds (s : Secret) (b : Bytes) (hv : s.len ≤ MAX_PASSWORD_SIZE) (hb : s.toBytes = .ok b){extra} :
    ∃ hs, wrapHashSecret {pfx} {inner}Hasher s noSettings = .ok hs := wrap_succeeds {pfx} _ s _ ({inner}_hash_succeeds s b hv hb{arg})''')
    hs = getattr(H, nm).hash("pw")
    example([f'wrapHashSecret {pfx} {inner}Hasher (.text {PW}) noSettings = .ok (ofString "{hs}")', f'wrapVerify {pfx} {inner}Hasher (.bytes {PW}) (ofString "{hs}") = .ok true',
             f'{nm}.identify (ofString "{hs}") = true'])

w('''theorem ldap_md5_crypt_verifies_own_hash (s : Secret) (salt hs : Str) (hsalt : allIn h64 salt = true) (hl : salt.length ≤ 8)
    (hh : wrapHashSecret CRYPT (md5Hasher false) s { ident := md5Ident false, salt := some salt } = .ok hs) :
    wrapVerify CRYPT (md5Hasher false) s hs = .ok true :=
  wrap_verifies_own CRYPT _ s _ hs (fun hs0 h0 => Props.C01Crypt.md5_crypt_verifies_own_hash false s salt hs0 hsalt hl h0) hh
theorem ldap_md5_crypt_hash_succeeds (s : Secret) (b : Bytes) (salt : Str) (hv : s.len ≤ MAX_PASSWORD_SIZE) (hb : s.toBytes = .ok b) (h0 : 0 ∉ b) :
    ∃ hs, wrapHashSecret CRYPT (md5Hasher false) s { ident := md5Ident false, salt := some salt } = .ok hs :=
  wrap_succeeds CRYPT _ s _ (Props.C01Crypt.md5_crypt_hash_succeeds false s b salt hv hb h0)
theorem ldap_sha256_crypt_verifies_own_hash (s : Secret) (salt hs : Str) (rounds : Nat) (hsalt : allIn h64 salt = true)
    (hl : salt.length ≤ 16) (hr : 1000 ≤ rounds ∧ rounds ≤ 999999999)
    (hh : wrapHashSecret CRYPT sha256Hasher s (sha2Settings (ofString "$5$") salt rounds) = .ok hs) : wrapVerify CRYPT sha256Hasher s hs = .ok true :=
  wrap_verifies_own CRYPT _ s _ hs (fun hs0 h0 => Props.C01Crypt.sha256_crypt_verifies_own_hash s salt hs0 rounds hsalt hl hr h0) hh
theorem ldap_sha512_crypt_verifies_own_hash (s : Secret) (salt hs : Str) (rounds : Nat) (hsalt : allIn h64 salt = true)
    (hl : salt.length ≤ 16) (hr : 1000 ≤ rounds ∧ rounds ≤ 999999999)
    (hh : wrapHashSecret CRYPT sha512Hasher s (sha2Settings (ofString "$6$") salt rounds) = .ok hs) : wrapVerify CRYPT sha512Hasher s hs = .ok true :=
  wrap_verifies_own CRYPT _ s _ hs (fun hs0 h0 => Props.C01Crypt.sha512_crypt_verifies_own_hash s salt hs0 rounds hsalt hl hr h0) hh
/-- every wrapper: a string without the prefix is refused (ValueError) whatever the secret, a string with it is verified by the wrapped hasher -/
theorem wrapper_verify (pfx : Str) (h : Hasher) (s : Secret) (hs r : Str) :
    (stripPrefix pfx hs = none → wrapVerify pfx h s hs = .error .valueError) ∧ wrapVerify pfx h s (pfx ++ r) = verify h s r :=
  ⟨fun hn => by simp [wrapVerify, hn], wrap_verify_eq pfx h s r⟩''')
hs = H.ldap_md5_crypt.using(salt="ab").hash("pw")
example([f'ldap_md5_crypt.identify (ofString "{hs}") = true', 'allIn h64 (ofString "ab") = true'])
w(f'-- the real hashes of the three {{CRYPT}} wrappers (e.g. "{hs}") are checked through the compiled driver')

# ---------------------------------------------------------------- htdigest
w('''/-! ### htdigest (its own `hash` / `verify`) -/
/-- htdigest: whatever `hash` returns verifies True for the same secret, user and realm -/
theorem htdigest_verifies_own_hash (user realm : Bytes) (s : Secret) (hs : Str) (hh : htdigestHash user realm s = .ok hs) :
    htdigestVerify user realm s hs = .ok true := htdigest_verify_own user realm s hs hh
theorem htdigest_identifies_own_hash (user realm : Bytes) (s : Secret) (hs : Str) (hh : htdigestHash user realm s = .ok hs) :
    htdigest.identify hs = true := by
  have := htdigest_verify_own user realm s hs hh
  unfold htdigestVerify at this
  by_cases hok : htdigestOk hs = true
  · exact hok
  · simp [hok] at this
theorem htdigest_hash_succeeds (user realm : Bytes) (s : Secret) (b : Bytes) (hv : s.len ≤ MAX_PASSWORD_SIZE) (hb : s.toBytes = .ok b) :
    htdigestHash user realm s = .ok (Spec.Formats.htdigest b user realm) := by
  unfold htdigestHash validateSecret
  have : ¬ s.len > MAX_PASSWORD_SIZE := by omega
  simp [this, hb]
/-- `verify` of another secret: equality of the two digests -/
theorem htdigest_verifies_other (user realm : Bytes) (s' : Secret) (b' : Bytes) (hs : Str) (hok : htdigestOk hs = true)
    (hv : s'.len ≤ MAX_PASSWORD_SIZE) (hb' : s'.toBytes = .ok b') :
    htdigestVerify user realm s' hs = .ok (Spec.Formats.htdigest b' user realm == hs) := by
  unfold htdigestVerify
  simp [hok, htdigest_hash_succeeds user realm s' b' hv hb']''')
hs = H.htdigest.hash("pw", "user", "realm")
example([f'htdigestHash (ofString "user") (ofString "realm") (.text {PW}) = .ok (ofString "{hs}")',
         f'htdigestVerify (ofString "user") (ofString "realm") (.bytes {PW}) (ofString "{hs}") = .ok true',
         f'htdigestVerify (ofString "user") (ofString "realm") (.bytes {PW}) (ofString "{hs.upper()}") = .error .valueError'])

# ---------------------------------------------------------------- case folding of the stored string
w('''/-! ### the stored string's case (hex formats): an ASCII hash string and its other-case form verify alike -/
theorem hexLower_verify_upper (name : String) (n : Nat) (d : Bytes → Parsed → Res Str) (s : Secret) (hs : Str) (ha : Lemmas.PyStr.Ascii hs) :
    verify (ofFormat (hexLowerFormat name n) d) s (pyUpper hs) = verify (ofFormat (hexLowerFormat name n) d) s hs := by
  unfold verify ofFormat
  simp only [hexLower_parse_upper name n hs ha]
theorem mysql41_verify_lower (s : Secret) (hs : Str) (ha : Lemmas.PyStr.Ascii hs) : verify mysql41Hasher s (pyLower hs) = verify mysql41Hasher s hs := by
  unfold verify mysql41Hasher ofFormat
  simp only [mysql41_parse_lower hs ha]
theorem oracle10_verify_lower (user : Option Bytes) (s : Secret) (hs : Str) (ha : Lemmas.PyStr.Ascii hs) :
    verify (oracle10Hasher user) s (pyLower hs) = verify (oracle10Hasher user) s hs := by
  unfold verify oracle10Hasher ofFormat
  simp only [oracle10_parse_lower hs ha]

/-! ### the checksum computed IS the published specification (Spec/Formats) — where the class maps case with `str.lower()` /
`str.upper()` (full Unicode in the model), for ASCII input, the domain of the Spec's case mapping; everywhere else by definition -/
theorem nthash_digest_eq_spec (b : Bytes) (hu : utf8Ok b = true) : nthashDigest b = .ok (Spec.Formats.nthash b) := by
  simp [nthashDigest, hu]
theorem msdcc_digest_eq_spec (u b : Bytes) (hu : Lemmas.PyStr.Ascii u) (hb : utf8Ok b = true) :
    msdccDigest (some u) b = .ok (Spec.Formats.msdcc b u) := msdcc_eq_spec u b hu hb
theorem msdcc2_digest_eq_spec (u b : Bytes) (hu : Lemmas.PyStr.Ascii u) (hb : utf8Ok b = true) :
    msdcc2Digest (some u) b = .ok (Spec.Formats.msdcc2 b u) := msdcc2_eq_spec u b hu hb
theorem oracle10_digest_eq_spec (u b : Bytes) (hu : Lemmas.PyStr.Ascii u) (hb : Lemmas.PyStr.Ascii b) :
    oracle10Digest (some u) b = .ok (Spec.Formats.oracle10 b u) := oracle10_eq_spec u b hu hb
theorem mssql2005_string_eq_spec (b salt : Bytes) (hb : Lemmas.PyStr.Ascii b) :
    (mssql2005Digest b (saltSettings [] salt)).map (fun c => mssqlRender { saltSettings [] salt with checksum := some c }) =
      .ok (Spec.Formats.mssql2005 b salt) := mssql2005_eq_spec b salt hb
theorem mssql2000_string_eq_spec (b salt : Bytes) (hb : Lemmas.PyStr.Ascii b) :
    (mssql2000Digest b (saltSettings [] salt)).map (fun c => mssqlRender { saltSettings [] salt with checksum := some c }) =
      .ok (Spec.Formats.mssql2000 b salt) := mssql2000_eq_spec b salt hb

end Props.C01Static''')
open('/tmp/wp/static/verif/lean/PasslibVerif/Props/C01Static.lean', 'w').write("\n".join(out) + "\n")
HEAD = '''import PasslibVerif.Props.C01Static
/-
C01, `Static` family — non-vacuity: the hypotheses of the theorems of Props/C01Static.lean instantiated on REAL hashes made by the
library (password "pw" unless said otherwise), evaluated by the kernel: `hash` of the model returns the library's string, `verify`
accepts it for the equivalent bytes / other-case string, the salts used satisfy the well-formedness hypotheses.
(msdcc2, oracle10, lmhash and the {CRYPT} wrappers are too slow for kernel evaluation: their real hashes go through the compiled driver
in tools/corr/c01_static.py; here only `identify` / the hypotheses are instantiated.)
-/
namespace Props.C01Static
open Py Model.Handler Model.Formats Model.Verify Model.VerifyCrypt Model.VerifyFmt.Static

'''
k = next(i for i, e in enumerate(EX) if "ldap_md5Hasher" in e)
open('/tmp/wp/static/verif/lean/PasslibVerif/Props/C01StaticExamples.lean', 'w').write(HEAD + "\n\n".join(EX[:k]) + "\n\nend Props.C01Static\n")
open('/tmp/wp/static/verif/lean/PasslibVerif/Props/C01StaticExamples2.lean', 'w').write(HEAD.replace("non-vacuity:", "non-vacuity (second half: LDAP digests, MS-SQL, wrappers, htdigest):") + "\n\n".join(EX[k:]) + "\n\nend Props.C01Static\n")
print(len(out))
