/-! ### atlassian_pbkdf2_sha1 has no configuration strings: whatever its parser accepts carries a checksum -/
theorem atlassian_pbkdf2_sha1_parse_has_checksum (hs : Str) (p : Parsed) (hp : atlassianHasher.parse hs = .ok p) :
    ∃ c, p.checksum = some c := by
  have h := Lemmas.C08Crypt.toRes_ok _ p hp
  unfold atlassianParse at h
  simp only [Option.bind_eq_some_iff, Option.map_eq_some_iff] at h
  obtain ⟨body, _, data, _, chk', hchk, s, _, hp⟩ := h
  subst hp
  cases chk' with
  | some c => exact ⟨c, rfl⟩
  | none => simp [normChkOpt] at hchk

end Props.C08Families.Pbkdf
