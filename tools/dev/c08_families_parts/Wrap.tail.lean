/-! ### plaintext / roundup_plaintext

plaintext has no parser and no checksum: the stored string IS the secret.  `X_altered_checksum_rejected`, `X_same_parse_same_answer`,
`X_config_string_value_error` cannot be stated in the `Hasher` form (there is no `parse`); what corresponds to them is stated on the
UTF-8 encoding `consteq` compares: a stored string with ANOTHER encoding is rejected, two stored strings with the same encoding are
indistinguishable (and `utf8` is injective on encodable text, so this means: the same string). -/
theorem plaintext_verify_total (s : Secret) (hs : Str) : Total [] false (plaintextVerify s hs) := plaintextVerify_total s hs
theorem plaintext_no_internal_error (s : Secret) (hs : Str) (e : ErrKind) (h1 : e ≠ .valueError) (h2 : e ≠ .sizeError) (h3 : e ≠ .nullError) :
    plaintextVerify s hs ≠ .error e := (plaintextVerify_total s hs).not_other e h1 h2 h3 (by simp)
theorem plaintext_altered_rejected_partial (s : Secret) (hs hs' : Str) (y : Bytes) (hy : utf8 hs' = some y) (hne : utf8 hs' ≠ utf8 hs)
    (hv : plaintextVerify s hs = .ok true) : plaintextVerify s hs' = .ok false := plaintextVerify_altered_rejected s hs hs' y hy hne hv
theorem plaintext_same_encoding_same_answer (s : Secret) (h1 h2 : Str) (he : utf8 h1 = utf8 h2) :
    plaintextVerify s h1 = plaintextVerify s h2 := plaintextVerify_same_encoding s h1 h2 he

theorem roundup_plaintext_verify_total (s : Secret) (hs : Str) : Total [] false (roundup_plaintextI.wVerify s hs) := by
  rw [Inst_wVerify_eq]; exact unwrap_total _ _ (fun s u => plaintextVerify_total s u) s hs
theorem roundup_plaintext_no_internal_error (s : Secret) (hs : Str) (e : ErrKind) (h1 : e ≠ .valueError) (h2 : e ≠ .sizeError)
    (h3 : e ≠ .nullError) : roundup_plaintextI.wVerify s hs ≠ .error e :=
  (roundup_plaintext_verify_total s hs).not_other e h1 h2 h3 (by simp)
theorem roundup_plaintext_no_prefix_value_error (s : Secret) (hs : Str) (hu : unwrapOf ROUNDUP_PLAINTEXT [] hs = none) :
    roundup_plaintextI.wVerify s hs = .error .valueError := wVerify_no_prefix roundup_plaintextI s hs hu
theorem roundup_plaintext_altered_rejected_partial (s : Secret) (hs hs' u u' : Str) (y : Bytes)
    (hu : unwrapOf ROUNDUP_PLAINTEXT [] hs = some u) (hu' : unwrapOf ROUNDUP_PLAINTEXT [] hs' = some u')
    (hy : utf8 u' = some y) (hne : utf8 u' ≠ utf8 u) (hv : roundup_plaintextI.wVerify s hs = .ok true) :
    roundup_plaintextI.wVerify s hs' = .ok false := by
  rw [wVerify_of_unwrap roundup_plaintextI s hs u hu] at hv; rw [wVerify_of_unwrap roundup_plaintextI s hs' u' hu']
  exact plaintextVerify_altered_rejected s u u' y hy hne hv
theorem roundup_plaintext_same_encoding_same_answer (s : Secret) (h1 h2 u1 u2 : Str) (hu1 : unwrapOf ROUNDUP_PLAINTEXT [] h1 = some u1)
    (hu2 : unwrapOf ROUNDUP_PLAINTEXT [] h2 = some u2) (he : utf8 u1 = utf8 u2) :
    roundup_plaintextI.wVerify s h1 = roundup_plaintextI.wVerify s h2 := by
  rw [wVerify_of_unwrap roundup_plaintextI s h1 u1 hu1, wVerify_of_unwrap roundup_plaintextI s h2 u2 hu2]
  exact plaintextVerify_same_encoding s u1 u2 he

end Props.C08Families.Wrap
