/-! ### where the digests are defined (parser-acceptance lemmas, Lemmas/C08FamiliesMisc.lean) -/
theorem fshp_digest_defined (hs : Str) (p : Parsed) (b : Bytes) (hp : fshpHasher.parse hs = .ok p) : ∃ c, fshpHasher.digest b p = .ok c :=
  fshp_digest_defined_of_parse hs p b hp
theorem fshp_has_no_config_strings (hs : Str) (p : Parsed) (hp : fshpHasher.parse hs = .ok p) : ∃ c, p.checksum = some c :=
  fshp_parse_has_checksum hs p hp
theorem scrypt_digest_defined (hs : Str) (p : Parsed) (b : Bytes) (hp : scryptHasher.parse hs = .ok p)
    (hrp : extraNat p "block_size" * extraNat p "parallelism" ≤ SCRYPT_MAX_RP) : ∃ c, scryptHasher.digest b p = .ok c :=
  scrypt_digest_defined_of_parse hs p b hp hrp
theorem scrypt_digest_error_value (b : Bytes) (p : Parsed) (e : ErrKind) (h : scryptHasher.digest b p = .error e) : e = .valueError :=
  scrypt_digest_error_is_value_error b p e h

/-! ### scram: its own `verify(secret, hash, full=False)`

`prep` = SASLprep on the bytes of the secret, a parameter of the model; the statements hold for every `prep` whose only error is the model's
NotImplementedError (`asciiPrep`: outside printable ASCII the stringprep tables are not modelled).

FULL statement (not proved): `Total [.typeError, .unknownHash, .notImplemented] false (scramVerify prep full s hs)`.
Proved: the `_partial` form with `SCRAM = [.typeError, .unknownHash, .runtimeError, .notImplemented, .assertionError]`:
  .typeError / .unknownHash   `norm_hash_name` on the digest names of the stored string (hashlib's TypeError for reserved names or a NUL;
                              UnknownHashError, a ValueError subclass) — reachable, documented kinds;
  .notImplemented             the model's own "outside the model" answer (SASLprep beyond ASCII; a digest hashlib has and the Spec has not);
  .runtimeError               the fuel guard of the model's `lookupIana` — never reached (fuel = 2·length + 4 suffices), not proved here;
  .assertionError             `assert` "sha-1 digest not found!" of the quick path — unreachable because `from_string` requires sha-1, but that
                              needs `scramChkDecode ∘ scramChkEncode` on what the PARSER builds (dict order vs sorted `algs`), which the C01
                              lemmas have only for what `hash` builds (`scramChk_decode_encode`).
`X_altered_checksum_rejected` in the generic form is FALSE for the quick path by design: only the deciding digest (the first of sha-256,
sha-512, sha-224, sha-384, sha-1 present) is compared, so altering another digest of the record goes unnoticed unless `full=True`
(where it is a ValueError: `Props.C01Misc.scram_full_verify_inconsistent_raises`).  Stated exactly: the answer for an altered string is
"its deciding digest equals the original's". -/
theorem scram_verify_total_partial (prep : Bytes → Res Bytes) (hprep : ∀ b, OnlyErr [.notImplemented] (prep b)) (full : Bool) (s : Secret)
    (hs : Str) : Total SCRAM false (scramVerify prep full s hs) := scramVerify_total prep hprep full s hs
theorem scram_verify_total_ascii_partial (full : Bool) (s : Secret) (hs : Str) : Total SCRAM false (scramVerify asciiPrep full s hs) :=
  scramVerify_total asciiPrep asciiPrep_err full s hs
theorem scram_no_internal_error_partial (prep : Bytes → Res Bytes) (hprep : ∀ b, OnlyErr [.notImplemented] (prep b)) (full : Bool) (s : Secret)
    (hs : Str) (e : ErrKind) (h1 : e ≠ .valueError) (h2 : e ≠ .sizeError) (h3 : e ≠ .nullError) (h4 : e ∉ SCRAM) :
    scramVerify prep full s hs ≠ .error e := (scramVerify_total prep hprep full s hs).not_other e h1 h2 h3 h4
theorem scram_never_null_error (prep : Bytes → Res Bytes) (hprep : ∀ b, OnlyErr [.notImplemented] (prep b)) (full : Bool) (s : Secret)
    (hs : Str) : scramVerify prep full s hs ≠ .error .nullError := (scramVerify_total prep hprep full s hs).no_null (by decide)
theorem scram_same_parse_same_answer (prep : Bytes → Res Bytes) (full : Bool) (s : Secret) (h1 h2 : Str)
    (hp : parseOf scram h1 = parseOf scram h2) : scramVerify prep full s h1 = scramVerify prep full s h2 :=
  scramVerify_same_parse prep full s h1 h2 hp
theorem scram_altered_iff_deciding_digest (prep : Bytes → Res Bytes) (s : Secret) (hs hs' : Str) (p : Parsed) (enc enc' a : Str) (d d' : Bytes)
    (hp : parseOf scram hs = .ok { p with checksum := some enc }) (hp' : parseOf scram hs' = .ok { p with checksum := some enc' })
    (hd : scramDeciding (scramChkDecode (scramAlgs p) enc) = some (a, d))
    (hd' : scramDeciding (scramChkDecode (scramAlgs p) enc') = some (a, d'))
    (hv : scramVerify prep false s hs = .ok true) : scramVerify prep false s hs' = .ok (d' == d) :=
  scramVerify_altered_deciding prep s hs hs' p enc enc' a d d' hp hp' hd hd' hv
/-- `X_altered_checksum_rejected`, the true (partial) form: an altered DECIDING digest is rejected -/
theorem scram_altered_checksum_rejected_partial (prep : Bytes → Res Bytes) (s : Secret) (hs hs' : Str) (p : Parsed) (enc enc' a : Str)
    (d d' : Bytes) (hp : parseOf scram hs = .ok { p with checksum := some enc }) (hp' : parseOf scram hs' = .ok { p with checksum := some enc' })
    (hd : scramDeciding (scramChkDecode (scramAlgs p) enc) = some (a, d))
    (hd' : scramDeciding (scramChkDecode (scramAlgs p) enc') = some (a, d')) (hne : d' ≠ d)
    (hv : scramVerify prep false s hs = .ok true) : scramVerify prep false s hs' = .ok false := by
  rw [scramVerify_altered_deciding prep s hs hs' p enc enc' a d d' hp hp' hd hd' hv]; simp [hne]
/-- … and the counterexample shape of the full form: same deciding digest, anything else in the checksum altered: still True -/
theorem scram_altered_other_digest_accepted (prep : Bytes → Res Bytes) (s : Secret) (hs hs' : Str) (p : Parsed) (enc enc' a : Str)
    (d : Bytes) (hp : parseOf scram hs = .ok { p with checksum := some enc }) (hp' : parseOf scram hs' = .ok { p with checksum := some enc' })
    (hd : scramDeciding (scramChkDecode (scramAlgs p) enc) = some (a, d))
    (hd' : scramDeciding (scramChkDecode (scramAlgs p) enc') = some (a, d))
    (hv : scramVerify prep false s hs = .ok true) : scramVerify prep false s hs' = .ok true := by
  rw [scramVerify_altered_deciding prep s hs hs' p enc enc' a d d hp hp' hd hd' hv]; simp
theorem scram_config_string_value_error (prep : Bytes → Res Bytes) (full : Bool) (s : Secret) (hs : Str) (p : Parsed)
    (hl : s.len ≤ MAX_PASSWORD_SIZE) (hp : parseOf scram hs = .ok p) (hc : p.checksum = none) :
    scramVerify prep full s hs = .error .valueError := scram_config_string_is_value_error prep full s hs p hl hp hc

end Props.C08Families.Misc
