import PasslibVerif.Props.C08FamiliesPbkdf
/-
Non-vacuity of Props/C08FamiliesPbkdf.lean on real hashes of /tmp/repo_clean (hand-written: tools/dev/c08_families_parts/Pbkdf.examples.lean,
copied by tools/dev/gen_c08_families.py).  The behaviour of the real code on each string is quoted in the comments (run 2026-09-28).
-/
namespace Props.C08Families.Pbkdf
open Py Model.Handler Model.Formats Model.Verify Model.VerifyFmt.Pbkdf Props.C01 Props.C01Pbkdf Lemmas.C01Pbkdf Lemmas.FormatsPbkdf
  Lemmas.C08Families Lemmas.C08FamiliesPbkdf

/-! ### the hypotheses are satisfiable: real hashes of /tmp/repo_clean for "pw" (kernel-checked in Lemmas/C01PbkdfEx*.lean) altered -/
section examples
open Lemmas.C01Pbkdf.Real

/-- `pbkdf2_sha1.using(salt=b"0123456789abcdef", rounds=1).hash("pw")` with the first checksum character `6` → `7`: it parses, to the same
    settings and the 20 bytes `ab64_decode("7Twx…")`, not to what the original parses to: `verify("pw", altered) = False`
    (real code: False) -/
example : verify pbkdf2_sha1Hasher PW (ofString "$pbkdf2$1$MDEyMzQ1Njc4OWFiY2RlZg$7TwxOhjZZSKPsEY7DdOXPh.O0ys") = .ok false :=
  pbkdf2_sha1_altered_hash_rejected_on S16 1 (by decide) PW _ _
    [237, 60, 49, 58, 24, 217, 101, 34, 143, 176, 70, 59, 13, 211, 151, 62, 31, 142, 211, 43] Real.pbkdf2_sha1
    (by decide +kernel) (by decide +kernel)

/-- the documented equivalence of this format: the last of the 27 checksum characters carries 4 bits of the key and 2 unused bits.
    `…O0ys` and `…O0yt` differ in an unused bit only: same parse, hence the same answer for EVERY secret — and True for "pw"
    (real code: True) -/
example : pbkdf2_sha1Hasher.parse (ofString "$pbkdf2$1$MDEyMzQ1Njc4OWFiY2RlZg$6TwxOhjZZSKPsEY7DdOXPh.O0yt") =
    pbkdf2_sha1Hasher.parse (ofString "$pbkdf2$1$MDEyMzQ1Njc4OWFiY2RlZg$6TwxOhjZZSKPsEY7DdOXPh.O0ys") := by decide +kernel
example (s : Secret) : verify pbkdf2_sha1Hasher s (ofString "$pbkdf2$1$MDEyMzQ1Njc4OWFiY2RlZg$6TwxOhjZZSKPsEY7DdOXPh.O0yt") =
    verify pbkdf2_sha1Hasher s (ofString "$pbkdf2$1$MDEyMzQ1Njc4OWFiY2RlZg$6TwxOhjZZSKPsEY7DdOXPh.O0ys") :=
  pbkdf2_sha1_same_parse_same_answer s _ _ (by decide +kernel)
example : verify pbkdf2_sha1Hasher PW (ofString "$pbkdf2$1$MDEyMzQ1Njc4OWFiY2RlZg$6TwxOhjZZSKPsEY7DdOXPh.O0yt") = .ok true :=
  (pbkdf2_sha1_same_parse_same_answer PW _ _ (by decide +kernel)).trans
    (pbkdf2_sha1_verifies_own_hash PW S16 1 (by decide) _ Real.pbkdf2_sha1)

/-- a configuration string (real code: ValueError "expected pbkdf2_sha1 hash, got pbkdf2_sha1 config string") -/
example : verify pbkdf2_sha1Hasher PW (ofString "$pbkdf2$1$MDEyMzQ1Njc4OWFiY2RlZg") = .error .valueError :=
  pbkdf2_sha1_config_string_value_error PW _ (mc3Settings PBKDF2_SHA1_IDENT S16 1) (by decide) (by decide +kernel) rfl

/-- the TypeError of the totality statement is not vacuous in the model: a salt field of 5 base64 characters (`len % 4 == 1`) is refused
    with ValueError, one that `a2b_base64` rejects after re-padding with TypeError — whatever the secret within the size limit -/
example : pbkdf2_sha1Hasher.parse (ofString "$pbkdf2$1$A===A$6TwxOhjZZSKPsEY7DdOXPh.O0ys") = .error .typeError ∨
    pbkdf2_sha1Hasher.parse (ofString "$pbkdf2$1$A===A$6TwxOhjZZSKPsEY7DdOXPh.O0ys") = .error .valueError := by decide +kernel

/-- sha1_crypt: real hash, last checksum character `o` → `p` (real code: False); configuration string (real code: ValueError);
    NUL in the secret (real code: NullPasswordError, "null character in secret") -/
example : verify sha1CryptHasher PW (ofString "$sha1$1$8QBd3jkw$JU8Im77web3ePbQBtw5O0LR5Edzp") = .ok false :=
  sha1_crypt_altered_hash_rejected_on (ofString "8QBd3jkw") 1 ⟨by decide, by decide, (by intro m e; cases e; decide), by decide, by decide⟩
    PW _ _ (ofString "JU8Im77web3ePbQBtw5O0LR5Edzp") Real.sha1_crypt (by decide +kernel) (by decide +kernel)
example : verify sha1CryptHasher PW (ofString "$sha1$1$8QBd3jkw") = .error .valueError :=
  sha1_crypt_config_string_value_error PW _ (mc3Settings SHA1C_IDENT (ofString "8QBd3jkw") 1) (by decide) (by decide +kernel) rfl
example : verify sha1CryptHasher (.bytes [112, 0, 119]) (ofString "$sha1$1$8QBd3jkw$JU8Im77web3ePbQBtw5O0LR5Edzo") = .error .nullError := by
  decide +kernel

/-- django_salted_md5 (cheap digest: everything evaluated by the kernel): real hash, last hex digit `5` → `6`: False; the upper-case
    spelling of the digest is NOT an accepted re-encoding of this format (real code: ValueError "invalid characters in … checksum") -/
example : verify django_salted_md5Hasher PW (ofString "md5$YUZOHljbYxfQ$df1a802adfa03338a280e1e2ef8e2c85") = .ok true ∧
    verify django_salted_md5Hasher PW (ofString "md5$YUZOHljbYxfQ$df1a802adfa03338a280e1e2ef8e2c86") = .ok false ∧
    verify django_salted_md5Hasher PW (ofString "md5$YUZOHljbYxfQ$DF1A802ADFA03338A280E1E2EF8E2C85") = .error .valueError := by
  refine ⟨by decide +kernel, by decide +kernel, by decide +kernel⟩
example : verify django_salted_md5Hasher PW (ofString "md5$YUZOHljbYxfQ$df1a802adfa03338a280e1e2ef8e2c86") = .ok false :=
  django_salted_md5_altered_hash_rejected_on (ofString "YUZOHljbYxfQ") (by decide) PW _ _ (ofString "df1a802adfa03338a280e1e2ef8e2c86")
    Real.django_salted_md5 (by decide +kernel) (by decide +kernel)

/-- grub_pbkdf2_sha512: hex letter case is the documented equivalence (`unhexlify` reads both): the lower-case spelling of
    `grub_pbkdf2_sha512.using(salt=b"\xab\x94", rounds=1).hash("pw")` parses like the canonical upper-case one, so the two are
    indistinguishable for every secret (real code: both True for "pw") -/
example (s : Secret) : verify grubHasher s (ofString
      "grub.pbkdf2.sha512.1.ab94.0f22ed78d24a311859f6bdce477680e0781dd6c1221ae9fb061ad8f6eacec77fd47085fb63e402782ba6a8b6205154dddb5dc4f151ad9cb9569313d8592d4f86") =
    verify grubHasher s (ofString
      "grub.pbkdf2.sha512.1.AB94.0F22ED78D24A311859F6BDCE477680E0781DD6C1221AE9FB061AD8F6EACEC77FD47085FB63E402782BA6A8B6205154DDDB5DC4F151AD9CB9569313D8592D4F86") :=
  grub_pbkdf2_sha512_same_parse_same_answer s _ _ (by decide +kernel)

/-- ldap_pbkdf2_sha1: the wrapped real hash altered (real code: False); a string without `{PBKDF2}` is a ValueError even for an
    oversized secret (real code: ValueError "not a valid ldap_pbkdf2_sha1 hash") -/
example : ldap_pbkdf2_sha1W.verify PW (ofString "{PBKDF2}1$MDEyMzQ1Njc4OWFiY2RlZg$7TwxOhjZZSKPsEY7DdOXPh.O0ys") = .ok false :=
  ldap_pbkdf2_sha1_altered_checksum_rejected PW (ofString "{PBKDF2}1$MDEyMzQ1Njc4OWFiY2RlZg$6TwxOhjZZSKPsEY7DdOXPh.O0ys") _
    (ofString "$pbkdf2$1$MDEyMzQ1Njc4OWFiY2RlZg$6TwxOhjZZSKPsEY7DdOXPh.O0ys") (ofString "$pbkdf2$1$MDEyMzQ1Njc4OWFiY2RlZg$7TwxOhjZZSKPsEY7DdOXPh.O0ys")
    (mc3Settings PBKDF2_SHA1_IDENT S16 1) [233, 60, 49, 58, 24, 217, 101, 34, 143, 176, 70, 59, 13, 211, 151, 62, 31, 142, 211, 43]
    [237, 60, 49, 58, 24, 217, 101, 34, 143, 176, 70, 59, 13, 211, 151, 62, 31, 142, 211, 43]
    (by decide +kernel) (by decide +kernel) (by decide +kernel) (by decide +kernel) (by decide)
    (ldap_pbkdf2_verifies_own_hash _ _ ldap_sha1 PW S16 1 (by decide) _ real_ldap_pbkdf2_sha1)
example (s : Secret) : ldap_pbkdf2_sha1W.verify s (ofString "1$MDEyMzQ1Njc4OWFiY2RlZg$6TwxOhjZZSKPsEY7DdOXPh.O0ys") = .error .valueError :=
  ldap_pbkdf2_sha1_no_prefix_value_error s _ (by decide +kernel)

/-- `X_no_internal_error` on a concrete kind -/
example (s : Secret) (hs : Str) : verify grubHasher s hs ≠ .error .indexError ∧ verify grubHasher s hs ≠ .error .typeError :=
  ⟨grub_pbkdf2_sha512_no_internal_error s hs _ (by decide) (by decide) (by decide) (by decide),
   grub_pbkdf2_sha512_no_internal_error s hs _ (by decide) (by decide) (by decide) (by decide)⟩

end examples

end Props.C08Families.Pbkdf
