/-! ### bcrypt: `hash` level (the string `bcrypt.hash` made, its checksum altered) -/
theorem bcrypt_altered_hash_rejected_on (te : Bool) (ident salt : Str) (rounds : Nat) (hi : ident ∈ bcryptOkIdents) (hsalt : BcCanon 22 salt)
    (hr : 4 ≤ rounds ∧ rounds ≤ 31) (s : Secret) (hs hs' c c' : Str)
    (hh : bcHashSecret (bcryptHasher te) s (bcryptSettings ident salt rounds) = .ok hs)
    (hp : (bcryptHasher te).parse hs = .ok { bcryptSettings ident salt rounds with checksum := some c })
    (hp' : (bcryptHasher te).parse hs' = .ok { bcryptSettings ident salt rounds with checksum := some c' }) (hne : c' ≠ c) :
    bcVerify (bcryptHasher te) s hs' = .ok false :=
  bcrypt_altered_checksum_rejected te s hs hs' _ c c' hp hp' hne (bcrypt_verifies_own_hash te s ident salt hs rounds hi hsalt hr hh)

/-! ### django_bcrypt = PrefixWrapper(bcrypt, "bcrypt$"): unwrap, then `bcrypt.verify` -/
theorem django_bcrypt_verify_total (te : Bool) (s : Secret) (hs : Str) : Total [] true (djangoBcryptVerify te s hs) := by
  rw [djangoBcryptVerify_eq]; exact unwrap_total _ _ (fun s u => bcVerify_total (bcrypt_facts te) s u) s hs
theorem django_bcrypt_no_internal_error (te : Bool) (s : Secret) (hs : Str) (e : ErrKind) (h1 : e ≠ .valueError) (h2 : e ≠ .sizeError)
    (h3 : e ≠ .nullError) : djangoBcryptVerify te s hs ≠ .error e :=
  (django_bcrypt_verify_total te s hs).not_other e h1 h2 h3 (by simp)
theorem django_bcrypt_no_prefix_value_error (te : Bool) (s : Secret) (hs : Str) (hu : stripPrefix DJANGO_BCRYPT_PREFIX hs = none) :
    djangoBcryptVerify te s hs = .error .valueError := by
  rw [djangoBcryptVerify_eq]; exact unwrap_no_prefix _ _ s hs hu
theorem django_bcrypt_altered_checksum_rejected (te : Bool) (s : Secret) (hs hs' u u' : Str) (p : Parsed) (c c' : Str)
    (hu : stripPrefix DJANGO_BCRYPT_PREFIX hs = some u) (hu' : stripPrefix DJANGO_BCRYPT_PREFIX hs' = some u')
    (hp : (bcryptHasher te).parse u = .ok { p with checksum := some c }) (hp' : (bcryptHasher te).parse u' = .ok { p with checksum := some c' })
    (hne : c' ≠ c) (hv : djangoBcryptVerify te s hs = .ok true) : djangoBcryptVerify te s hs' = .ok false := by
  rw [djangoBcryptVerify_eq] at hv ⊢
  unfold unwrapVerify at hv ⊢; rw [hu] at hv; rw [hu']
  exact bcrypt_altered_checksum_rejected te s u u' p c c' hp hp' hne hv
theorem django_bcrypt_same_parse_same_answer (te : Bool) (s : Secret) (h1 h2 u1 u2 : Str) (hu1 : stripPrefix DJANGO_BCRYPT_PREFIX h1 = some u1)
    (hu2 : stripPrefix DJANGO_BCRYPT_PREFIX h2 = some u2) (hp : (bcryptHasher te).parse u1 = (bcryptHasher te).parse u2) :
    djangoBcryptVerify te s h1 = djangoBcryptVerify te s h2 := by
  rw [djangoBcryptVerify_eq, djangoBcryptVerify_eq]; unfold unwrapVerify; rw [hu1, hu2]
  exact bcrypt_same_parse_same_answer te s u1 u2 hp
theorem django_bcrypt_config_string_value_error (te : Bool) (s : Secret) (hs u : Str) (p : Parsed) (hl : s.len ≤ MAX_PASSWORD_SIZE)
    (hu : stripPrefix DJANGO_BCRYPT_PREFIX hs = some u) (hp : (bcryptHasher te).parse u = .ok p) (hc : p.checksum = none) :
    djangoBcryptVerify te s hs = .error .valueError := by
  rw [djangoBcryptVerify_eq]; unfold unwrapVerify; rw [hu]
  exact bcrypt_config_string_value_error te s u p hl hp hc

end Props.C08Families.DesBcrypt
