/-- in particular: never the RuntimeError the `_partial` form had to allow -/
example (s : Secret) (hs : Str) : verify bcryptSha256Hasher s hs ≠ .error .runtimeError :=
  bcrypt_sha256_no_internal_error s hs _ (by decide) (by decide) (by decide) (by decide)

/-- hypotheses on a real string (`bcrypt_sha256.using(salt="CCCCCCCCCCCCCCCCCCCCC.", rounds=4).hash("password")` layout v2): it parses, with a
    checksum; its configuration string parses without one and is a ValueError -/
example : ((bcryptSha256Hasher.parse (ofString "$bcrypt-sha256$v=2,t=2b,r=4$CCCCCCCCCCCCCCCCCCCCC.$FXJHjF.8tyWAsIeGLxC7hC/nyX4QxgC")).map
      fun p => (p.ident, p.rounds, p.salt, p.checksum.isSome)) = .ok (IDENT_2B, some 4, some (ofString "CCCCCCCCCCCCCCCCCCCCC."), true) ∧
    verify bcryptSha256Hasher (.text (ofString "password")) (ofString "$bcrypt-sha256$v=2,t=2b,r=4$CCCCCCCCCCCCCCCCCCCCC.") = .error .valueError := by
  refine ⟨by decide +kernel, by decide +kernel⟩

end Props.C08Families.BcryptSha256
