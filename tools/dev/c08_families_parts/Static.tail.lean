/-! ### the documented equivalence of the lower-case hex formats: letter case of the stored string -/
/-- for hex_md4 / hex_md5 / hex_sha1 / hex_sha256 / hex_sha512 (and every format of `hexLowerFormats`): an ASCII string and its upper-cased
    spelling parse alike (Props/C07Static.lean) … -/
theorem hexLower_upper_same_answer (fn : Format × Nat) (h : fn ∈ hexLowerFormats) (H : Bytes → Bytes) (s : Secret) (hs : Str) (ha : Ascii hs) :
    verify (hexHasher fn.1 H) s (pyUpper hs) = verify (hexHasher fn.1 H) s hs :=
  same_parse_same_answer _ s _ _ (by show toRes (fn.1.parse (pyUpper hs)) = toRes (fn.1.parse hs); rw [Props.C07Static.hexLower_parse_upper fn h hs ha])

/-! ### mssql2000: its own `verify` compares only the second (upper-cased) 20 bytes of the 40-byte checksum

`X_altered_checksum_rejected` in the generic form is FALSE for this class: a string whose FIRST half was altered still verifies — this is
the documented behaviour of the format (the first half is the case-sensitive hash, "not used by passlib's verify").  Stated exactly:
the answer for an altered string is "its second half equals the original's". -/
theorem mssql2000_verify_total (s : Secret) (hs : Str) : Total [] false (mssql2000Verify s hs) := mssql2000Verify_total s hs
theorem mssql2000_no_internal_error (s : Secret) (hs : Str) (e : ErrKind) (h1 : e ≠ .valueError) (h2 : e ≠ .sizeError) :
    mssql2000Verify s hs ≠ .error e := by
  intro he
  have h := mssql2000Verify_total s hs
  rw [he] at h
  rcases h with ⟨v, hv⟩ | hv | hv | ⟨hf, _⟩ | ⟨e', he', _⟩
  · cases hv
  · cases hv; exact h1 rfl
  · cases hv; exact h2 rfl
  · cases hf
  · cases he'
theorem mssql2000_altered_iff_second_half (s : Secret) (hs hs' : Str) (p : Parsed) (c c' : Str)
    (hp : mssql2000Hasher.parse hs = .ok { p with checksum := some c }) (hp' : mssql2000Hasher.parse hs' = .ok { p with checksum := some c' })
    (hv : mssql2000Verify s hs = .ok true) : mssql2000Verify s hs' = .ok (c'.drop 20 == c.drop 20) :=
  mssql2000Verify_altered_iff s hs hs' p c c' hp hp' hv
/-- `X_altered_checksum_rejected`, the true (partial) form: an altered SECOND half is rejected -/
theorem mssql2000_altered_checksum_rejected_partial (s : Secret) (hs hs' : Str) (p : Parsed) (c c' : Str)
    (hp : mssql2000Hasher.parse hs = .ok { p with checksum := some c }) (hp' : mssql2000Hasher.parse hs' = .ok { p with checksum := some c' })
    (hne : c'.drop 20 ≠ c.drop 20) (hv : mssql2000Verify s hs = .ok true) : mssql2000Verify s hs' = .ok false := by
  rw [mssql2000Verify_altered_iff s hs hs' p c c' hp hp' hv]; simp [hne]
/-- … and the counterexample shape of the full form: an altered FIRST half (same second half) is accepted -/
theorem mssql2000_altered_first_half_accepted (s : Secret) (hs hs' : Str) (p : Parsed) (c c' : Str)
    (hp : mssql2000Hasher.parse hs = .ok { p with checksum := some c }) (hp' : mssql2000Hasher.parse hs' = .ok { p with checksum := some c' })
    (heq : c'.drop 20 = c.drop 20) (hv : mssql2000Verify s hs = .ok true) : mssql2000Verify s hs' = .ok true := by
  rw [mssql2000Verify_altered_iff s hs hs' p c c' hp hp' hv]; simp [heq]
theorem mssql2000_same_parse_same_answer (s : Secret) (h1 h2 : Str) (hp : mssql2000Hasher.parse h1 = mssql2000Hasher.parse h2) :
    mssql2000Verify s h1 = mssql2000Verify s h2 := mssql2000Verify_same_parse s h1 h2 hp

/-! ### htdigest (MinimalHandler): `verify` = well-formedness of the stored string, then string equality with `hash(secret, user, realm)` -/
theorem htdigest_verify_total (user realm : Bytes) (s : Secret) (hs : Str) : Total [] false (htdigestVerify user realm s hs) := by
  unfold htdigestVerify Total
  split
  · unfold htdigestHash
    cases hv : validateSecret s with
    | error e =>
      unfold validateSecret at hv
      by_cases hl : s.len > MAX_PASSWORD_SIZE
      · simp [hl] at hv; right; right; left; simp only; rw [← hv]
      · simp [hl] at hv
    | ok u =>
      simp only
      cases hb : s.toBytes with
      | error e =>
        simp only; right; left
        unfold Secret.toBytes at hb
        cases s with
        | bytes bs => simp at hb
        | text cps => simp only at hb; split at hb <;> simp at hb; rw [← hb]
      | ok b => left; exact ⟨_, rfl⟩
  · right; left; rfl
/-- ANY other well-formed string is rejected for a secret the original verifies (the stored string IS the digest: no equivalent
    re-encodings at all — `htdigestOk` admits lower-case hex only) -/
theorem htdigest_altered_rejected (user realm : Bytes) (s : Secret) (hs hs' : Str) (hok : htdigestOk hs' = true) (hne : hs' ≠ hs)
    (hv : htdigestVerify user realm s hs = .ok true) : htdigestVerify user realm s hs' = .ok false := by
  unfold htdigestVerify at hv ⊢
  split at hv
  · cases hh : htdigestHash user realm s with
    | error e => simp [hh] at hv
    | ok c =>
      simp only [hh, Except.ok.injEq, beq_iff_eq] at hv
      subst hv
      simp only [hok, if_true]
      simpa using fun e => hne e.symm
  · cases hv

end Props.C08Families.Static
