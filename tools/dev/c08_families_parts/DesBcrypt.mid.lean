/-! ### bcrypt_sha256

FULL statement (not proved here):
    theorem bcrypt_sha256_verify_total (s : Secret) (hs : Str) : Total [] false (verify bcryptSha256Hasher s hs)
It needs "whatever `bcrypt_sha256.from_string` accepts has type 2a/2b, cost 4..31, a canonical 22-character salt" (a `parse_wf` lemma for
`bcryptSha256Parse`, which the C07 files do not have: they prove render→parse only) to discharge the RuntimeError of `bcryptCore` as for
bcrypt above.  Proved: the `_partial` form — the ONLY error kind beyond the documented ones that the model's `verify` could raise is that
RuntimeError; every other theorem of the set holds in full. -/
