import PasslibVerif.Props.C08FamiliesMisc
/-
Non-vacuity of Props/C08FamiliesMisc.lean on real hashes of /tmp/repo_clean (hand-written: tools/dev/c08_families_parts/Misc.examples.lean).
The behaviour of the real code on each string is quoted in the comments (run 2026-09-28).
-/
namespace Props.C08Families.Misc
open Py Model.Handler Model.Formats Model.Verify Model.VerifyFmt.Misc Lemmas.FormatsMisc Lemmas.C01Misc Props.C01 Props.C01Misc
  Lemmas.C08Families Lemmas.C08FamiliesMisc Lemmas.C08FamiliesMiscScram

/-- `fshp.using(variant=1, salt=b"ab", rounds=2).hash("pw")` (kernel-evaluated) with the last key byte altered (`…/QQ==` → `…/QA==`): False
    (real code: False); variant 9 / rounds 0: ValueError at the parser (real code: ValueError "invalid fshp variant" / "rounds (0) is too low") -/
example : verify fshpHasher (.text [112, 119]) (ofString "{FSHP1|2|2}YWJpYlln5w9KZlF30tVFXa94Gyw4iHUPVnU1J+SSDdL/QA==") = .ok false :=
  fshp_altered_hash_rejected_on 1 (by decide) [97, 98] (by decide) 2 (by decide) (.text [112, 119])
    (ofString "{FSHP1|2|2}YWJpYlln5w9KZlF30tVFXa94Gyw4iHUPVnU1J+SSDdL/QQ==") _
    [105, 98, 89, 103, 231, 15, 74, 102, 81, 119, 210, 213, 69, 93, 175, 120, 27, 44, 56, 136, 117, 15, 86, 117, 53, 39, 228, 146, 13, 210, 255, 64]
    (by decide +kernel) (by decide +kernel) (by decide +kernel)
example : verify fshpHasher (.text [112, 119]) (ofString "{FSHP9|2|2}YWJpYlln5w9KZlF30tVFXa94Gyw4iHUPVnU1J+SSDdL/QQ==") = .error .valueError ∧
    verify fshpHasher (.text [112, 119]) (ofString "{FSHP1|2|0}YWJpYlln5w9KZlF30tVFXa94Gyw4iHUPVnU1J+SSDdL/QQ==") = .error .valueError := by
  refine ⟨by decide +kernel, by decide +kernel⟩

/-- scrypt (`$scrypt$` layout): the last of the 43 digest characters carries 4 bits of the key and 2 unused bits: `…epwI` and `…epwJ` parse
    alike — indistinguishable for every secret (real code: True for both with "pw"); `…epwA` is another key (real code: False); a configuration
    string (real code: ValueError); r·p = 2^32: the digest's ValueError (real code: ValueError "r * p must be < 2**30") -/
example (s : Secret) : verify scryptHasher s (ofString "$scrypt$ln=1,r=1,p=1$YWI$ZGfst6dF2gC55C4amW5naWLSki7rCsqLaWVNvydepwJ") =
    verify scryptHasher s (ofString "$scrypt$ln=1,r=1,p=1$YWI$ZGfst6dF2gC55C4amW5naWLSki7rCsqLaWVNvydepwI") :=
  scrypt_same_parse_same_answer s _ _ (by decide +kernel)
example : scryptHasher.parse (ofString "$scrypt$ln=1,r=1,p=1$YWI$ZGfst6dF2gC55C4amW5naWLSki7rCsqLaWVNvydepwA") ≠
    scryptHasher.parse (ofString "$scrypt$ln=1,r=1,p=1$YWI$ZGfst6dF2gC55C4amW5naWLSki7rCsqLaWVNvydepwI") := by decide +kernel
example : verify scryptHasher (.text [112, 119]) (ofString "$scrypt$ln=1,r=1,p=1$YWI") = .error .valueError ∧
    verify scryptHasher (.text [112, 119]) (ofString "$scrypt$ln=1,r=65536,p=65536$YWI$ZGfst6dF2gC55C4amW5naWLSki7rCsqLaWVNvydepwI") =
      .error .valueError := by
  refine ⟨by decide +kernel, by decide +kernel⟩

/-- scram: `scram.using(algs="sha-1,sha-256", salt=b"ab", rounds=2).hash("pw")` (`Props.C01Misc.realScram`).  Its sha-1 digest altered: same
    settings, same deciding digest (sha-256) — hypotheses of `scram_altered_other_digest_accepted` (real code: quick verify True, `full=True`
    ValueError "verified inconsistently"); its sha-256 digest altered: another deciding digest — hypotheses of
    `scram_altered_checksum_rejected_partial` (real code: False).  (PBKDF2-HMAC is not evaluated in the kernel.) -/
example : ((parseOf scram (ofString "$scram$2$YWI$sha-1=A4BT88hOol4pDIMpScOp2qAnOBE,sha-256=xAkXXeqBnPJpY3DHQ3Dk1Mu.fHQm17FeR0d/CVU6I0M")).map
      fun q => (({ q with checksum := none } : Parsed), scramDeciding (scramChkDecode (scramAlgs q) (q.checksum.getD [])))) =
    ((parseOf scram realScram).map
      fun q => (({ q with checksum := none } : Parsed), scramDeciding (scramChkDecode (scramAlgs q) (q.checksum.getD [])))) := by
  decide +kernel
example : ((parseOf scram (ofString "$scram$2$YWI$sha-1=z4BT88hOol4pDIMpScOp2qAnOBE,sha-256=AAkXXeqBnPJpY3DHQ3Dk1Mu.fHQm17FeR0d/CVU6I0M")).map
      fun q => (scramDeciding (scramChkDecode (scramAlgs q) (q.checksum.getD []))).map (·.1)) = .ok (some (ofString "sha-256")) ∧
    ((parseOf scram (ofString "$scram$2$YWI$sha-1=z4BT88hOol4pDIMpScOp2qAnOBE,sha-256=AAkXXeqBnPJpY3DHQ3Dk1Mu.fHQm17FeR0d/CVU6I0M")).map
      fun q => scramDeciding (scramChkDecode (scramAlgs q) (q.checksum.getD []))) ≠
    ((parseOf scram realScram).map fun q => scramDeciding (scramChkDecode (scramAlgs q) (q.checksum.getD []))) := by
  refine ⟨by decide +kernel, by decide +kernel⟩
/-- the error kinds of `SCRAM` that ARE reachable: a configuration string and a record without sha-1 are ValueErrors; the digest name
    `shake128` is hashlib's TypeError (real code: ValueError "expected scram hash, got scram config string", ValueError "sha-1 must be in
    algorithm list", TypeError "digest() missing required argument 'length'") -/
example : scramVerify asciiPrep false (.text [112, 119]) (ofString "$scram$2$YWI$sha-1,sha-256") = .error .valueError ∧
    scramVerify asciiPrep false (.text [112, 119]) (ofString "$scram$2$YWI$sha-256=xAkXXeqBnPJpY3DHQ3Dk1Mu.fHQm17FeR0d/CVU6I0M") = .error .valueError ∧
    scramVerify asciiPrep false (.text [112, 119]) (ofString "$scram$2$YWI$sha-1=z4BT88hOol4pDIMpScOp2qAnOBE,shake128=AAAA") = .error .typeError := by
  refine ⟨by decide +kernel, by decide +kernel, by decide +kernel⟩

end Props.C08Families.Misc
