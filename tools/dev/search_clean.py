"""dev tool: every property's failing-input search must find NOTHING on the unchanged tree (a search that reports an input there would
turn a harmless rewrite — a broken pin — into a false 'concrete failing input').  usage: search_clean.py [C01 C02 …] [--seed N]"""
import importlib
import os
import sys
import time

T = os.path.dirname(os.path.dirname(os.path.abspath(__file__)))
sys.path.insert(0, T)
sys.path.insert(0, os.environ.get("PASSLIB_REPO", "/repo"))
from runner import Ctx  # noqa: E402

seed = int(sys.argv[sys.argv.index("--seed") + 1]) if "--seed" in sys.argv else 0
args = [a for a in sys.argv[1:] if a.startswith("C")]
bad = 0
for prop in args or [f"C{i:02d}" for i in range(1, 21)]:
    mod = importlib.import_module("corr." + prop)
    t0 = time.time()
    try:
        r = mod.search(Ctx(prop, "quick", seed), [{"obligation": "dev", "detail": "clean-tree search"}], [])
    except Exception as e:  # noqa: BLE001
        r = "CRASH " + type(e).__name__ + ": " + str(e)[:200]
    print(prop, "seed", seed, round(time.time() - t0, 1), "s:", "nothing found" if r is None else ("FOUND " + repr(r)[:400]), flush=True)
    bad += r is not None
sys.exit(1 if bad else 0)
