"""unit Apache: the statements `Model/Apache.lean` was written against, and the constants it uses.

pins    every method of _CommonFile / HtpasswdFile / HtdigestFile that reads or writes `_records` / `_source` / the bound file
        (passlib/apache.py) and the htdigest hasher (passlib/handlers/digests.py) -- statement lists, docstrings dropped;
        the pinned text lives in tools/apache_pins.py (written once from the source the model was validated against)
reflect _INVALID_FIELD_CHARS, the field-length bound, the separator / comment bytes and the record / skipped tokens
"""
import ast

from apache_pins import PINS
from extract_core import HEADER, Untranslatable, find_def, src_ast, strip_doc, unit


FILE_SIDE_PINS = {
    ("__init__", ()): ['if not encoding:\n    raise TypeError("\'encoding\' is required")',
                       "if not is_ascii_codec(encoding):\n    raise ValueError('encoding must be 7-bit ascii compatible')",
                       'self.encoding = encoding', 'self.return_unicode = return_unicode', 'self.autosave = autosave', 'self._path = path', 'self._mtime = 0',
                       'if path and (not new):\n    self.load()\nelse:\n    self._records = {}\n    self._source = []'],
    ("path", ("property",)): ['return self._path'],
    ("path", ("path.setter",)): ['if value != self._path:\n    self._mtime = 0', 'self._path = value'],
    ("mtime", ("property",)): ['return self._mtime'],
}


def body_of(fn):
    return [ast.unparse(s) for s in strip_doc(fn.body)]


def expect(name, got, want):
    if got != want:
        for i, (g, w) in enumerate(zip(got, want)):
            if g != w:
                raise Untranslatable(f"{name}: statement {i} is `{g}` but the model was written against `{w}`")
        raise Untranslatable(f"{name}: {len(got)} statements, model written against {len(want)}")


@unit("Apache")
def unit_apache():
    import warnings

    warnings.simplefilter("ignore")
    trees = {"passlib/apache.py": src_ast("passlib/apache.py"), "passlib/handlers/digests.py": src_ast("passlib/handlers/digests.py")}
    for (path, qual), want in sorted(PINS.items()):
        expect(qual, body_of(find_def(trees[path], qual)), want)
    # the constructor and the two properties Model/ApacheFile.lean follows (a property has two defs of one name: compared by decorator)
    common = find_def(trees["passlib/apache.py"], "_CommonFile")
    got = {}
    for f in common.body:
        if isinstance(f, ast.FunctionDef) and f.name in ("__init__", "path", "mtime"):
            got[(f.name, tuple(ast.unparse(d) for d in f.decorator_list))] = body_of(f)
    for key, want in FILE_SIDE_PINS.items():
        if key not in got:
            raise Untranslatable(f"_CommonFile.{key[0]} {key[1]}: not found")
        expect(f"_CommonFile.{key[0]}{' (setter)' if 'path.setter' in key[1] else ''}", got[key], want)
    # methods of the three classes that touch the state but are not pinned would escape the model: refuse them
    touched = ("_records", "_source", "_autosave", "_mtime", "save(", "_set_record", "_load_lines")
    pinned = {q for (p, q) in PINS if p == "passlib/apache.py"}
    for cname in ("_CommonFile", "HtpasswdFile", "HtdigestFile"):
        cls = find_def(trees["passlib/apache.py"], cname)
        for f in cls.body:
            if isinstance(f, ast.FunctionDef) and f"{cname}.{f.name}" not in pinned:
                text = "\n".join(body_of(f))
                if any(t in text for t in touched) and f.name not in ("__init__", "__repr__", "path", "mtime", "from_string", "from_path"):
                    raise Untranslatable(f"{cname}.{f.name} touches the record state but the model has no counterpart")
    import passlib.apache as ap

    bad = bytes(ap._INVALID_FIELD_CHARS)
    # the length bound is the literal in `if len(value) > N`
    enc = find_def(trees["passlib/apache.py"], "_CommonFile._encode_field")
    bounds = [n.comparators[0].value for n in ast.walk(enc) if isinstance(n, ast.Compare) and isinstance(n.ops[0], ast.Gt)
              and isinstance(n.comparators[0], ast.Constant) and isinstance(n.comparators[0].value, int)]
    if len(bounds) != 1:
        raise Untranslatable(f"_encode_field: expected one `len(value) > N` bound, found {bounds}")
    if bytes(ap._BCOLON) != b":" or bytes(ap._BHASH) != b"#" or len({ap._SKIPPED, ap._RECORD}) != 2:
        raise Untranslatable("separator / comment byte / token constants changed")
    out = [HEADER.format(src="passlib/apache.py, passlib/handlers/digests.py"), "namespace Gen.Apache\n"]
    out.append("/-- bytes refused in user / realm names (`_INVALID_FIELD_CHARS`) -/")
    out.append("def invalidFieldChars : List Nat := [" + ", ".join(str(b) for b in bad) + "]\n")
    out.append("/-- a name longer than this many bytes (after encoding) is refused -/")
    out.append(f"def maxFieldLen : Nat := {bounds[0]}\n")
    out.append(f"def colon : Nat := {ap._BCOLON[0]}\ndef hashMark : Nat := {ap._BHASH[0]}\n")
    out.append(f"/-- number of pinned methods -/\ndef pinnedMethods : Nat := {len(PINS)}\n")
    out.append("end Gen.Apache")
    return "\n".join(out) + "\n"
