"""unit Verify: the statements `Model/Verify.lean` (generic hash / verify / size / truncation policy) was written against.

pins   validate_secret, TruncateMixin._check_truncate_policy, GenericHandler.hash / verify / genhash (passlib/utils/handlers.py)
reflect MAX_PASSWORD_SIZE, and for every registered hasher how its `_calc_checksum` reaches the truncation policy / NUL refusal
"""
import ast

from extract_core import HEADER, Untranslatable, find_def, lean_str, src_ast, strip_doc, unit


def _body(fn):
    out = []
    for s in strip_doc(fn.body):
        if isinstance(s, ast.Assert):
            continue
        out.append("\n".join(l for l in ast.unparse(s).split("\n") if not l.strip().startswith("assert ")))
    return out


def _expect(name, got, want):
    if got != want:
        for i, (g, w) in enumerate(zip(got, want)):
            if g != w:
                raise Untranslatable(f"{name}: statement {i} is `{g}` but the model was written against `{w}`")
        raise Untranslatable(f"{name}: {len(got)} statements, model written against {len(want)}")


VALIDATE = ["if not isinstance(secret, unicode_or_bytes):\n    raise exc.ExpectedStringError(secret, 'secret')",
            "if len(secret) > MAX_PASSWORD_SIZE:\n    raise exc.PasswordSizeError(MAX_PASSWORD_SIZE)"]
TRUNC = ["if isinstance(secret, str):\n    secret = secret.encode('utf-8')",
         "if cls.truncate_error and len(secret) > cls.truncate_size:\n    raise exc.PasswordTruncateError(cls)"]
HASH = ["if kwds:\n    settings = extract_settings_kwds(cls, kwds)\n    if settings:\n        warn_hash_settings_deprecation(cls, settings)\n        return cls.using(**settings).hash(secret, **kwds)",
        "validate_secret(secret)", "self = cls(use_defaults=True, **kwds)", "self.checksum = self._calc_checksum(secret)", "return self.to_string()"]
VERIFY = ["validate_secret(secret)", "self = cls.from_string(hash, **context)", "chk = self.checksum", "if chk is None:\n    raise exc.MissingDigestError(cls)",
          "return consteq(self._calc_checksum(secret), chk)"]


@unit("Verify")
def unit_verify():
    import warnings

    warnings.simplefilter("ignore")
    import passlib.utils.handlers as uh
    from passlib import registry

    t = src_ast("passlib/utils/handlers.py")
    _expect("validate_secret", _body(find_def(t, "validate_secret")), VALIDATE)
    _expect("TruncateMixin._check_truncate_policy", _body(find_def(t, "TruncateMixin._check_truncate_policy")), TRUNC)
    _expect("GenericHandler.hash", _body(find_def(t, "GenericHandler.hash")), HASH)
    _expect("GenericHandler.verify", _body(find_def(t, "GenericHandler.verify")), VERIFY)
    out = [HEADER.format(src="passlib/utils/handlers.py, passlib/utils/__init__.py"), "namespace Gen.Verify\n"]
    out.append(f"def maxPasswordSize : Nat := {int(uh.MAX_PASSWORD_SIZE)}\n")
    # which hashers call the truncation policy only from hash() (use_defaults) and never from verify()
    rows = []
    for name in sorted(registry.list_crypt_handlers()):
        try:
            h = registry.get_crypt_handler(name)
        except Exception:  # noqa: BLE001
            continue
        target = getattr(h, "wrapped", h)
        ts = getattr(target, "truncate_size", None)
        if ts is None:
            continue
        import inspect

        src = ""
        for cls in getattr(target, "__mro__", ()):
            if "_calc_checksum" in cls.__dict__ or "_prepare_digest_args" in cls.__dict__ or "_calc_checksum_builtin" in cls.__dict__:
                try:
                    import textwrap

                    src += ast.unparse(ast.parse(textwrap.dedent(inspect.getsource(cls)))) + "\n"      # comments dropped
                except (OSError, TypeError, SyntaxError):
                    pass
        compact = " ".join(src.split())
        guarded = ("if self.use_defaults: self._check_truncate_policy(secret)" in compact
                   or "if self.use_defaults: if isinstance(secret, str): self._check_truncate_policy(secret.upper().encode(self.encoding)) else: self._check_truncate_policy(secret)" in compact
                   or ("if new: cls._check_truncate_policy(secret)" in compact and "new=self.use_defaults" in compact))
        own = "if len(secret) > self.truncate_size: if self.use_defaults:" in compact      # cisco_pix / cisco_asa: their own size check
        if not (guarded or own):
            raise Untranslatable(f"{name}: cannot see where the truncation policy is applied")
        rows.append(f"({lean_str(name)}, {int(ts)}, {'true' if guarded else 'false'}, {'true' if bool(target.truncate_verify_reject) else 'false'})")
    out.append("/-- (hasher, truncate_size, applies TruncateMixin's policy and only under `use_defaults` i.e. in hash(), truncate_verify_reject) -/")
    out.append("def truncating : List (String × Nat × Bool × Bool) :=\n  [" + ",\n   ".join(rows) + "]\n")
    out.append("end Gen.Verify")
    return "\n".join(out) + "\n"
