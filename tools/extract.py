#!/venv/bin/python
"""CLI of the translator; see extract_core.py."""
from __future__ import annotations

import argparse
import importlib
import json
import os
import sys
import traceback

HERE = os.path.dirname(os.path.abspath(__file__))
sys.path.insert(0, HERE)
from extract_core import UNITS  # noqa: E402

# units register themselves on import
for _m in sorted(os.listdir(HERE)):
    if _m.startswith("extract_units_") and _m.endswith(".py"):
        importlib.import_module(_m[:-3])

# ---------------------------------------------------------------------------------------
def write_if_changed(path: str, text: str) -> bool:
    try:
        with open(path, encoding="utf-8") as fh:
            if fh.read() == text:
                return False
    except FileNotFoundError:
        pass
    tmp = path + ".tmp"
    with open(tmp, "w", encoding="utf-8") as fh:
        fh.write(text)
    os.replace(tmp, path)
    return True


def main():
    ap = argparse.ArgumentParser()
    ap.add_argument("--out", default=os.path.join(HERE, "..", "lean", "PasslibVerif", "Gen"))
    ap.add_argument("--units", default="")
    ap.add_argument("--status", default="")
    a = ap.parse_args()
    os.makedirs(a.out, exist_ok=True)
    names = [u for u in a.units.split(",") if u] or list(UNITS)
    status = {}
    for nm in names:
        path = os.path.join(a.out, nm + ".lean")
        try:
            text = UNITS[nm]()
            changed = write_if_changed(path, text)
            status[nm] = {"ok": True, "changed": changed}
        except Exception as err:  # noqa: BLE001
            msg = f"{type(err).__name__}: {err}"
            # keep the last good translation in place (other properties' drivers are linked against it); the failure is carried by
            # the status file, which the runner turns into a broken translate:<unit> obligation.  Only when there is nothing usable
            # (first run, or a marker left by an older version) is a marker written, which then fails the build as well.
            try:
                cur = open(path, encoding="utf-8").read()
            except OSError:
                cur = ""
            if not cur or cur.startswith("-- EXTRACTION FAILED"):
                write_if_changed(path, "-- EXTRACTION FAILED for unit " + nm + ": " + " ".join(str(msg).split()) + "\n")
            status[nm] = {"ok": False, "error": msg, "trace": traceback.format_exc()[-2000:]}
    js = json.dumps(status, indent=1, sort_keys=True)
    if a.status:
        with open(a.status, "w") as fh:
            fh.write(js)
    else:
        print(js)
    return 0


if __name__ == "__main__":
    sys.exit(main())
