"""Deterministic scheduler for REAL threads on the real passlib code (C19).  No change to /repo.

  * `sys.settrace` / `threading.settrace` line events inside the functions of a protocol hand control to a central scheduler:
    a thread stops whenever it is about to execute a source line that carries a shared access (the "preemption lines",
    computed by the translator, tools/extract_units_threads.py) and continues only when the schedule names it.  A schedule is
    a list of thread numbers; each entry lets that thread run from its current preemption line to its next one (a quantum).
  * the module level RLock of the protocol (`_lazy_init_lock`, `_backend_lock`) is replaced, in this process only, by a
    scheduler aware re-entrant lock: a thread that would block reports "blocked" and yields; it retries when scheduled again.
  * only the outermost activation of the protocol's entry function and the functions it calls directly (the inlined call tree
    of the translator) are traced; re-entrant activations (e.g. `__getattribute__` called from `CryptContext.__init__`) and
    everything else run untraced inside the current quantum.
  * when the schedule is used up the remaining threads are run to completion, lowest runnable thread first (the same rule
    as `modeldrv threads qrun`).
  * every schedule runs in a forked child process (class level / registry state is process global).

Result of a run: {"trace": [[thread, line-tag], …], "out": ["ok:<v>" | "exc:<Class>" | "-"], "notes": […]}
"""
from __future__ import annotations

import json
import os
import sys
import threading
import time
import traceback

HERE = os.path.dirname(os.path.abspath(__file__))
REPO = os.environ.get("PASSLIB_REPO", "/repo")

SHARED_OPS = {"load", "loadG", "store", "storeR", "swap", "initBegin", "initEnd", "onload", "importOnce", "acquire", "release", "use"}
FILES = {1: "passlib/context.py", 2: "passlib/utils/binary.py", 3: "passlib/utils/handlers.py", 4: "passlib/utils/__init__.py",
         5: "passlib/handlers/bcrypt.py", 6: "passlib/registry.py", 7: "passlib/handlers/md5_crypt.py"}
KIND_NAMES = ["MissingBackendError", "AttributeError", "TypeError", "AssertionError", "KeyError", "RuntimeError", "ValueError"]


def preemption_lines(prog):
    return sorted({t for ins, t in zip(prog["code"], prog["tags"]) if ins[0] in SHARED_OPS and t})


def canon_exc(e: BaseException) -> str:
    for nm in KIND_NAMES:
        for k in type(e).__mro__:
            if k.__name__ == nm:
                return "exc:" + nm
    return "exc:" + type(e).__name__


# ---------------------------------------------------------------------------------------------------------------------
class ThreadState:
    def __init__(self, idx):
        self.idx = idx
        self.go = threading.Semaphore(0)
        self.at = 0              # tag of the line the thread is paused at (0 = not started)
        self.finished = False
        self.blocked = False
        self.stack = []          # traced frames
        self.root_done = False
        self.out = "-"


class SchedLock:
    """re-entrant lock that yields to the scheduler instead of blocking"""

    def __init__(self, sched):
        self.sched = sched
        self.owner = None
        self.depth = 0

    def acquire(self, blocking=True, timeout=-1):
        st = getattr(self.sched.tls, "st", None)
        me = st if st is not None else threading.get_ident()
        while True:
            if self.owner is None or self.owner is me or self.owner == me:
                self.owner = me
                self.depth += 1
                return True
            if st is None:
                time.sleep(0.0005)      # an uncontrolled thread (not used during scheduled runs)
                continue
            st.blocked = True
            self.sched.pause(st)
            st.blocked = False

    def release(self):
        self.depth -= 1
        if self.depth == 0:
            self.owner = None

    __enter__ = acquire

    def __exit__(self, *a):
        self.release()
        return False


class Sched:
    def __init__(self, n, points, codes, root_code, timeout=30.0):
        """points: set of tags; codes: {code object: file id}; root_code: the entry function's code object"""
        self.n = n
        self.points = set(points)
        self.codes = codes
        self.root_code = root_code
        self.timeout = timeout
        self.tls = threading.local()
        self.ctl = threading.Semaphore(0)
        self.states = [ThreadState(i) for i in range(n)]
        self.lock = SchedLock(self)
        self.trace = []
        self.notes = []

    # -- called in the worker threads
    def pause(self, st):
        self.ctl.release()
        st.go.acquire()

    def gtrace(self, frame, event, arg):
        st = getattr(self.tls, "st", None)
        if st is None or st.root_done or event != "call":
            return None
        code = frame.f_code
        if code not in self.codes:
            return None
        if not st.stack:
            if code is self.root_code:
                st.stack.append(frame)
                return self.ltrace
            return None
        if frame.f_back is st.stack[-1] and code is not self.root_code:
            st.stack.append(frame)
            return self.ltrace
        return None

    def ltrace(self, frame, event, arg):
        st = self.tls.st
        if event == "line":
            tag = self.codes[frame.f_code] * 100000 + frame.f_lineno
            if tag in self.points:
                st.at = tag
                self.pause(st)
        elif event == "return":
            if st.stack and st.stack[-1] is frame:
                st.stack.pop()
                if not st.stack:
                    st.root_done = True
        return self.ltrace

    def body(self, st, fn):
        self.tls.st = st
        st.go.acquire()
        sys.settrace(self.gtrace)
        try:
            st.out = fn(st.idx)
        except BaseException as e:  # noqa: BLE001
            st.out = canon_exc(e)
            st.err = "".join(traceback.format_exception_only(type(e), e)).strip()[-300:]
        finally:
            sys.settrace(None)
            st.finished = True
            self.ctl.release()

    # -- called in the scheduler (main) thread
    def runnable(self, st):
        if st.finished:
            return False
        if st.blocked and self.lock.owner is not None and self.lock.owner is not st:
            return False
        return True

    def quantum(self, t):
        st = self.states[t]
        self.trace.append([t, st.at])
        st.go.release()
        if not self.ctl.acquire(timeout=self.timeout):
            self.notes.append(f"thread {t} did not come back within {self.timeout}s")
            raise TimeoutError

    def run(self, fn, schedule):
        threads = [threading.Thread(target=self.body, args=(st, fn), daemon=True) for st in self.states]
        for th in threads:
            th.start()
        try:
            for t in schedule:
                if t >= self.n or self.states[t].finished:
                    continue
                self.quantum(t)
            for _ in range(5000):
                rs = [st.idx for st in self.states if self.runnable(st)]
                if not rs:
                    break
                self.quantum(rs[0])
        except TimeoutError:
            pass
        if not all(st.finished for st in self.states):
            self.notes.append("not all threads finished (deadlock or hang): " + ",".join(str(st.idx) for st in self.states if not st.finished))
        return {"trace": self.trace, "out": [st.out if st.finished else "-" for st in self.states], "notes": self.notes,
                "errors": [getattr(st, "err", None) for st in self.states]}


# ---------------------------------------------------------------------------------------------------------------------
# targets: what "a first call" is for every protocol, on the real code
# ---------------------------------------------------------------------------------------------------------------------
MD5_HASH = None        # reference values, computed in prepare() without touching the lazy machinery
BCRYPT_HASH = None
ENG_REF = None


def resolve(mod, qual):
    import importlib

    obj = importlib.import_module(mod)
    for part in qual.split("."):
        obj = obj.__dict__[part] if isinstance(obj, type) and part in obj.__dict__ else getattr(obj, part)
    obj = getattr(obj, "__func__", obj)
    return obj.__code__


TRACED = {
    "ctx": ([("passlib.context", "LazyCryptContext.__getattribute__", 1), ("passlib.context", "LazyCryptContext._lazy_init", 1)], ("passlib.context", "_lazy_init_lock")),
    "eng": ([("passlib.utils.binary", "LazyBase64Engine.__getattribute__", 2), ("passlib.utils.binary", "LazyBase64Engine._lazy_init", 2)], ("passlib.utils.binary", "_lazy_init_lock")),
    "stub": ([("passlib.utils.handlers", "HasManyBackends._calc_checksum", 3), ("passlib.utils.handlers", "HasManyBackends._calc_checksum_backend", 3),
              ("passlib.utils.handlers", "BackendMixin._stub_requires_backend", 3), ("passlib.utils.handlers", "BackendMixin.set_backend", 3),
              ("passlib.utils.handlers", "BackendMixin._set_backend", 3), ("passlib.utils.handlers", "HasManyBackends._set_calc_checksum_backend", 3),
              ("passlib.handlers.md5_crypt", "md5_crypt._load_backend_os_crypt", 7), ("passlib.handlers.md5_crypt", "md5_crypt._load_backend_builtin", 7)],
             ("passlib.utils.handlers", "_backend_lock")),
    "bcStub": ([("passlib.handlers.bcrypt", "_NoBackend._calc_checksum", 5), ("passlib.utils.handlers", "BackendMixin._stub_requires_backend", 3),
                ("passlib.utils.handlers", "BackendMixin.set_backend", 3), ("passlib.utils.handlers", "SubclassBackendMixin._set_backend", 3),
                ("passlib.utils.handlers", "BackendMixin._set_backend", 3), ("passlib.utils", "update_mixin_classes", 4)],
               ("passlib.utils.handlers", "_backend_lock")),
    "reg": ([("passlib.registry", "get_crypt_handler", 6), ("passlib.registry", "register_crypt_handler", 6)], None),
}
TRACED["ctxOnload"] = TRACED["ctx"]


class Target:
    """the real objects of one protocol; `prepare()` runs in the parent (imports), `fresh()` and `call()` in the forked child"""

    def __init__(self, proto):
        self.proto = proto
        self.onload_calls = 0

    def prepare(self):
        import warnings

        warnings.simplefilter("ignore")
        p = self.proto
        if p in ("ctx", "ctxOnload"):
            from passlib.context import CryptContext

            CryptContext(schemes=["md5_crypt", "des_crypt"])          # the handlers are loaded before the runs
        elif p == "eng":
            from passlib.utils.binary import HASH64_CHARS, Base64Engine

            global ENG_REF
            ENG_REF = Base64Engine(HASH64_CHARS).encode_bytes(b"abc")
        elif p == "stub":
            import passlib.handlers.md5_crypt as m5

            global MD5_HASH
            MD5_HASH = "$1$saltsalt$" + m5._raw_md5_crypt(b"password", "saltsalt")
        elif p == "bcStub":
            import passlib.handlers.bcrypt  # noqa: F401
            import bcrypt as pkg

            global BCRYPT_HASH
            BCRYPT_HASH = pkg.hashpw(b"password", b"$2b$04$abcdefghijklmnopqrstuO").decode()
        elif p == "reg":
            import passlib.registry  # noqa: F401

            if "passlib.handlers.md5_crypt" in sys.modules:
                raise RuntimeError("md5_crypt is already imported in this process")

    def fresh(self):
        p = self.proto
        if p == "ctx":
            from passlib.context import LazyCryptContext

            self.obj = LazyCryptContext(schemes=["md5_crypt"])
        elif p == "ctxOnload":
            from passlib.context import LazyCryptContext

            def onload(**kwds):
                self.onload_calls += 1
                return dict(schemes=["md5_crypt"])

            self.obj = LazyCryptContext(schemes=["des_crypt"], onload=onload)
        elif p == "eng":
            from passlib.utils.binary import HASH64_CHARS, LazyBase64Engine

            self.obj = LazyBase64Engine(HASH64_CHARS)

    def call(self, i):
        """one first call; the canonical outcome of the model: ok:<value number>"""
        p = self.proto
        if p == "ctx":
            r = self.obj.schemes()
            return "ok:4" if tuple(r) == ("md5_crypt",) else f"ok:?{r!r}"
        if p == "ctxOnload":
            r = tuple(self.obj.schemes())
            return "ok:5" if r == ("md5_crypt",) else ("ok:4" if r == ("des_crypt",) else f"ok:?{r!r}")
        if p == "eng":
            r = self.obj.encode_bytes(b"abc")
            return "ok:2" if r == ENG_REF else f"ok:?{r!r}"
        if p == "stub":
            from passlib.handlers.md5_crypt import md5_crypt

            r = md5_crypt.verify("password", MD5_HASH)
            return "ok:2" if r is True else f"ok:?{r!r}"
        if p == "bcStub":
            from passlib.handlers.bcrypt import bcrypt

            r = bcrypt.verify("password", BCRYPT_HASH)
            return "ok:2" if r is True else f"ok:?{r!r}"
        if p == "reg":
            from passlib import registry

            h = registry.get_crypt_handler("md5_crypt")
            return "ok:2" if getattr(h, "name", None) == "md5_crypt" else f"ok:?{h!r}"
        raise KeyError(p)

    def after(self):
        notes = []
        if self.proto == "ctxOnload" and self.onload_calls > 1:
            notes.append(f"onload called {self.onload_calls} times")
        return notes


def scheduled_run(proto, n, schedule, points, timeout=30.0, target=None):
    """run one schedule on the real code in THIS process (call it in a forked child)"""
    import importlib

    target = target or Target(proto)
    funcs, lockref = TRACED[proto]
    codes = {}
    for mod, qual, fid in funcs:
        try:
            codes[resolve(mod, qual)] = fid
        except (AttributeError, KeyError):
            pass      # e.g. a loader that does not exist in this tree
    root = resolve(*funcs[0][:2])
    if points == "all-lines":
        # no translation available (search after a broken translation): preempt at every line of the protocol's functions
        points = {fid * 100000 + ln for code, fid in codes.items() for (_a, _b, ln) in code.co_lines() if ln}
    s = Sched(n, points, codes, root, timeout)
    if lockref:
        setattr(importlib.import_module(lockref[0]), lockref[1], s.lock)
    target.fresh()
    res = s.run(target.call, schedule)
    res["notes"] += target.after()
    return res


def forked(fn, timeout=120.0):
    """run fn() in a forked child, return its JSON-able result"""
    r, w = os.pipe()
    pid = os.fork()
    if pid == 0:
        code = 0
        try:
            os.close(r)
            try:
                res = fn()
            except BaseException as e:  # noqa: BLE001
                res = {"crash": "".join(traceback.format_exception(type(e), e, e.__traceback__))[-1500:]}
            with os.fdopen(w, "w") as fh:
                json.dump(res, fh)
        except BaseException:  # noqa: BLE001
            code = 1
        finally:
            os._exit(code)
    os.close(w)
    data = b""
    t0 = time.time()
    import select

    with os.fdopen(r, "rb") as fh:
        while True:
            ready, _, _ = select.select([fh], [], [], 1.0)
            if ready:
                chunk = fh.read()
                data += chunk
                break
            if time.time() - t0 > timeout:
                try:
                    os.kill(pid, 9)
                except OSError:
                    pass
                break
    os.waitpid(pid, 0)
    if not data:
        return {"crash": "no answer from the child (timeout)"}
    return json.loads(data)


def free_run(proto, n, target=None):
    """free running stress: n threads released by a barrier make their first call concurrently (call it in a forked child)"""
    target = target or Target(proto)
    sys.setswitchinterval(1e-6)
    target.fresh()
    bar = threading.Barrier(n)
    outs = ["-"] * n

    def body(i):
        bar.wait()
        try:
            outs[i] = target.call(i)
        except BaseException as e:  # noqa: BLE001
            outs[i] = canon_exc(e) + ": " + str(e)[:80]

    ths = [threading.Thread(target=body, args=(i,)) for i in range(n)]
    for th in ths:
        th.start()
    for th in ths:
        th.join(60)
    return {"out": outs, "notes": target.after()}


SLOW_MOD = """
import hashlib, time
import passlib.utils.handlers as uh
time.sleep({delay})
class c19_slow_hash(uh.StaticHandler):
    name = "c19_slow_hash"
    checksum_chars = uh.LOWER_HEX_CHARS
    checksum_size = 32
    def _calc_checksum(self, secret):
        if isinstance(secret, str):
            secret = secret.encode("utf-8")
        return hashlib.md5(secret).hexdigest()
time.sleep({delay})
"""


def slow_run(proto, n, delay=0.15):
    """real threads, the initialisation made slow through the public API (a waiting onload callback, a waiting character map, a module
    whose import waits), the other threads released while the first one is inside it.  Call it in a forked child.
    Every thread must get the single-thread result; the initialisation must run once."""
    import tempfile
    import shutil

    sys.setswitchinterval(1e-5)
    calls = []
    tmp = None
    if proto in ("ctx", "ctxOnload"):
        from passlib.context import LazyCryptContext

        def onload(**kwds):
            calls.append(1)
            time.sleep(delay)
            return dict(schemes=["md5_crypt"])

        def schemes_iter():
            time.sleep(delay)
            yield "md5_crypt"

        obj = LazyCryptContext(schemes=["des_crypt"], onload=onload) if proto == "ctxOnload" else LazyCryptContext(schemes=schemes_iter())

        def call(i):
            r = tuple(obj.schemes()) if i % 2 == 0 else (obj.identify("$1$saltsalt$qjXMvbEw8oaL.CzflDtaK/"),)
            return "ok" if r == ("md5_crypt",) else f"wrong:{r!r}"
    elif proto == "eng":
        from passlib.utils.binary import HASH64_CHARS, Base64Engine, LazyBase64Engine

        class SlowStr(str):
            def encode(self, *a, **k):
                time.sleep(delay)
                return str.encode(self, *a, **k)

        ref = Base64Engine(HASH64_CHARS).encode_bytes(b"abc")
        obj = LazyBase64Engine(SlowStr(HASH64_CHARS))

        def call(i):
            r = obj.encode_bytes(b"abc") if i % 2 == 0 else obj.decode_bytes(ref)
            return "ok" if r in (ref, b"abc") else f"wrong:{r!r}"
    elif proto == "reg":
        from passlib import registry

        tmp = tempfile.mkdtemp(prefix="c19slow_")
        with open(os.path.join(tmp, "c19_slowmod.py"), "w") as fh:
            fh.write(SLOW_MOD.format(delay=delay))
        sys.path.insert(0, tmp)
        registry.register_crypt_handler_path("c19_slow_hash", "c19_slowmod")

        def call(i):
            h = registry.get_crypt_handler("c19_slow_hash")
            return "ok" if getattr(h, "name", None) == "c19_slow_hash" and h.verify("pw", h.hash("pw")) else f"wrong:{h!r}"
    else:
        return {"out": [], "notes": [], "skipped": True}
    outs = ["-"] * n

    def body(i):
        if i:
            time.sleep(delay * (0.3 + 0.5 * i / n))       # land inside the first thread's initialisation
        try:
            outs[i] = call(i)
        except BaseException as e:  # noqa: BLE001
            outs[i] = canon_exc(e) + ": " + str(e)[:120]

    ths = [threading.Thread(target=body, args=(i,)) for i in range(n)]
    for th in ths:
        th.start()
    for th in ths:
        th.join(60)
    notes = []
    if proto == "ctxOnload" and len(calls) != 1:
        notes.append(f"onload called {len(calls)} times")
    if tmp:
        shutil.rmtree(tmp, ignore_errors=True)
    return {"out": outs, "notes": notes}


def mixed_run(kind, reps=1):
    """first use from one thread while another thread does something else on the same object (call it in a forked child):
    has-during-load: A makes the first hash() of a fresh many-backend hasher whose loader waits; B asks has_backend() meanwhile
    list-during-load: A enumerates the registry in a loop while B..E look up every unloaded name for the first time
    records-first-call: the first identify()/verify() calls of fresh multi-scheme contexts, from several threads at once
    -> {"bad": [descriptions], "runs": n}"""
    import hashlib

    bad, runs = [], 0
    sys.setswitchinterval(1e-6)
    if kind == "has-during-load":
        import passlib.utils.handlers as uh

        for rep in range(reps):
            class c19_slow_backend(uh.HasManyBackends, uh.StaticHandler):
                name = "c19_slow_backend"
                backends = ("first", "second")
                checksum_chars = uh.LOWER_HEX_CHARS
                checksum_size = 32

                @classmethod
                def _load_backend_first(cls):
                    time.sleep(0.12)
                    cls._set_calc_checksum_backend(cls._calc_first)
                    time.sleep(0.12)
                    return True

                @classmethod
                def _load_backend_second(cls):
                    cls._set_calc_checksum_backend(cls._calc_first)
                    return True

                def _calc_first(self, secret):
                    return hashlib.md5(secret if isinstance(secret, bytes) else secret.encode()).hexdigest()

            h = c19_slow_backend
            want = hashlib.md5(b"letmein").hexdigest()
            out = {}

            def A():
                try:
                    out["A"] = h.hash("letmein")
                except BaseException as e:  # noqa: BLE001
                    out["A"] = canon_exc(e)

            def B(which):
                time.sleep(0.05 + 0.1 * (rep % 2))
                try:
                    out["B"] = h.has_backend(which)
                except BaseException as e:  # noqa: BLE001
                    out["B"] = canon_exc(e)

            which = ("first", "second", "any")[rep % 3]
            ta, tb = threading.Thread(target=A), threading.Thread(target=B, args=(which,))
            ta.start()
            tb.start()
            ta.join(30)
            tb.join(30)
            try:
                later = h.verify("letmein", want)
            except BaseException as e:  # noqa: BLE001
                later = canon_exc(e)
            runs += 1
            if out.get("A") != want or out.get("B") is not True or later is not True:
                bad.append({"first_hash": out.get("A"), "has_backend(%s)" % which: out.get("B"), "verify_afterwards": later, "expected": [want, True, True]})
    elif kind == "list-during-load":
        from passlib import registry

        names = [n for n in registry.list_crypt_handlers() if n not in registry.list_crypt_handlers(loaded_only=True)]
        stop = threading.Event()
        errs, counts = [], [0]

        def lister():
            while not stop.is_set():
                try:
                    got = registry.list_crypt_handlers()
                    counts[0] += 1
                    if "md5_crypt" not in got or got != sorted(got):
                        errs.append("list without md5_crypt / unsorted")
                except BaseException as e:  # noqa: BLE001
                    errs.append(canon_exc(e) + ": " + str(e)[:80])

        def loader(part):
            for n in part:
                try:
                    hh = registry.get_crypt_handler(n)
                    if hh.name != n:
                        errs.append(f"{n} -> {hh.name}")
                except BaseException as e:  # noqa: BLE001
                    if "MissingBackend" not in type(e).__name__:
                        errs.append(n + ": " + canon_exc(e))

        tl = [threading.Thread(target=lister) for _ in range(2)]
        tw = [threading.Thread(target=loader, args=(names[i::4],)) for i in range(4)]
        for t in tl + tw:
            t.start()
        for t in tw:
            t.join(60)
        stop.set()
        for t in tl:
            t.join(10)
        runs = counts[0]
        if errs:
            bad.append({"errors": errs[:3], "failed_enumerations_or_lookups": len(errs), "enumerations": counts[0], "first_lookups": len(names)})
    elif kind == "records-first-call":
        from passlib.context import CryptContext, LazyCryptContext
        from passlib.hash import des_crypt, ldap_md5, md5_crypt

        samples = {"md5_crypt": md5_crypt.hash("pw"), "ldap_md5": ldap_md5.hash("pw"), "des_crypt": des_crypt.hash("pw")}
        for rep in range(reps):
            schemes = ["sha256_crypt", "sha512_crypt", "des_crypt", "ldap_md5", "md5_crypt"]
            c = CryptContext(schemes=schemes) if rep % 2 == 0 else LazyCryptContext(schemes=schemes)
            cat = None if rep % 3 else "admin"
            bar = threading.Barrier(4)
            outs = [None] * 4

            def body(i):
                nm = ("md5_crypt", "ldap_md5", "des_crypt", "md5_crypt")[i]
                bar.wait()
                try:
                    outs[i] = (c.identify(samples[nm], category=cat), c.verify("pw", samples[nm], category=cat), nm)
                except BaseException as e:  # noqa: BLE001
                    outs[i] = (canon_exc(e), None, nm)

            ths = [threading.Thread(target=body, args=(i,)) for i in range(4)]
            for t in ths:
                t.start()
            for t in ths:
                t.join(30)
            runs += 1
            wrong = [o for o in outs if o is None or o[0] != o[2] or o[1] is not True]
            if wrong:
                bad.append({"first_calls": wrong[:2], "context": type(c).__name__, "category": cat, "expected": "(scheme name, True)"})
                if len(bad) >= 3:
                    break
    return {"bad": bad, "runs": runs}


# ---------------------------------------------------------------------------------------------------------------------
# worker process: one protocol, many schedules (each in a forked child)
# ---------------------------------------------------------------------------------------------------------------------
def worker_main():
    """stdin: {"repo": root or [roots], "proto", "n", "points": [...], "schedules": [[...], ...], "free": k, "free_n": m}
    stdout: {"runs": [...], "free": [...]}"""
    req = json.load(sys.stdin)
    for r in reversed(req["repo"] if isinstance(req["repo"], list) else [req["repo"]]):
        sys.path.insert(0, r)
    proto = req["proto"]
    tgt = Target(proto)
    tgt.prepare()
    out = {"runs": [], "free": []}
    for sch in req.get("schedules", []):
        out["runs"].append(forked(lambda sch=sch: scheduled_run(proto, req["n"], sch, req["points"], target=Target(proto))))
    for _ in range(req.get("free", 0)):
        out["free"].append(forked(lambda: free_run(proto, req.get("free_n", 8), target=Target(proto))))
    for kind, reps in (req.get("mixed") or {}).items():
        out.setdefault("mixed", {})[kind] = forked(lambda kind=kind, reps=reps: mixed_run(kind, reps), timeout=300.0)
    for _ in range(req.get("slow", 0)):
        out.setdefault("slow", []).append(forked(lambda: slow_run(proto, req.get("slow_n", 4))))
    json.dump(out, sys.stdout)


if __name__ == "__main__":
    worker_main()
