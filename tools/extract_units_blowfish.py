"""unit Blowfish: passlib.crypto._blowfish  (tables reflected, unrolled.py translated).

reflect   BLOWFISH_P (18), BLOWFISH_S (4 x 256, emitted as 16 rows of 64), BCRYPT_CDATA,
          digest_struct.format, BNULL
expr      unrolled.py `BlowfishEngine.encipher(self, l, r)`: the tuple unpacking of
          self.P / self.S, `l ^= p0`, the 16 straight-line Feistel statements and the
          `return r ^ p17, l` are translated statement by statement (SSA lets) with
          pyexpr2lean; any other statement shape is refused.
skeleton  unrolled.py `BlowfishEngine.expand(self, key_words)`: the statement list is
          checked against the only accepted skeleton
              P, S = self.P, self.S ; S0..S3 = S ; p_i = P[i] ^ key_words[i] (i = 0..17)
              l, r = p0, 0 ; <16 rounds> ; p0, p1 = l, r = r ^ p17, l
              8 x [ l ^= p0 ; <16 rounds> ; p_2k, p_2k+1 = l, r = r ^ p17, l ]
              P[:] = (p0, .., p17)
              for box in S: j = 0; while j < 256: l ^= p0 ; <16 rounds> ;
                                   box[j], box[j+1] = l, r = r ^ p17, l ; j += 2
          where every <16 rounds> block must be AST-identical (ast.dump) to the 16 Feistel
          statements of `encipher`; the emitted Lean calls the translated `feistelRounds`
          at those places.  Anything else -> Untranslatable.
"""
from __future__ import annotations

import ast
import os
import sys

HERE = os.path.dirname(os.path.abspath(__file__))
for _p in (HERE,):
    if os.path.exists(os.path.join(_p, "extract_core.py")) and _p not in sys.path:
        sys.path.insert(0, _p)

from extract_core import unit, src_ast, find_def, strip_doc, Untranslatable, expr  # noqa: E402

SRC = "passlib/crypto/_blowfish/unrolled.py"
PN = ["p%d" % i for i in range(18)]
SN = ["S0", "S1", "S2", "S3"]


# ---------------------------------------------------------------------------------------
# expression translation: pyexpr2lean + subscripts of the known containers
# ---------------------------------------------------------------------------------------
class _Sub(ast.NodeTransformer):
    """`X[e]` (load) for a known container name X  ->  call `__idx_X(e)`."""

    def __init__(self, containers):
        self.containers = containers

    def visit_Subscript(self, n):
        n = self.generic_visit(n)
        if isinstance(n.value, ast.Name) and n.value.id in self.containers and isinstance(n.ctx, ast.Load):
            if isinstance(n.slice, ast.Slice):
                raise Untranslatable("slice of " + n.value.id)
            return ast.Call(func=ast.Name(id="__idx_" + n.value.id, ctx=ast.Load()), args=[n.slice], keywords=[])
        raise Untranslatable("subscript " + ast.unparse(n))


def tr(node, env, arrays=(), lists=()):
    """translate an int expression; `arrays` are S-boxes (Lean Array), `lists` Lean lists."""
    env = dict(env)
    for a in arrays:
        env["__idx_" + a] = "lookup " + a
    for a in lists:
        env["__idx_" + a] = "lookupL " + a
    import copy

    node = _Sub(set(arrays) | set(lists)).visit(copy.deepcopy(node))
    return expr(node, "nat", env)


def is_name(n, ident):
    return isinstance(n, ast.Name) and n.id == ident


def names_tuple(n, idents):
    return isinstance(n, ast.Tuple) and len(n.elts) == len(idents) and all(is_name(e, i) for e, i in zip(n.elts, idents))


def dump(stmts):
    return [ast.dump(s) for s in stmts]


# ---------------------------------------------------------------------------------------
# encipher
# ---------------------------------------------------------------------------------------
def split_encipher(fn: ast.FunctionDef):
    """-> (first stmt `l ^= p0`, 16 Feistel stmts, return stmt) after checking the prologue."""
    args = [a.arg for a in fn.args.args]
    if args != ["self", "l", "r"] or fn.args.vararg or fn.args.kwarg or fn.args.defaults:
        raise Untranslatable("encipher signature " + repr(args))
    body = strip_doc(fn.body)
    if len(body) != 20:
        raise Untranslatable("encipher: expected 20 statements, found %d" % len(body))
    s0, s1 = body[0], body[1]
    if not (isinstance(s0, ast.Assign) and len(s0.targets) == 1 and names_tuple(s0.targets[0], PN) and ast.unparse(s0.value) == "self.P"):
        raise Untranslatable("encipher: first statement is not (p0..p17) = self.P")
    if not (isinstance(s1, ast.Assign) and len(s1.targets) == 1 and names_tuple(s1.targets[0], SN) and ast.unparse(s1.value) == "self.S"):
        raise Untranslatable("encipher: second statement is not S0..S3 = self.S")
    first = body[2]
    if not (isinstance(first, ast.AugAssign) and is_name(first.target, "l") and isinstance(first.op, ast.BitXor) and is_name(first.value, "p0")):
        raise Untranslatable("encipher: third statement is not l ^= p0")
    rounds = body[3:19]
    for k, s in enumerate(rounds):
        want = "r" if k % 2 == 0 else "l"
        if not (isinstance(s, ast.AugAssign) and is_name(s.target, want) and isinstance(s.op, ast.BitXor)):
            raise Untranslatable("encipher: round %d is not `%s ^= ...`" % (k, want))
        # the only names a round may mention
        used = {n.id for n in ast.walk(s.value) if isinstance(n, ast.Name)}
        other = "l" if want == "r" else "r"
        if not used <= {other, "p%d" % (k + 1), *SN}:
            raise Untranslatable("encipher: round %d mentions %s" % (k, sorted(used)))
    ret = body[19]
    if not (isinstance(ret, ast.Return) and isinstance(ret.value, ast.Tuple) and len(ret.value.elts) == 2):
        raise Untranslatable("encipher: last statement is not `return a, b`")
    return first, rounds, ret


def lean_feistel_rounds(rounds, ret) -> str:
    env = {"l": "l", "r": "r", **{p: p for p in PN[1:]}}
    cnt = {"l": 0, "r": 0}
    lets = []
    for s in rounds:
        fake = ast.BinOp(left=ast.Name(id=s.target.id, ctx=ast.Load()), op=s.op, right=s.value)
        rhs = tr(fake, env, arrays=SN)
        cnt[s.target.id] += 1
        nm = "%s_%d" % (s.target.id, cnt[s.target.id])
        lets.append("let %s := %s" % (nm, rhs))
        env[s.target.id] = nm
    a, b = ret.value.elts
    res = "(%s, %s)" % (tr(a, env, arrays=SN), tr(b, env, arrays=SN))
    sig = "def feistelRounds (%s : Nat) (S0 S1 S2 S3 : Array Nat) (l r : Nat) : Nat × Nat :=\n  " % " ".join(PN[1:])
    return sig + "\n  ".join(lets + [res]) + "\n"


# ---------------------------------------------------------------------------------------
# expand (skeleton)
# ---------------------------------------------------------------------------------------
def chained_pair_assign(s, t0, t1):
    """`t0, t1 = l, r = (r ^ p17, l)` -> value tuple or None; t0/t1 are unparse()d targets"""
    if not (isinstance(s, ast.Assign) and len(s.targets) == 2):
        return None
    a, b = s.targets
    if not (isinstance(a, ast.Tuple) and len(a.elts) == 2 and ast.unparse(a.elts[0]) == t0 and ast.unparse(a.elts[1]) == t1):
        return None
    if not names_tuple(b, ["l", "r"]):
        return None
    if not (isinstance(s.value, ast.Tuple) and len(s.value.elts) == 2):
        return None
    return s.value


def check_expand(fn: ast.FunctionDef, first, rounds, ret):
    args = [a.arg for a in fn.args.args]
    if args != ["self", "key_words"]:
        raise Untranslatable("expand signature " + repr(args))
    body = strip_doc(fn.body)
    rd = dump(rounds)
    retd = ast.dump(ret.value)
    firstd = ast.dump(first)
    pos = 0

    def nxt():
        nonlocal pos
        if pos >= len(body):
            raise Untranslatable("expand: ran out of statements")
        pos += 1
        return body[pos - 1]

    if ast.unparse(nxt()) != "P, S = (self.P, self.S)":
        raise Untranslatable("expand: prologue 1")
    if ast.unparse(nxt()) != "S0, S1, S2, S3 = S":
        raise Untranslatable("expand: prologue 2")
    for i in range(18):
        if ast.unparse(nxt()) != "p%d = P[%d] ^ key_words[%d]" % (i, i, i):
            raise Untranslatable("expand: key xor statement %d" % i)
    if ast.unparse(nxt()) != "l, r = (p0, 0)":
        raise Untranslatable("expand: first block start")

    def rounds_block(where, stmts):
        if dump(stmts) != rd:
            raise Untranslatable("expand: rounds of %s differ from encipher's" % where)

    rounds_block("P block 0", [nxt() for _ in range(16)])
    v = chained_pair_assign(nxt(), "p0", "p1")
    if v is None or ast.dump(v) != retd:
        raise Untranslatable("expand: P block 0 end")
    for k in range(1, 9):
        if ast.dump(nxt()) != firstd:
            raise Untranslatable("expand: P block %d does not start with l ^= p0" % k)
        rounds_block("P block %d" % k, [nxt() for _ in range(16)])
        v = chained_pair_assign(nxt(), "p%d" % (2 * k), "p%d" % (2 * k + 1))
        if v is None or ast.dump(v) != retd:
            raise Untranslatable("expand: P block %d end" % k)
    if ast.unparse(nxt()) != "P[:] = (%s)" % ", ".join(PN):
        raise Untranslatable("expand: P[:] = ...")
    loop = nxt()
    if pos != len(body):
        raise Untranslatable("expand: trailing statements")
    if not (isinstance(loop, ast.For) and is_name(loop.target, "box") and is_name(loop.iter, "S") and not loop.orelse and len(loop.body) == 2):
        raise Untranslatable("expand: for box in S")
    if ast.unparse(loop.body[0]) != "j = 0":
        raise Untranslatable("expand: j = 0")
    w = loop.body[1]
    if not (isinstance(w, ast.While) and ast.unparse(w.test) == "j < 256" and not w.orelse and len(w.body) == 19):
        raise Untranslatable("expand: while j < 256")
    if ast.dump(w.body[0]) != firstd:
        raise Untranslatable("expand: S body does not start with l ^= p0")
    rounds_block("S body", w.body[1:17])
    v = chained_pair_assign(w.body[17], "box[j]", "box[j + 1]")
    if v is None or ast.dump(v) != retd:
        raise Untranslatable("expand: S body end")
    if ast.unparse(w.body[18]) != "j += 2":
        raise Untranslatable("expand: j += 2")
    return {"boxLimit": 256, "boxStep": 2}


def lean_expand(info) -> str:
    """SSA names: p0..p17 (after the key xor), block k: lr{k} = value of `r ^ p17, l`,
    q{2k}, q{2k+1} = the new P entries, l{k}, r{k} = the new running block, x{k} = `l ^ p0`."""
    out = []
    lines = []
    cur = list(PN)  # current name of each p_i
    for i in range(18):
        lines.append("let p%d := (lookupL P %d) ^^^ (lookupL key_words %d)" % (i, i, i))
    lines.append("-- l, r = p0, 0 ; <16 rounds> ; p0, p1 = l, r = r ^ p17, l")
    lines.append("let l := %s" % cur[0])
    lines.append("let r := 0")
    lname, rname = "l", "r"
    for k in range(0, 9):
        if k >= 1:
            lines.append("-- l ^= p0 ; <16 rounds> ; p%d, p%d = l, r = r ^ p17, l" % (2 * k, 2 * k + 1))
            lines.append("let x%d := %s ^^^ %s" % (k, lname, cur[0]))
            lname = "x%d" % k
        lines.append("let lr%d := feistelRounds %s S0 S1 S2 S3 %s %s" % (k, " ".join(cur[1:]), lname, rname))
        lines.append("let q%d := lr%d.1" % (2 * k, k))
        lines.append("let q%d := lr%d.2" % (2 * k + 1, k))
        cur[2 * k] = "q%d" % (2 * k)
        cur[2 * k + 1] = "q%d" % (2 * k + 1)
        lines.append("let l%d := lr%d.1" % (k, k))
        lines.append("let r%d := lr%d.2" % (k, k))
        lname, rname = "l%d" % k, "r%d" % k
    lines.append("-- P[:] = (p0, .., p17)")
    lines.append("([%s], (%s, %s))" % (", ".join(cur), lname, rname))
    ps = " ".join(PN[1:])
    out.append(
        "/-- unrolled.py `expand`, statements up to and including `P[:] = (p0, .., p17)`:\n"
        "    returns the new `P` and the running block `(l, r)`.  Each `<16 rounds>` block of the\n"
        "    source is AST-identical to `encipher`'s (checked by the extractor). -/\n"
        "def expandP (P key_words : List Nat) (S0 S1 S2 S3 : Array Nat) : List Nat × (Nat × Nat) :=\n  "
        + "\n  ".join(lines)
        + "\n"
    )
    out.append(
        "/-- unrolled.py `expand`, body of `while j < %d:` inside `for box in S:` up to the value\n"
        "    assigned by `box[j], box[j + 1] = l, r = r ^ p17, l` (then `j += %d`). -/\n"
        "def expandSBody (%s : Nat) (S0 S1 S2 S3 : Array Nat) (l r : Nat) : Nat × Nat :=\n"
        "  let l := l ^^^ p0\n"
        "  feistelRounds %s S0 S1 S2 S3 l r\n" % (info["boxLimit"], info["boxStep"], " ".join(PN), ps)
    )
    out.append("def expandBoxLimit : Nat := %d\ndef expandBoxStep : Nat := %d\n" % (info["boxLimit"], info["boxStep"]))
    return "\n".join(out)


# ---------------------------------------------------------------------------------------
@unit("Blowfish")
def unit_blowfish():
    import passlib.crypto._blowfish as bf
    import passlib.crypto._blowfish.base as base

    if base.BLOWFISH_P is None:
        base._init_constants()
    P = list(base.BLOWFISH_P)
    S = [list(b) for b in base.BLOWFISH_S]
    if len(P) != 18 or len(S) != 4 or any(len(b) != 256 for b in S):
        raise Untranslatable("BLOWFISH_P / BLOWFISH_S have unexpected shape")
    if any(not (isinstance(v, int) and 0 <= v < 2**32) for v in P + sum(S, [])):
        raise Untranslatable("table entry is not a 32-bit non-negative int")
    cdata = list(bf.BCRYPT_CDATA)
    fmt = bf.digest_struct.format
    if isinstance(fmt, bytes):
        fmt = fmt.decode("ascii")
    if bf.BlowfishEngine.__module__ != "passlib.crypto._blowfish.unrolled":
        raise Untranslatable("raw_bcrypt does not use the unrolled engine")

    tree = src_ast(SRC)
    enc = find_def(tree, "BlowfishEngine.encipher")
    first, rounds, ret = split_encipher(enc)
    exp = find_def(tree, "BlowfishEngine.expand")
    info = check_expand(exp, first, rounds, ret)
    cls = find_def(tree, "BlowfishEngine")
    overridden = sorted(n.name for n in cls.body if isinstance(n, ast.FunctionDef))
    if overridden != ["encipher", "expand"]:
        raise Untranslatable("unrolled.BlowfishEngine overrides %r" % overridden)

    def hexrow(vs):
        return "[" + ", ".join("0x%08X" % v for v in vs) + "]"

    out = ["-- GENERATED by tools/extract.py from passlib/crypto/_blowfish/{__init__,base,unrolled}.py; do not edit.\n"]
    out.append("namespace Gen.Blowfish\n")
    out.append("/-- `BLOWFISH_P` after `_init_constants()` -/\ndef BLOWFISH_P : List Nat :=\n  [" + ",\n   ".join(", ".join("0x%08X" % v for v in P[i : i + 6]) for i in range(0, 18, 6)) + "]\n")
    rows = []
    for b in S:
        for i in range(0, 256, 64):
            rows.append(b[i : i + 64])
    out.append(
        "/-- `BLOWFISH_S` in 16 rows of 64: rows 4b .. 4b+3 are S-box b -/\n"
        "def BLOWFISH_S_rows : List (List Nat) := [\n" + ",\n".join("  " + hexrow(r) for r in rows) + "\n]\n"
    )
    out.append(
        "/-- `BLOWFISH_S`: 4 boxes of 256 -/\n"
        "def BLOWFISH_S : List (List Nat) :=\n"
        "  (List.range 4).map fun b => ((BLOWFISH_S_rows.drop (4 * b)).take 4).flatten\n"
    )
    out.append("/-- `BCRYPT_CDATA` -/\ndef BCRYPT_CDATA : List Nat := " + hexrow(cdata) + "\n")
    out.append('/-- `digest_struct.format` -/\ndef digest_struct_format : String := "%s"\n' % fmt)
    out.append("/-- `BNULL` -/\ndef BNULL : List Nat := [%s]\n" % ", ".join(str(x) for x in bf.BNULL))
    out.append(
        "/-- `box[i]` for an S-box (Python list of 256 ints; the index is always in range for a\n"
        "    well-formed engine, so the default is never used) -/\n"
        "@[inline] def lookup (box : Array Nat) (i : Nat) : Nat := box.getD i 0\n"
        "/-- `P[i]` / `key_words[i]` -/\n"
        "@[inline] def lookupL (xs : List Nat) (i : Nat) : Nat := xs.getD i 0\n"
    )
    out.append(
        "/-- unrolled.py `encipher`: the 16 statements `r ^= …` / `l ^= …` and `return r ^ p17, l`,\n"
        "    translated statement by statement (SSA names). -/\n" + lean_feistel_rounds(rounds, ret)
    )
    lines = ["let %s := lookupL P %d" % (p, i) for i, p in enumerate(PN)]
    lines.append("-- " + ast.unparse(first))
    lines.append("let l_1 := " + tr(ast.BinOp(left=ast.Name(id="l", ctx=ast.Load()), op=first.op, right=first.value), {"l": "l", "p0": "p0"}))
    lines.append("feistelRounds %s S0 S1 S2 S3 l_1 r" % " ".join(PN[1:]))
    out.append(
        "/-- unrolled.py `encipher(self, l, r)` with `self.P = P`, `self.S = [S0, S1, S2, S3]`:\n"
        "    `(p0, .., p17) = self.P; S0, S1, S2, S3 = self.S; l ^= p0;` then the rounds. -/\n"
        "def encipher (P : List Nat) (S0 S1 S2 S3 : Array Nat) (l r : Nat) : Nat × Nat :=\n  " + "\n  ".join(lines) + "\n"
    )
    out.append(lean_expand(info))
    out.append("/-- methods overridden by unrolled.BlowfishEngine -/\ndef unrolledOverrides : List String := [%s]\n" % ", ".join('"%s"' % n for n in overridden))
    out.append("end Gen.Blowfish\n")
    return "\n".join(out)


if __name__ == "__main__":
    dst = sys.argv[1] if len(sys.argv) > 1 else os.path.join(HERE, "lean", "PasslibVerif", "Gen", "Blowfish.lean")
    text = unit_blowfish()
    with open(dst, "w", encoding="utf-8") as fh:
        fh.write(text)
    print("wrote", dst, len(text), "bytes")
