"""unit Handlers: reflect every registered hasher's declared limits/alphabets/idents."""
import warnings

from extract_core import HEADER, lean_nat_list, lean_str, ords, unit


def opt(v, f=str):
    return "none" if v is None else f"(some {f(v)})"


def strlist(xs):
    return "[" + ", ".join(lean_str(x) for x in xs) + "]"


@unit("Handlers")
def unit_handlers():
    warnings.simplefilter("ignore")
    import passlib.utils.handlers as uh
    from passlib import ifc, registry

    names = sorted(registry.list_crypt_handlers())
    charsets: dict[tuple, str] = {}

    def charset(v):
        if v is None:
            return None
        key = tuple(ords(v))
        if key not in charsets:
            charsets[key] = f"cs{len(charsets)}"
        return charsets[key]

    mixins = (uh.HasSalt, uh.HasRawSalt, uh.HasRounds, uh.HasManyIdents, uh.TruncateMixin, uh.StaticHandler,
              uh.GenericHandler, uh.HasUserContext, uh.HasEncodingContext, uh.BackendMixin, uh.HasRawChecksum,
              uh.HasManyBackends, uh.SubclassBackendMixin)
    rows = []
    for n in names:
        h = registry.get_crypt_handler(n)
        if h.name != n:
            raise ValueError(f"registry name {n} loads handler named {h.name}")
        w = isinstance(h, uh.PrefixWrapper)
        cls = h.wrapped if w else h
        flags = [c.__name__ for c in mixins if isinstance(cls, type) and issubclass(cls, c)]

        def g(a):
            v = getattr(h, a, None)
            return None if isinstance(v, property) else v

        def nat(a):
            v = g(a)
            return v if isinstance(v, int) and not isinstance(v, bool) else None

        def s(a):
            v = g(a)
            return v if isinstance(v, str) else None

        has_salt = "HasSalt" in flags
        has_rounds = "HasRounds" in flags
        idents = list(g("ident_values") or []) if "HasManyIdents" in flags else []
        disabled = bool(getattr(cls, "is_disabled", False)) or (isinstance(cls, type) and issubclass(cls, ifc.DisabledHash))
        row = f"""  {{ name := {lean_str(n)}, flags := {strlist(flags)},
    settingKwds := {strlist(g('setting_kwds') or ())}, contextKwds := {strlist(g('context_kwds') or ())},
    ident := {opt(s('ident'), lean_str)}, idents := {strlist(idents)}, defaultIdent := {opt(s('default_ident') if idents else None, lean_str)},
    checksumSize := {opt(nat('checksum_size'))}, checksumChars := {opt(charset(g('checksum_chars')) if isinstance(g('checksum_chars'), (str, bytes)) else None, lean_str)},
    minSalt := {opt(nat('min_salt_size') if has_salt else None)}, maxSalt := {opt(nat('max_salt_size') if has_salt else None)}, defaultSalt := {opt(nat('default_salt_size') if has_salt else None)},
    saltChars := {opt(charset(g('salt_chars')) if has_salt else None, lean_str)}, defaultSaltChars := {opt(charset(g('default_salt_chars')) if has_salt else None, lean_str)},
    minRounds := {opt(nat('min_rounds') if has_rounds else None)}, maxRounds := {opt(nat('max_rounds') if has_rounds else None)}, defaultRounds := {opt(nat('default_rounds') if has_rounds else None)},
    roundsCost := {opt(s('rounds_cost') if has_rounds else None, lean_str)},
    truncateSize := {opt(nat('truncate_size'))}, truncateError := {'true' if g('truncate_error') else 'false'}, truncateVerifyReject := {'true' if g('truncate_verify_reject') else 'false'},
    backends := {strlist(g('backends') or ())},
    isWrapper := {'true' if w else 'false'}, wrappedName := {opt(h.wrapped.name if w else None, lean_str)}, wrapPrefix := {opt(h.prefix if w else None, lean_str)}, origPrefix := {opt(h.orig_prefix if w else None, lean_str)},
    isDisabled := {'true' if disabled else 'false'} }}"""
        rows.append(row)
    out = [HEADER.format(src="passlib.registry + every handler class"), "import PasslibVerif.Model.HandlerMeta\nnamespace Gen.Handlers\nopen Model\n"]
    for key, nm in charsets.items():
        out.append(f"def {nm} : List Nat :=\n  {lean_nat_list(list(key))}\n")
    out.append("def charsets : List (String × List Nat) :=\n  [" + ", ".join(f'("{nm}", {nm})' for nm in charsets.values()) + "]\n")
    # split into rows of defs to keep elaboration cheap
    for i, r in enumerate(rows):
        out.append(f"def h{i} : HandlerMeta :=\n{r}\n")
    out.append("def all : List HandlerMeta :=\n  [" + ", ".join(f"h{i}" for i in range(len(rows))) + "]\n")
    out.append("def names : List String :=\n  " + strlist(names) + "\n")
    import passlib.utils as pu

    out.append(f"def MAX_PASSWORD_SIZE : Nat := {int(pu.MAX_PASSWORD_SIZE)}\n")
    out.append("end Gen.Handlers\n")
    return "\n".join(out)
