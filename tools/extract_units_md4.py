"""unit Md4: tables, constants and expressions of passlib.crypto._md4 (pure-python MD4).

  reflect  _round1/_round2/_round3, the initial register values (md4()._state), MASK_32
  expr     F, G bodies; the three `t = (...) & MASK_32` right-hand sides of `_process`;
           msglen / length-word expressions of digest()
  shape    every statement of `_process`, `update`, `copy`, `digest`, `__init__` is compared
           (ast.unparse) with the shape the Lean model `Model/Md4.lean` was written against;
           any difference raises Untranslatable (=> the unit fails, dependants stop building).

Python's `~x` has no `Nat` counterpart.  The only occurrence allowed is the pattern
`(~A) & B` (either operand order), which for non-negative ints A, B is exactly
"B with the bits of A cleared"; it is emitted as `invAnd A B := B ^^^ (A &&& B)`.

Stand-alone use (scratch tree):  /venv/bin/python tools_extract_units_md4.py <out.lean>
"""
import ast
import os
import re
import sys


from extract_core import HEADER, Untranslatable, expr, find_def, src_ast, strip_doc, unit  # noqa: E402

SRC = "passlib/crypto/_md4.py"
INVAND = "__invAnd"


# ---------------------------------------------------------------------------------------
# AST helpers
# ---------------------------------------------------------------------------------------
class _Rewrite(ast.NodeTransformer):
    """(~A) & B  ->  __invAnd(A, B);   NAME[IDX] -> Name(subs[(NAME, IDX)]);  len(buf) -> buflen"""

    def __init__(self, subs=None, lens=None):
        self.subs = subs or {}
        self.lens = lens or {}

    def visit_BinOp(self, n):
        n = self.generic_visit(n)
        if isinstance(n.op, ast.BitAnd):
            for inv, other in ((n.left, n.right), (n.right, n.left)):
                if isinstance(inv, ast.UnaryOp) and isinstance(inv.op, ast.Invert):
                    return ast.Call(func=ast.Name(id=INVAND), args=[inv.operand, other], keywords=[])
        return n

    def visit_Subscript(self, n):
        key = (ast.unparse(n.value), ast.unparse(n.slice))
        if key in self.subs:
            return ast.Name(id=self.subs[key])
        raise Untranslatable(f"unexpected subscript {ast.unparse(n)}")

    def visit_Call(self, n):
        if isinstance(n.func, ast.Name) and n.func.id == "len" and len(n.args) == 1 and not n.keywords:
            key = ast.unparse(n.args[0])
            if key in self.lens:
                return ast.Name(id=self.lens[key])
        return self.generic_visit(n)


def _no_invert(node):
    for n in ast.walk(node):
        if isinstance(n, ast.UnaryOp) and isinstance(n.op, ast.Invert):
            raise Untranslatable("`~` outside the pattern (~A) & B")


def to_lean(node, env, subs=None, lens=None):
    node = _Rewrite(subs, lens).visit(ast.parse(ast.unparse(node), mode="eval").body)
    _no_invert(node)
    env = dict(env)
    env[INVAND] = "invAnd"
    return expr(node, "nat", env)


def want(stmt, text, what):
    got = ast.unparse(stmt)
    if got != text:
        raise Untranslatable(f"{what}: source now reads {got!r}, model was written against {text!r}")


def fn_expr(tree, name, params):
    fn = find_def(tree, name)
    if [a.arg for a in fn.args.args] != params:
        raise Untranslatable(f"{name}: parameters {[a.arg for a in fn.args.args]}")
    body = strip_doc(fn.body)
    if len(body) != 1 or not isinstance(body[0], ast.Return):
        raise Untranslatable(f"{name}: body is not a single return")
    return to_lean(body[0].value, {p: p for p in params})


def int_consts(node):
    return [n.value for n in ast.walk(node) if isinstance(n, ast.Constant) and isinstance(n.value, int) and not isinstance(n.value, bool)]


def struct_fmt(call, func):
    if not (isinstance(call, ast.Call) and ast.unparse(call.func) == f"struct.{func}" and call.args
            and isinstance(call.args[0], ast.Constant) and isinstance(call.args[0].value, str)):
        raise Untranslatable(f"expected struct.{func}(<fmt>, ...), got {ast.unparse(call)}")
    fmt = call.args[0].value
    m = re.fullmatch(r"<(\d+)I", fmt)
    if not m:
        raise Untranslatable(f"struct format {fmt!r} is not little-endian uint32 words")
    return fmt, int(m.group(1))


def nat_table(name, rows, doc):
    rows = [list(r) for r in rows]
    if len(rows) != 16 or any(len(r) != 6 or any((not isinstance(v, int)) or v < 0 for v in r) for r in rows):
        raise Untranslatable(f"{name}: not a 16 x 6 table of non-negative ints")
    body = ",\n".join("  [" + ", ".join(str(v) for v in r) + "]" for r in rows)
    return f"/-- {doc} -/\ndef {name} : List (List Nat) := [\n{body}\n]\n"


# ---------------------------------------------------------------------------------------
@unit("Md4")
def unit_md4():
    import importlib

    m = importlib.import_module("passlib.crypto._md4")
    tree = src_ast(SRC)
    out = [HEADER.format(src=SRC + " (class md4, F, G, MASK_32)"), "namespace Gen.Md4\n"]

    # ---- reflected data -----------------------------------------------------------------
    mask = m.MASK_32
    if not isinstance(mask, int) or mask < 0:
        raise Untranslatable("MASK_32")
    out.append(f"def MASK_32 : Nat := {mask}\n")
    obj = m.md4()
    if obj._count != 0 or obj._buf != b"" or len(obj._state) != 4:
        raise Untranslatable("md4().__init__ state")
    out.append("/-- `md4()._state` right after `__init__` -/\n"
               f"def initState : List Nat := [{', '.join('0x%08X' % v for v in obj._state)}]\n")
    out.append(f"/-- `md4()._count` right after `__init__` -/\ndef initCount : Nat := {obj._count}\n")
    for i, nm in enumerate(("_round1", "_round2", "_round3"), 1):
        out.append(nat_table(f"round{i}", getattr(m.md4, nm), f"`md4.{nm}`: rows `[a, b, c, d, k, s]`"))

    # ---- F, G -----------------------------------------------------------------------------
    out.append("/-- Python `(~x) & z` on non-negative ints: `z` with the bits of `x` cleared. -/\n"
               "def invAnd (x z : Nat) : Nat := z ^^^ (x &&& z)\n")
    out.append(f"def F (x y z : Nat) : Nat := {fn_expr(tree, 'F', ['x', 'y', 'z'])}\n")
    out.append(f"def G (x y z : Nat) : Nat := {fn_expr(tree, 'G', ['x', 'y', 'z'])}\n")

    # ---- _process ---------------------------------------------------------------------------
    body = strip_doc(find_def(tree, "md4._process").body)
    if len(body) != 7:
        raise Untranslatable(f"_process: {len(body)} statements, expected 7")
    s_unpack, s_orig, s_state, l1, l2, l3, l_add = body
    want(s_unpack, "X = struct.unpack('<16I', block)", "_process unpack")
    block_fmt, block_words = struct_fmt(s_unpack.value, "unpack")
    want(s_orig, "orig = self._state", "_process orig")
    want(s_state, "state = list(orig)", "_process state clone")
    subs = {("state", "a"): "sa", ("state", "b"): "sb", ("state", "c"): "sc", ("state", "d"): "sd", ("X", "k"): "xk"}
    env = {"sa": "sa", "sb": "sb", "sc": "sc", "sd": "sd", "xk": "xk", "MASK_32": "MASK_32", "F": "F", "G": "G"}
    consts, texprs = [], []
    for i, (loop, nconst) in enumerate(((l1, 0), (l2, 1), (l3, 1)), 1):
        if not isinstance(loop, ast.For) or loop.orelse:
            raise Untranslatable(f"_process round {i}: not a for loop")
        want(loop.target, "(a, b, c, d, k, s)", f"_process round {i} loop target")
        want(loop.iter, f"self._round{i}", f"_process round {i} table")
        if len(loop.body) != 2:
            raise Untranslatable(f"_process round {i}: loop body has {len(loop.body)} statements")
        s_t, s_store = loop.body
        if not (isinstance(s_t, ast.Assign) and ast.unparse(s_t.targets[0]) == "t" and len(s_t.targets) == 1):
            raise Untranslatable(f"_process round {i}: first statement is not `t = ...`")
        want(s_store, "state[a] = (t << s & MASK_32) + (t >> 32 - s)", f"_process round {i} store")
        # additive constants: every int literal of the t-expression (exactly one in rounds 2 and 3)
        cs = int_consts(s_t.value)
        if len(cs) != nconst:
            raise Untranslatable(f"_process round {i}: integer literals {cs}, expected {nconst}")
        consts += cs
        texprs.append((i, s_t.value, cs))
    k2, k3 = consts
    if (k2, k3) != (0x5A827999, 0x6ED9EBA1):
        # not an extraction failure by itself (the theorems will fail), but say it loudly
        sys.stderr.write(f"extract Md4: WARNING additive constants are {k2:#x}, {k3:#x}\n")
    out.append(f"/-- additive constant of round 2 (the int literal in the round-2 `t` expression of `_process`) -/\ndef K2 : Nat := 0x{k2:08X}\n")
    out.append(f"/-- additive constant of round 3 (the int literal in the round-3 `t` expression of `_process`) -/\ndef K3 : Nat := 0x{k3:08X}\n")
    for i, node, cs in texprs:
        # the literal is referred to by name (K2/K3): the Lean kernel cannot compare `x + <big literal>` terms cheaply
        node = ast.parse(ast.unparse(node), mode="eval").body
        for n in ast.walk(node):
            for fld, val in ast.iter_fields(n):
                if isinstance(val, ast.Constant) and isinstance(val.value, int) and not isinstance(val.value, bool):
                    setattr(n, fld, ast.Name(id=f"K{i}"))
        if int_consts(node):
            raise Untranslatable(f"_process round {i}: literal in unexpected position")
        env_i = dict(env)
        env_i[f"K{i}"] = f"K{i}"
        out.append(f"/-- round {i}: `t = {ast.unparse(node)}` with sa = state[a], …, xk = X[k] -/\n"
                   f"def T{i} (sa sb sc sd xk : Nat) : Nat := {to_lean(node, env_i, subs)}\n")
    out.append("/-- `state[a] = ((t << s) & MASK_32) + (t >> (32 - s))` (checked verbatim in all three loops;\n"
               "    `32 - s` is truncated subtraction here, equal to Python's for s ≤ 32) -/\n"
               "def rotStore (t s : Nat) : Nat := ((t <<< s) &&& MASK_32) + (t >>> (32 - s))\n")
    want(l_add, "for i in range(4):\n    orig[i] = orig[i] + state[i] & MASK_32", "_process add-back loop")
    out.append("/-- `orig[i] = (orig[i] + state[i]) & MASK_32` -/\n"
               "def addBack (o s : Nat) : Nat := "
               + to_lean(l_add.body[0].value, {"o": "o", "s": "s", "MASK_32": "MASK_32"}, {("orig", "i"): "o", ("state", "i"): "s"}) + "\n")
    out.append(f'def blockFmt : String := "{block_fmt}"\ndef blockWords : Nat := {block_words}\n')

    # ---- __init__ / update / copy ------------------------------------------------------------
    ini = strip_doc(find_def(tree, "md4.__init__").body)
    want(ini[0], "self._count = 0", "__init__ count")
    want(ini[2], "self._buf = b''", "__init__ buf")
    want(ini[3], "if content:\n    self.update(content)", "__init__ content")
    upd = strip_doc(find_def(tree, "md4.update").body)
    want(ast.Module(body=upd[1:], type_ignores=[]),
         "buf = self._buf\n"
         "if buf:\n    content = buf + content\n"
         "idx = 0\n"
         "end = len(content)\n"
         "while True:\n"
         "    next = idx + 64\n"
         "    if next <= end:\n"
         "        self._process(content[idx:next])\n"
         "        self._count += 1\n"
         "        idx = next\n"
         "    else:\n"
         "        self._buf = content[idx:]\n"
         "        return", "update body")
    out.append("/-- `next = idx + 64` in update() (checked verbatim) -/\ndef blockBytes : Nat := 64\n")
    cp = strip_doc(find_def(tree, "md4.copy").body)
    want(ast.Module(body=cp, type_ignores=[]),
         "other = md4()\nother._count = self._count\nother._state = list(self._state)\nother._buf = self._buf\nreturn other",
         "copy body")

    # ---- digest ---------------------------------------------------------------------------------
    dg = [s for s in strip_doc(find_def(tree, "md4.digest").body)]
    if len(dg) != 8:
        raise Untranslatable(f"digest: {len(dg)} statements, expected 8")
    d_orig, d_buf, d_len, d_block, d_if, d_out, d_restore, d_ret = dg
    want(d_orig, "orig = list(self._state)", "digest backup")
    want(d_buf, "buf = self._buf", "digest buf")
    want(d_len, "msglen = self._count * 512 + len(buf) * 8", "digest msglen")
    want(d_block, "block = buf + b'\\x80' + b'\\x00' * ((119 - len(buf)) % 64) + "
                  "struct.pack('<2I', msglen & MASK_32, msglen >> 32 & MASK_32)", "digest final block")
    want(d_if, "if len(block) == 128:\n    self._process(block[:64])\n    self._process(block[64:])\n"
               "else:\n    assert len(block) == 64\n    self._process(block)", "digest block dispatch")
    want(d_out, "out = struct.pack('<4I', *self._state)", "digest output")
    want(d_restore, "self._state = orig", "digest restore")
    want(d_ret, "return out", "digest return")
    out.append("/-- `msglen = self._count * 512 + len(buf) * 8` -/\n"
               "def msgLenBits (count buflen : Nat) : Nat := "
               + to_lean(d_len.value, {"self._count": "count", "buflen": "buflen"}, lens={"buf": "buflen"}) + "\n")
    # padding: the source still says (119 - len(buf)) % 64  (checked by `want(d_block, …)` above and here)
    pads = [n for n in ast.walk(d_block.value) if isinstance(n, ast.BinOp) and isinstance(n.op, ast.Mod)]
    if len(pads) != 1 or ast.unparse(pads[0]) != "(119 - len(buf)) % 64":
        raise Untranslatable("digest: zero-padding formula is no longer (119 - len(buf)) % 64")
    out.append("/-- number of 0x00 bytes: `(119 - len(buf)) % 64` (truncated subtraction = Python's for len(buf) ≤ 119) -/\n"
               "def padZeros (buflen : Nat) : Nat := (119 - buflen) % 64\n")
    out.append("def padMarker : Nat := 0x80\n")
    pack = [n for n in ast.walk(d_block.value) if isinstance(n, ast.Call) and ast.unparse(n.func) == "struct.pack"]
    if len(pack) != 1 or len(pack[0].args) != 3:
        raise Untranslatable("digest: struct.pack of the length")
    len_fmt, len_words = struct_fmt(pack[0], "pack")
    envl = {"msglen": "msglen", "MASK_32": "MASK_32"}
    out.append(f"def lenLo (msglen : Nat) : Nat := {to_lean(pack[0].args[1], envl)}\n")
    out.append(f"def lenHi (msglen : Nat) : Nat := {to_lean(pack[0].args[2], envl)}\n")
    out_fmt, out_words = struct_fmt(d_out.value, "pack")
    if (block_words, len_words, out_words) != (16, 2, 4):
        raise Untranslatable(f"struct formats {block_fmt} {len_fmt} {out_fmt}")
    out.append(f'def lenFmt : String := "{len_fmt}"\ndef lenWords : Nat := {len_words}\n')
    out.append(f'def outFmt : String := "{out_fmt}"\ndef outWords : Nat := {out_words}\n')
    out.append(f"def digestSize : Nat := {m.md4.digest_size}\n")
    out.append("end Gen.Md4\n")
    return "\n".join(out)


if __name__ == "__main__":
    text = unit_md4()
    if len(sys.argv) > 1:
        with open(sys.argv[1], "w", encoding="utf-8") as fh:
            fh.write(text)
    else:
        sys.stdout.write(text)
