"""unit Contexts: the ready-made CryptContexts passlib exports, as the LOADED objects report them, and the registry table.

Reflected (from the imported modules of the working tree):
  * `registry.list_crypt_handlers()`            -> `inductive Name` (one constructor per registered name) + `Name.str`
  * per name: kind of the loaded object (class name / "PrefixWrapper"), defining module, registered location
  * every exported context of passlib.apps / passlib.hosts / passlib.apache and every preset name of
    passlib.ext.django.utils.get_preset_config: `ctx.schemes()`, `ctx.default_scheme()`, the ident a scheme's
    context-configured handler emits when it differs from the registry handler's (`bcrypt__ident="2y"`,
    `phpass__ident="H"`), and `ctx.to_dict()` for the record
  * `passlib.utils.unix_crypt_schemes`, `registry.get_supported_os_crypt_schemes()` on this host,
    `passlib.apache.htpasswd_defaults`
Skeleton (from the AST of passlib/apache.py): the statements of `_init_htpasswd_context` after the literal scheme
list are pinned textually; the Lean model `Model.Shapes.htpasswdBuild` transcribes exactly these statements.
"""
import ast
import os
import warnings

from extract_core import HEADER, REPO, Untranslatable, find_def, lean_str, src_ast, strip_doc, unit

APPS = ["custom_app_context", "django10_context", "django14_context", "django16_context", "django110_context",
        "django21_context", "django31_context", "django_context", "ldap_context", "ldap_nocrypt_context",
        "mysql3_context", "mysql4_context", "mysql_context", "phpass_context", "phpbb3_context", "postgres_context",
        "roundup10_context", "roundup15_context", "roundup_context", "master_context"]
HOSTS = ["linux_context", "linux2_context", "freebsd_context", "openbsd_context", "netbsd_context", "host_context"]
PRESETS = ["passlib-default", "django-default", "django-1.0", "django-1.4", "django-1.6", "django-latest"]

#: `_init_htpasswd_context` after `schemes = [...]`, statement by statement (ast.unparse)
HTPASSWD_TAIL = [
    "schemes.extend(registry.get_supported_os_crypt_schemes())",
    "preferred = schemes[:3] + ['apr_md5_crypt'] + schemes",
    "schemes = sorted(set(schemes), key=preferred.index)",
    "schemes.remove('plaintext')",
    "schemes.append('plaintext')",
    "return CryptContext(schemes=schemes, default=htpasswd_defaults['portable_apache_22'], bcrypt__ident='2y')",
]


def ident_of(h):
    """the ident a handler writes into new hashes (None when the handler has no choice of idents)"""
    import passlib.utils.handlers as uh

    if isinstance(h, uh.PrefixWrapper):
        return None
    v = getattr(h, "default_ident", None)
    return v if isinstance(v, str) else None


def describe(label, ctx, names):
    from passlib import registry

    schemes = list(ctx.schemes())
    for s in schemes:
        if s not in names:
            raise Untranslatable(f"{label}: scheme {s} is not a registered name")
    idents = []
    for s in schemes:
        a, b = ident_of(ctx.handler(s)), ident_of(registry.get_crypt_handler(s))
        if a != b:
            idents.append((s, a))
    d = ctx.to_dict()
    d.pop("schemes", None)
    try:
        default = ctx.default_scheme()
    except Exception:  # noqa: BLE001  (a context without schemes)
        default = None
    return label, schemes, default, idents, sorted((k, repr(v)) for k, v in d.items())


def lean_ctx(ident, label, schemes, default, idents, opts):
    sl = "[" + ", ".join("." + s for s in schemes) + "]"
    il = "[" + ", ".join(f"(.{s}, {lean_str(i)})" for s, i in idents) + "]"
    ol = "[" + ", ".join(f"({lean_str(k)}, {lean_str(v)})" for k, v in opts) + "]"
    df = "none" if default is None else f"(some .{default})"
    return f"def {ident} : Ctx :=\n  ⟨{lean_str(label)},\n   {sl},\n   {df}, {il},\n   {ol}⟩\n"


@unit("Contexts")
def unit_contexts():
    warnings.simplefilter("ignore")
    import passlib.utils as pu
    import passlib.utils.handlers as uh
    from passlib import apache, apps, hosts, registry
    from passlib.context import CryptContext
    from passlib.ext.django import utils as dj

    out = [HEADER.format(src="passlib.registry / passlib.apps / passlib.hosts / passlib.apache / passlib.ext.django.utils (reflected)"),
           "namespace Gen.Contexts\n"]
    names = list(registry.list_crypt_handlers())
    if names != sorted(names) or len(set(names)) != len(names):
        raise Untranslatable("list_crypt_handlers() is not a sorted list of distinct names")
    for n in names:
        if not n.isidentifier():
            raise Untranslatable(f"registry name {n!r} is not an identifier")
    out.append("/-- `registry.list_crypt_handlers()`: one constructor per registered name -/")
    out.append("inductive Name\n" + "\n".join(f"  | {n}" for n in names) + "\n  deriving DecidableEq, Repr\n")
    out.append("def Name.str : Name → String\n" + "\n".join(f"  | .{n} => {lean_str(n)}" for n in names) + "\n")
    out.append("def allNames : List Name :=\n  [" + ", ".join("." + n for n in names) + "]\n")
    # registry table
    rows = []
    for n in names:
        h = registry.get_crypt_handler(n)
        kind = "PrefixWrapper" if isinstance(h, uh.PrefixWrapper) else getattr(h, "__name__", type(h).__name__)
        mod = getattr(h, "__module__", None) or type(h).__module__
        if isinstance(h, uh.PrefixWrapper):
            mod = registry._locations.get(n, mod)      # instances do not record the module that built them
        loc = registry._locations.get(n, "")
        rows.append(f"(.{n}, {lean_str(h.name)}, {lean_str(kind)}, {lean_str(mod)}, {lean_str(loc)})")
    out.append("/-- name, `handler.name` of the loaded object, its class (or \"PrefixWrapper\"), defining module, registered location -/")
    out.append("def registry : List (Name × String × String × String × String) :=\n  [" + ",\n   ".join(rows) + "]\n")
    out.append("structure Ctx where\n  label : String\n  schemes : List Name\n  default : Option Name\n"
               "  /-- scheme ↦ the ident its context-configured handler writes, when not the registry handler's default -/\n"
               "  idents : List (Name × String)\n  /-- `to_dict()` without the scheme list -/\n  options : List (String × String)\n  deriving Repr\n")
    ctxs = []
    for a in APPS:
        ctxs.append(("apps_" + a, describe("passlib.apps." + a, getattr(apps, a), names)))
    missing = [a for a in dir(apps) if a.endswith("_context") and a not in APPS]
    if missing:
        raise Untranslatable(f"passlib.apps exports contexts the unit does not list: {missing}")
    for a in HOSTS:
        if hasattr(hosts, a):
            ctxs.append(("hosts_" + a, describe("passlib.hosts." + a, getattr(hosts, a), names)))
    missing = [a for a in dir(hosts) if a.endswith("_context") and a not in HOSTS]
    if missing:
        raise Untranslatable(f"passlib.hosts exports contexts the unit does not list: {missing}")
    ctxs.append(("apache_htpasswd_context", describe("passlib.apache.htpasswd_context", apache.htpasswd_context, names)))
    preset_attr = dict(dj._preset_map)
    for p in PRESETS:
        try:
            cfg = dj.get_preset_config(p)
        except ValueError:
            continue                                   # "django-default" without django
        ident = "django_preset_" + p.replace("-", "_").replace(".", "")
        ctxs.append((ident, describe("passlib.ext.django preset " + p, CryptContext.from_string(cfg), names)))
    unknown = [p for p in preset_attr if p not in PRESETS]
    if unknown:
        raise Untranslatable(f"preset names the unit does not list: {unknown}")
    for ident, d in ctxs:
        out.append(lean_ctx(ident, *d))
    out.append("/-- every exported ready-made context -/")
    out.append("def shipped : List Ctx :=\n  [" + ",\n   ".join(i for i, _ in ctxs) + "]\n")
    out.append("def djangoPresetMap : List (String × String) :=\n  [" + ", ".join(f"({lean_str(k)}, {lean_str(v)})" for k, v in sorted(preset_attr.items())) + "]\n")
    # host dependent inputs
    ucs = list(pu.unix_crypt_schemes)
    if list(registry.os_crypt_schemes) != ucs:
        raise Untranslatable("registry.os_crypt_schemes is not passlib.utils.unix_crypt_schemes")
    out.append("/-- `passlib.utils.unix_crypt_schemes` (= `registry.os_crypt_schemes`): what crypt() may support somewhere -/")
    out.append("def unixCryptSchemes : List Name := [" + ", ".join("." + s for s in ucs) + "]\n")
    out.append("/-- `registry.get_supported_os_crypt_schemes()` on the machine the check runs on -/")
    out.append("def hostSupported : List Name := [" + ", ".join("." + s for s in registry.get_supported_os_crypt_schemes()) + "]\n")
    out.append("def htpasswdDefaults : List (String × Name) :=\n  [" + ", ".join(f"({lean_str(k)}, .{v})" for k, v in sorted(apache.htpasswd_defaults.items())) + "]\n")
    # _init_htpasswd_context: literal list + pinned tail
    fn = find_def(src_ast("passlib/apache.py"), "_init_htpasswd_context")
    body = strip_doc(fn.body)
    first = body[0]
    if not (isinstance(first, ast.Assign) and ast.unparse(first.targets[0]) == "schemes" and isinstance(first.value, ast.List)
            and all(isinstance(e, ast.Constant) and isinstance(e.value, str) for e in first.value.elts)):
        raise Untranslatable("_init_htpasswd_context does not start with a literal scheme list")
    builtin = [e.value for e in first.value.elts]
    tail = [ast.unparse(s) for s in body[1:]]
    if tail != HTPASSWD_TAIL:
        raise Untranslatable("_init_htpasswd_context changed after the scheme list: " + " ; ".join(tail))
    out.append("/-- the literal list `_init_htpasswd_context` starts from (schemes built into apache) -/")
    out.append("def htpasswdBuiltin : List Name := [" + ", ".join("." + s for s in builtin) + "]\n")
    out.append("/-- the statements that follow it (pinned; transcribed by `Model.Shapes.htpasswdBuild`) -/")
    out.append("def htpasswdTail : List String :=\n  [" + ",\n   ".join(lean_str(t) for t in tail) + "]\n")
    # hosts.host_context = os-supported schemes + unix_disabled (pinned)
    with open(os.path.join(REPO, "passlib/hosts.py"), encoding="utf-8") as fh:
        hsrc = fh.read()
    for needle in ("out = registry.get_supported_os_crypt_schemes()", 'out += ("unix_disabled",)', "host_context = LazyCryptContext(_iter_os_crypt_schemes())"):
        if needle not in hsrc:
            raise Untranslatable("passlib/hosts.py lost: " + needle)
    out.append("end Gen.Contexts\n")
    return "\n".join(out)
