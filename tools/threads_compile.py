"""Python protocol  ->  micro-instruction list (C19).

A small, strict compiler from the statements of passlib's lazy-initialisation code paths to the instruction set of
`lean/PasslibVerif/Model/Threads.lean`.  Every emitted instruction performs AT MOST ONE access to state another thread can
see (an attribute load / store / delete on the shared object or class, one lock operation, the start or the end of the slow
initialiser, one `onload` call).  Whatever cannot be split that way, or is not understood, raises `Untranslatable`.

How it works
  * values known at translation time (`name="any"`, `dryrun=False`, `attr="schemes"`, the declared `backends`, classes …) are
    evaluated statically (`sev`); conditions over them select the branch at translation time;
  * a value loaded from shared state lives in a register (`Dyn`) whose number encodes the loaded value as an index into the
    variable's domain (0 = "not in the object's own dict": the load yields the inherited class default, or raises);
  * thread-private objects of unknown value are `OPAQUE`; statements that only involve static/opaque values are local steps
    and emit nothing but their `nop` line marker;
  * calls into the protocol's own functions are inlined (arguments bound statically), `for` over a static tuple is
    unrolled, `with <lock>`, `try/finally`, `try/except`, `return`, `raise`, `continue` are compiled with translation-time
    unwinding (the `finally` bodies / lock releases are duplicated at every exit, as CPython does);
  * each instruction carries the source position `file_number * 100000 + line` of the expression it came from; the
    deterministic scheduler (tools/sched.py) preempts the real threads exactly at the lines that carry a shared access.
"""
from __future__ import annotations

import ast
import os

from pyexpr2lean import Untranslatable


class Tok:
    """a symbolic static value (class, object, function …)"""

    def __init__(self, tokname, /, _truthy=True, _call=None, **attrs):
        self._name = tokname
        self._truthy = _truthy
        self._call = _call
        self.__dict__.update(attrs)

    def __repr__(self):
        return f"<{self._name}>"

    def __bool__(self):
        return self._truthy

    def __call__(self, *a, **k):
        if self._call is None:
            raise Untranslatable(f"call of {self._name} is not modelled")
        return self._call(*a, **k)


class _Opaque:
    def __repr__(self):
        return "<opaque>"

    def __bool__(self):
        raise Untranslatable("truth value of a thread-private object of unknown value")


OPAQUE = _Opaque()
ABSENT = Tok("absent", _truthy=False)
DEAD = Tok("dead")  # the thread has finished inside this expression


class NotStatic(Exception):
    pass


class Dyn:
    """run-time value held in a register; `dom[i]` is the static value the number `i` stands for"""

    def __init__(self, reg, dom):
        self.reg = reg
        self.dom = dom

    def __repr__(self):
        return f"<r{self.reg}:{self.dom}>"


class Shared:
    """a shared variable: field `idx` of the packed shared state"""

    def __init__(self, idx, name, dom, default=0, missing="attributeError", init=0, guard=None):
        self.idx, self.name, self.dom, self.default, self.missing, self.init = idx, name, dom, default, missing, init
        self.guard = guard      # (variable index, value): the inherited default exists only while that variable has that value

    def index(self, value):
        for i, v in enumerate(self.dom):
            if v is value or (type(v) is type(value) and v == value and not isinstance(v, Tok)):
                return i
        raise Untranslatable(f"value {value!r} is outside the domain of shared variable {self.name}")


class Pure:
    """a function without access to shared state: evaluated when an implementation is given, else its result is opaque"""

    def __init__(self, name, impl=None):
        self.name, self.impl = name, impl


class Label:
    def __init__(self):
        self.pc = None


KINDS = {
    "AttributeError": "attributeError", "TypeError": "typeError", "AssertionError": "assertionError", "KeyError": "keyError",
    "RuntimeError": "runtimeError", "MissingBackendError": "missingBackendError", "ValueError": "valueError",
    "UnknownBackendError": "valueError", "ExpectedTypeError": "typeError", "PasslibSecurityError": "runtimeError",
}
SHARED_OPS = {"load", "loadG", "store", "storeR", "swap", "initBegin", "initEnd", "onload", "importOnce", "acquire", "release", "use"}


def exc_parents(kind):
    return {"keyError": ["keyError"], "missingBackendError": ["missingBackendError", "runtimeError"]}.get(kind, [kind])


def find_file(root, rel):
    """`root` is a directory or a list of directories (the first one that has the file wins: old texts over the tree)"""
    for r in ([root] if isinstance(root, str) else list(root)):
        p = os.path.join(r, rel)
        if os.path.exists(p):
            return p
    raise Untranslatable(f"source file {rel} not found")


class Compiler:
    def __init__(self, spec, root):
        self.spec = spec
        self.root = root
        self.code = []          # [op, args…]
        self.tags = []
        self.ctx = []           # unwinding contexts
        self.nreg = 0
        self.memo = {}
        self.fstack = []        # (fileid, qualname) of the functions being compiled
        self.stmt_inlined = [False]
        self.in_cond = False
        self._asts = {}

    # ------------------------------------------------------------------ source access
    def fdef(self, qual):
        fileid, path, q = self.spec.funcs[qual]
        if path not in self._asts:
            with open(find_file(self.root, path), encoding="utf-8") as fh:
                self._asts[path] = ast.parse(fh.read(), filename=path)
        cur = self._asts[path]
        for part in q.split("."):
            for n in cur.body:
                if isinstance(n, (ast.FunctionDef, ast.ClassDef)) and n.name == part:
                    cur = n
                    break
            else:
                raise Untranslatable(f"definition {q} not found in {path}")
        return fileid, cur

    def tag(self, node):
        return self.fstack[-1][0] * 100000 + node.lineno

    # ------------------------------------------------------------------ emission
    def emit(self, op, *args, node=None, tag=None):
        if op in SHARED_OPS and self.stmt_inlined[-1]:
            raise Untranslatable(f"{self.fstack[-1][1]}: a shared access follows an inlined call inside one statement (line {getattr(node, 'lineno', '?')})")
        self.code.append([op, *args])
        self.tags.append(tag if tag is not None else self.tag(node))

    def place(self, lab):
        lab.pc = len(self.code)

    def newreg(self):
        self.nreg += 1
        if self.nreg > 40:
            raise Untranslatable("too many registers")
        return self.nreg - 1

    def finish(self):
        n = len(self.code)
        for ins in self.code:
            for i, a in enumerate(ins):
                if isinstance(a, Label):
                    if a.pc is None or a.pc >= n:
                        raise Untranslatable("internal: dangling label")
                    ins[i] = a.pc
        return self.code, self.tags

    # ------------------------------------------------------------------ static evaluation
    def lookup(self, name, env):
        if name in env:
            v = env[name]
            if isinstance(v, Dyn) or (isinstance(v, tuple) and any(isinstance(x, Dyn) for x in v)):
                raise NotStatic(name)
            return v
        if name in self.spec.shared_globals or name in self.spec.locks:
            raise NotStatic(name)
        if name in self.spec.globals:
            return self.spec.globals[name]
        raise Untranslatable(f"{self.fstack[-1][1]}: free name `{name}` is not known to the translator")

    def attr_of(self, base, attr, node):
        if isinstance(base, Tok) and getattr(base, "_shared_root", False):
            key = (base._name, attr)
            if key in self.spec.shared_attrs:
                raise NotStatic(attr)
            if key in self.spec.const_attrs:
                return self.spec.const_attrs[key]
            raise Untranslatable(f"{self.fstack[-1][1]}: attribute `{attr}` of the shared object `{base._name}` is not classified (line {node.lineno})")
        if base is OPAQUE:
            return OPAQUE
        if isinstance(base, Tok):
            if attr in base.__dict__:
                return base.__dict__[attr]
            raise Untranslatable(f"attribute `{attr}` of {base!r} is not modelled")
        if isinstance(base, (str, tuple, list, dict)):
            return getattr(base, attr)
        raise Untranslatable(f"attribute `{attr}` of static value {base!r}")

    def sev(self, n, env):
        """value of an expression that does not touch shared state (raises NotStatic if it does)"""
        if isinstance(n, ast.Constant):
            return n.value
        if isinstance(n, ast.Name):
            return self.lookup(n.id, env)
        if isinstance(n, ast.Attribute):
            return self.attr_of(self.sev(n.value, env), n.attr, n)
        if isinstance(n, ast.Call):
            key = ast.unparse(n.func)
            if self.spec.call_handler(key) is not None:
                raise NotStatic(key)
            f = self.sev(n.func, env)
            args = []
            for a in n.args:
                if isinstance(a, ast.Starred):
                    v = self.sev(a.value, env)
                    if v is OPAQUE:
                        args.append(OPAQUE)
                    else:
                        args.extend(v)
                else:
                    args.append(self.sev(a, env))
            kw = {}
            for k in n.keywords:
                v = self.sev(k.value, env)
                if k.arg is None:
                    if v is not OPAQUE:
                        kw.update(v)
                    else:
                        kw["**"] = OPAQUE
                else:
                    kw[k.arg] = v
            if isinstance(f, Pure):
                if f.impl is None or any(a is OPAQUE for a in args) or any(v is OPAQUE for v in kw.values()):
                    return OPAQUE
                return f.impl(*args, **kw)
            if f is OPAQUE:
                return OPAQUE
            if isinstance(f, Tok):
                return f(*args, **kw)
            if type(f).__name__ in ("builtin_function_or_method", "method_descriptor") and isinstance(getattr(f, "__self__", None), (str, tuple, list, dict)):
                if any(a is OPAQUE for a in args):
                    return OPAQUE
                return f(*args, **kw)
            raise Untranslatable(f"{self.fstack[-1][1]}: call of `{key}` is not modelled (line {n.lineno})")
        if isinstance(n, ast.Compare):
            left = self.sev(n.left, env)
            res = True
            for op, c in zip(n.ops, n.comparators):
                right = self.sev(c, env)
                if left is OPAQUE or right is OPAQUE:
                    return OPAQUE
                if isinstance(op, ast.Is):
                    r = left is right
                elif isinstance(op, ast.IsNot):
                    r = left is not right
                elif isinstance(op, ast.Eq):
                    r = left == right
                elif isinstance(op, ast.NotEq):
                    r = left != right
                elif isinstance(op, ast.In):
                    r = left in right
                elif isinstance(op, ast.NotIn):
                    r = left not in right
                else:
                    raise Untranslatable(f"comparison {type(op).__name__}")
                res = res and r
                left = right
            return res
        if isinstance(n, ast.BoolOp):
            last = None
            for v in n.values:
                last = self.sev(v, env)
                if last is OPAQUE:
                    return OPAQUE
                if isinstance(n.op, ast.And) and not last:
                    return last
                if isinstance(n.op, ast.Or) and last:
                    return last
            return last
        if isinstance(n, ast.UnaryOp) and isinstance(n.op, ast.Not):
            v = self.sev(n.operand, env)
            return OPAQUE if v is OPAQUE else (not v)
        if isinstance(n, (ast.Tuple, ast.List)):
            vals = [self.sev(e, env) for e in n.elts]
            return tuple(vals) if isinstance(n, ast.Tuple) else list(vals)
        if isinstance(n, ast.Dict):
            for k, v in zip(n.keys, n.values):
                self.sev(k, env), self.sev(v, env)
            return OPAQUE
        if isinstance(n, ast.JoinedStr):
            for v in n.values:
                if isinstance(v, ast.FormattedValue):
                    self.sev(v.value, env)
            return OPAQUE
        if isinstance(n, ast.Subscript):
            base = self.sev(n.value, env)
            idx = self.sev(n.slice, env)
            if base is OPAQUE or idx is OPAQUE:
                return OPAQUE
            return base[idx]
        if isinstance(n, ast.BinOp):
            self.sev(n.left, env), self.sev(n.right, env)
            return OPAQUE
        if isinstance(n, ast.GeneratorExp) or isinstance(n, ast.ListComp):
            sub = dict(env)
            for g in n.generators:
                self.sev(g.iter, env)
                for nm in ast.walk(g.target):
                    if isinstance(nm, ast.Name):
                        sub[nm.id] = OPAQUE
                for c in g.ifs:
                    self.sev(c, sub)
            self.sev(n.elt, sub)
            return OPAQUE
        if isinstance(n, (ast.Starred, ast.FormattedValue)):
            v = self.sev(n.value, env)
            return v if isinstance(n, ast.Starred) else OPAQUE
        if isinstance(n, ast.IfExp):
            t = self.sev(n.test, env)
            a, b = self.sev(n.body, env), self.sev(n.orelse, env)
            return OPAQUE if t is OPAQUE else (a if t else b)
        if isinstance(n, (ast.Slice, ast.UnaryOp, ast.Set)):
            for c in ast.iter_child_nodes(n):
                if isinstance(c, ast.expr):
                    self.sev(c, env)
            return OPAQUE
        raise Untranslatable(f"{self.fstack[-1][1]}: expression `{ast.unparse(n)[:60]}` ({type(n).__name__}) is not supported")

    # ------------------------------------------------------------------ run-time expressions
    def scratch(self):
        """a register for values that are consumed by the very next instructions"""
        if "scratch" not in self.memo:
            self.memo["scratch"] = [self.newreg(), self.newreg()]
            self.memo["scratch_i"] = 0
        self.memo["scratch_i"] ^= 1
        return self.memo["scratch"][self.memo["scratch_i"]]

    def load(self, var: Shared, node, default=None, scratch=False):
        r = self.scratch() if (scratch or self.in_cond) else self.newreg()
        d = var.default if default is None else default
        if var.guard and d:
            self.emit("loadG", var.idx, d, r, var.guard[0], var.guard[1], node=node)
        else:
            self.emit("load", var.idx, d, r, node=node)
        if (d == 0 or var.guard) and var.missing:
            ok = Label()
            self.emit("brNe", r, 0, ok, node=node)
            self.raise_(var.missing, node)
            self.place(ok)
        return Dyn(r, var.dom)

    def dex(self, n, env):
        """value of an expression; loads from shared state are emitted"""
        try:
            return self.sev(n, env)
        except NotStatic:
            pass
        if isinstance(n, ast.Name):
            if n.id in env:
                return env[n.id]
            raise Untranslatable(f"{self.fstack[-1][1]}: the shared object `{n.id}` is used as a value (line {n.lineno})")
        if isinstance(n, ast.Attribute):
            try:
                base = self.sev(n.value, env)
            except NotStatic:
                raise Untranslatable(f"{self.fstack[-1][1]}: `{ast.unparse(n)}`: attribute of a run-time value") from None
            var = self.spec.shared_attrs[(base._name, n.attr)]
            return self.load(var, n)
        if isinstance(n, ast.Tuple):
            return tuple(self.dex(e, env) for e in n.elts)
        if isinstance(n, ast.Call):
            h = self.spec.call_handler(ast.unparse(n.func))
            if h is not None:
                return h(self, n, env)
        if isinstance(n, ast.Subscript):
            h = self.spec.subscript_handler(ast.unparse(n.value))
            if h is not None:
                return h(self, n, env)
        raise Untranslatable(f"{self.fstack[-1][1]}: expression `{ast.unparse(n)[:70]}` mixes shared state in a way that is not supported (line {n.lineno})")

    def touch(self, n, env):
        """evaluate an expression only for its shared reads (its value is thread-private, e.g. an error message)"""
        try:
            self.sev(n, self.localenv(env))
            return
        except NotStatic:
            pass
        if isinstance(n, ast.Attribute):
            try:
                base = self.sev(n.value, env)
                var = self.spec.shared_attrs.get((getattr(base, "_name", None), n.attr))
                if var is not None:
                    self.load(var, n, scratch=True)
                    return
            except NotStatic:
                pass
        if isinstance(n, ast.Call) and self.spec.call_handler(ast.unparse(n.func)) is not None:
            raise Untranslatable(f"{self.fstack[-1][1]}: call `{ast.unparse(n.func)}` inside a value that is only used locally (line {n.lineno})")
        kids = [c for c in ast.iter_child_nodes(n) if isinstance(c, (ast.expr, ast.keyword, ast.FormattedValue))]
        if not kids:
            raise Untranslatable(f"{self.fstack[-1][1]}: `{ast.unparse(n)[:60]}` reads shared state in an unsupported way (line {n.lineno})")
        for c in kids:
            self.touch(c.value if isinstance(c, ast.keyword) else c, env)

    def falsy(self, d: Dyn):
        return [i for i, v in enumerate(d.dom) if i > 0 and not v]

    def cond(self, n, env, T, F):
        """emit code that continues at label T when `n` is true, at F otherwise"""
        if isinstance(n, ast.BoolOp):
            for v in n.values[:-1]:
                mid = Label()
                if isinstance(n.op, ast.And):
                    self.cond(v, env, mid, F)
                else:
                    self.cond(v, env, T, mid)
                self.place(mid)
            self.cond(n.values[-1], env, T, F)
            return
        if isinstance(n, ast.UnaryOp) and isinstance(n.op, ast.Not):
            self.cond(n.operand, env, F, T)
            return
        try:
            v = self.sev(n, env)
            if v is OPAQUE:
                raise Untranslatable(f"{self.fstack[-1][1]}: condition `{ast.unparse(n)[:60]}` depends on a thread-private value the translator does not track (line {n.lineno})")
            self.emit("jmp", T if v else F, node=n)
            return
        except NotStatic:
            pass
        h = self.spec.cond_handler(n, env)
        if h is not None:
            h(self, n, env, T, F)
            return
        self.in_cond = True
        try:
            self.cond_atom(n, env, T, F)
        finally:
            self.in_cond = False

    def cond_atom(self, n, env, T, F):
        if isinstance(n, ast.Compare) and len(n.ops) == 1:
            a, b = self.dex(n.left, env), self.dex(n.comparators[0], env)
            op = n.ops[0]
            if isinstance(b, Dyn) and not isinstance(a, Dyn):
                a, b = b, a
            if isinstance(a, Dyn) and not isinstance(b, Dyn) and isinstance(op, (ast.Is, ast.IsNot, ast.Eq, ast.NotEq)):
                pos = isinstance(op, (ast.Is, ast.Eq))
                idx = [i for i, v in enumerate(a.dom) if i > 0 and (v is b or (not isinstance(v, Tok) and not isinstance(b, Tok) and type(v) is type(b) and v == b))]
                if not idx:
                    self.emit("jmp", F if pos else T, node=n)
                else:
                    self.emit("brEq", a.reg, idx[0], T if pos else F, node=n)
                    self.emit("jmp", F if pos else T, node=n)
                return
            raise Untranslatable(f"{self.fstack[-1][1]}: comparison `{ast.unparse(n)[:60]}` (line {n.lineno})")
        v = self.dex(n, env)
        if isinstance(v, Dyn):
            for i in self.falsy(v):
                self.emit("brEq", v.reg, i, F, node=n)
            self.emit("jmp", T, node=n)
            return
        if v is not OPAQUE and v is not DEAD and not isinstance(v, tuple):
            self.emit("jmp", T if v else F, node=n)      # e.g. the answer of the slow call, a fact about this host
            return
        raise Untranslatable(f"{self.fstack[-1][1]}: condition `{ast.unparse(n)[:60]}` (line {n.lineno})")

    # ------------------------------------------------------------------ unwinding
    def push(self, fr):
        fr["fstack"] = list(self.fstack)
        self.ctx.append(fr)

    def in_frame(self, fr, body):
        """compile a cleanup / handler body that belongs to the function the frame was opened in"""
        fstack, flags = self.fstack, self.stmt_inlined
        self.fstack, self.stmt_inlined = fr["fstack"], [False]
        try:
            return self.block(body, fr["env"])
        finally:
            self.fstack, self.stmt_inlined = fstack, flags

    def unwind(self, upto, node):
        """emit the cleanups of the contexts above index `upto` (innermost first)"""
        saved = self.ctx
        flags = self.stmt_inlined
        self.stmt_inlined = [False]
        try:
            for i in range(len(saved) - 1, upto - 1, -1):
                fr = saved[i]
                self.ctx = saved[:i]
                if fr["kind"] == "with":
                    self.emit("release", tag=fr["tag"])
                elif fr["kind"] == "finally":
                    if not self.in_frame(fr, fr["body"]):
                        return False
            return True
        finally:
            self.ctx = saved
            self.stmt_inlined = flags

    def raise_(self, kind, node):
        """the current statement raises an exception of `kind`"""
        saved = self.ctx
        flags = self.stmt_inlined
        self.stmt_inlined = [False]
        try:
            for i in range(len(saved) - 1, -1, -1):
                fr = saved[i]
                self.ctx = saved[:i]
                if fr["kind"] == "with":
                    self.emit("release", tag=fr["tag"])
                elif fr["kind"] == "finally":
                    if not self.in_frame(fr, fr["body"]):
                        return
                elif fr["kind"] == "try":
                    for names, body in fr["handlers"]:
                        if names is None or any(KINDS.get(nm, nm) in exc_parents(kind) for nm in names):
                            if self.in_frame(fr, body):
                                self.emit("jmp", fr["after"], tag=0)
                                fr["after_used"] = True
                            return
            self.emit("fail", kind, node=node)
        finally:
            self.ctx = saved
            self.stmt_inlined = flags

    # ------------------------------------------------------------------ statements
    def is_local(self, s, env):
        """does the statement only involve static / thread-private values (no control transfer out of it)"""
        def escapes(n, in_loop):
            if isinstance(n, (ast.Return, ast.Raise, ast.With, ast.Try, ast.Delete, ast.Global, ast.Lambda)):
                return True
            if isinstance(n, (ast.Continue, ast.Break)):
                return not in_loop
            if isinstance(n, (ast.Yield, ast.YieldFrom, ast.Await)):
                return True
            loop = in_loop or isinstance(n, (ast.For, ast.While))
            return any(escapes(c, loop) for c in ast.iter_child_nodes(n))

        if escapes(s, False):
            return False
        sub = dict(env)
        for n in ast.walk(s):
            if isinstance(n, ast.Name) and isinstance(n.ctx, ast.Store):
                sub[n.id] = OPAQUE
        try:
            for n in ast.walk(s):
                if isinstance(n, ast.expr) and not isinstance(n, ast.Constant) and not isinstance(getattr(n, "ctx", None), (ast.Store, ast.Del)):
                    self.sev(n, sub)
            for n in ast.walk(s):
                if isinstance(n, (ast.Attribute, ast.Subscript)) and isinstance(n.ctx, ast.Store):
                    base = self.sev(n.value, sub)
                    if isinstance(base, Tok) and getattr(base, "_shared_root", False):
                        return False
        except NotStatic:
            return False
        return True

    @staticmethod
    def localenv(env):
        """registers are thread-private: for "does this read shared state" they count as opaque values"""
        return {k: (OPAQUE if isinstance(v, Dyn) or (isinstance(v, tuple) and any(isinstance(x, Dyn) for x in v)) else v) for k, v in env.items()}

    def mark_assigned(self, s, env):
        for n in ast.walk(s):
            if isinstance(n, ast.Name) and isinstance(n.ctx, ast.Store):
                env[n.id] = OPAQUE

    def block(self, stmts, env):
        for s in stmts:
            if not self.stmt(s, env):
                return False
        return True

    def merge_env(self, env, a, b):
        for k in set(a) | set(b):
            va, vb = a.get(k, OPAQUE), b.get(k, OPAQUE)
            same = va is vb or (isinstance(va, Dyn) and isinstance(vb, Dyn) and va.reg == vb.reg and va.dom is vb.dom)
            if not same:
                try:
                    same = not isinstance(va, (Dyn, Tok)) and not isinstance(vb, (Dyn, Tok)) and type(va) is type(vb) and va == vb
                except Exception:  # noqa: BLE001
                    same = False
            env[k] = va if same else OPAQUE

    def stmt(self, s, env):
        if isinstance(s, ast.Expr) and isinstance(s.value, ast.Constant):
            return True
        self.emit("nop", node=s)
        self.stmt_inlined.append(False)
        try:
            return self.stmt1(s, env)
        finally:
            self.stmt_inlined.pop()

    def store_value(self, var: Shared, v, node):
        if isinstance(v, Dyn):
            if v.dom is not var.dom and v.dom != var.dom:
                raise Untranslatable(f"store of a register with a different value domain into {var.name}")
            self.emit("storeR", var.idx, v.reg, node=node)
        else:
            v = self.spec.abstract(var, v)
            self.emit("store", var.idx, var.index(v), node=node)

    def stmt1(self, s, env):
        sp = self.spec
        h = sp.stmt_handler(s)
        if h is not None:
            return h(self, s, env)
        if isinstance(s, (ast.Pass, ast.Global)):
            return True
        if isinstance(s, ast.Assert):
            try:
                self.sev(s.test, self.localenv(env))
            except NotStatic:
                raise Untranslatable(f"{self.fstack[-1][1]}: assert reads shared state (line {s.lineno})") from None
            return True
        if isinstance(s, ast.FunctionDef):
            env[s.name] = OPAQUE
            return True
        if isinstance(s, ast.Return):
            v = None if s.value is None else self.dex(s.value, env)
            if v is DEAD:
                return False
            for i in range(len(self.ctx) - 1, -1, -1):
                if self.ctx[i]["kind"] == "inline":
                    fr = self.ctx[i]
                    if not self.unwind(i + 1, s):
                        return False
                    fr["rets"].append(v)
                    self.emit("jmp", fr["exit"], tag=0)
                    return False
            if not self.unwind(0, s):
                return False
            if isinstance(v, Dyn):
                self.emit("ret", v.reg, node=s)
            else:
                r = self.newreg()
                self.emit("set", r, sp.root_return(v), node=s)
                self.emit("ret", r, node=s)
            return False
        if isinstance(s, ast.Raise):
            e = s.exc
            if isinstance(e, ast.Call):
                for a in e.args:
                    self.touch(a, env)
                name = ast.unparse(e.func).split(".")[-1]
            elif isinstance(e, ast.Name):
                v = self.lookup(e.id, env)
                name = getattr(v, "_exc", None)
                if name is None:
                    raise Untranslatable(f"raise of `{e.id}` whose class is not known")
            else:
                raise Untranslatable("bare raise")
            if name not in KINDS:
                raise Untranslatable(f"exception class {name} has no kind in the model")
            self.raise_(KINDS[name], s)
            return False
        if isinstance(s, ast.Delete):
            for t in s.targets:
                if not isinstance(t, ast.Attribute):
                    raise Untranslatable(f"del of {ast.unparse(t)}")
                base = self.sev(t.value, env)
                var = sp.shared_attrs.get((getattr(base, "_name", None), t.attr))
                if var is None:
                    raise Untranslatable(f"del of unclassified attribute {t.attr}")
                r = self.scratch()
                self.emit("swap", var.idx, 0, r, node=s)
                ok = Label()
                self.emit("brNe", r, 0, ok, node=s)
                self.raise_("attributeError", s)
                self.place(ok)
            return True
        if isinstance(s, ast.Assign):
            if len(s.targets) != 1:
                raise Untranslatable("chained assignment")
            return self.assign(s.targets[0], s.value, s, env)
        if isinstance(s, ast.AugAssign):
            if self.is_local(s, env):
                self.mark_assigned(s, env)
                return True
            raise Untranslatable(f"augmented assignment touching shared state (line {s.lineno})")
        if isinstance(s, ast.Expr):
            v = self.dex(s.value, env)
            return v is not DEAD
        if isinstance(s, ast.If):
            try:
                v = self.sev(s.test, env)
                static = True
            except NotStatic:
                static = False
            if static:
                if v is OPAQUE:
                    if self.is_local(s, env):
                        self.mark_assigned(s, env)
                        return True
                    raise Untranslatable(f"{self.fstack[-1][1]}: `if {ast.unparse(s.test)[:50]}` depends on a thread-private value and guards shared accesses (line {s.lineno})")
                return self.block(s.body if v else s.orelse, env)
            T, F, E = Label(), Label(), Label()
            if isinstance(s.test, ast.Call) and self.spec.call_handler(ast.unparse(s.test.func)) is not None:
                v = self.dex(s.test, env)
                if v is DEAD:
                    return False
                if not isinstance(v, Dyn):
                    if v is OPAQUE or isinstance(v, tuple):
                        raise Untranslatable(f"{self.fstack[-1][1]}: `if {ast.unparse(s.test)[:50]}` (line {s.lineno})")
                    return self.block(s.body if v else s.orelse, env)      # the call's answer is a fact about this host
                for i in self.falsy(v):
                    self.emit("brEq", v.reg, i, F, node=s.test)
                self.emit("jmp", T, node=s.test)
            else:
                self.cond(s.test, env, T, F)
            self.place(T)
            e1 = dict(env)
            l1 = self.block(s.body, e1)
            if l1:
                self.emit("jmp", E, tag=0)
            self.place(F)
            e2 = dict(env)
            l2 = self.block(s.orelse, e2)
            if l2:
                self.emit("jmp", E, tag=0)
            self.place(E)
            if l1 and l2:
                self.merge_env(env, e1, e2)
            elif l1:
                env.clear(), env.update(e1)
            elif l2:
                env.clear(), env.update(e2)
            return l1 or l2
        if isinstance(s, ast.With):
            if len(s.items) != 1 or s.items[0].optional_vars is not None or not isinstance(s.items[0].context_expr, ast.Name) \
                    or s.items[0].context_expr.id not in sp.locks:
                raise Untranslatable(f"with-statement over something else than the protocol's lock (line {s.lineno})")
            tag = self.tag(s)
            self.emit("acquire", tag=tag)
            self.push({"kind": "with", "tag": tag})
            live = self.block(s.body, env)
            self.ctx.pop()
            if live:
                self.emit("release", tag=tag)
            return live
        if isinstance(s, ast.Try):
            if s.orelse:
                raise Untranslatable("try/else")
            live = None
            if s.finalbody:
                self.push({"kind": "finally", "body": s.finalbody, "env": env})
            if s.handlers:
                hs = []
                for hd in s.handlers:
                    if hd.type is None:
                        names = None
                    elif isinstance(hd.type, ast.Tuple):
                        names = [ast.unparse(e).split(".")[-1] for e in hd.type.elts]
                    else:
                        names = [ast.unparse(hd.type).split(".")[-1]]
                    body = hd.body
                    if hd.name:
                        env[hd.name] = Tok("caught", _exc=names[0] if names else "Exception")
                    hs.append((names, body))
                fr = {"kind": "try", "handlers": hs, "after": Label(), "after_used": False, "env": env}
                self.push(fr)
                live = self.block(s.body, env)
                self.ctx.pop()
                if live:
                    self.emit("jmp", fr["after"], tag=0)
                if live or fr["after_used"]:
                    self.place(fr["after"])
                    live = True
            else:
                live = self.block(s.body, env)
            if s.finalbody:
                self.ctx.pop()
                if live:
                    live = self.block(s.finalbody, env)
            return live
        if isinstance(s, ast.For):
            if s.orelse:
                raise Untranslatable("for/else")
            try:
                it = self.sev(s.iter, env)
            except NotStatic:
                raise Untranslatable(f"loop over shared state (line {s.lineno})") from None
            if it is OPAQUE:
                if self.is_local(s, env):
                    self.mark_assigned(s, env)
                    return True
                raise Untranslatable(f"{self.fstack[-1][1]}: loop over a thread-private sequence with shared accesses in the body (line {s.lineno})")
            if not isinstance(s.target, ast.Name):
                raise Untranslatable("loop target")
            brk = Label()
            fr = {"kind": "loop", "cont": None, "cont_used": False, "brk": brk, "brk_used": False}
            live = True
            for elem in it:
                if not live:
                    break
                env[s.target.id] = elem
                fr["cont"], fr["cont_used"] = Label(), False
                self.push(fr)
                live = self.block(s.body, env)
                self.ctx.pop()
                if fr["cont_used"]:
                    if live:
                        self.emit("jmp", fr["cont"], tag=0)
                    self.place(fr["cont"])
                    live = True
            if fr["brk_used"]:
                if live:
                    self.emit("jmp", brk, tag=0)
                self.place(brk)
                live = True
            return live
        if isinstance(s, (ast.Continue, ast.Break)):
            for i in range(len(self.ctx) - 1, -1, -1):
                if self.ctx[i]["kind"] == "loop":
                    if not self.unwind(i + 1, s):
                        return False
                    fr = self.ctx[i]
                    if isinstance(s, ast.Continue):
                        fr["cont_used"] = True
                        self.emit("jmp", fr["cont"], tag=0)
                    else:
                        fr["brk_used"] = True
                        self.emit("jmp", fr["brk"], tag=0)
                    return False
                if self.ctx[i]["kind"] == "inline":
                    break
            raise Untranslatable("continue/break outside a loop")
        if isinstance(s, ast.While):
            if self.is_local(s, env):
                self.mark_assigned(s, env)
                return True
            raise Untranslatable(f"while loop touching shared state (line {s.lineno})")
        raise Untranslatable(f"{self.fstack[-1][1]}: statement {type(s).__name__} (line {s.lineno}) is not supported")

    def assign(self, target, value, s, env):
        sp = self.spec
        if isinstance(target, ast.Name):
            v = self.dex(value, env)
            if v is DEAD:
                return False
            old = env.get(target.id)
            if isinstance(old, Dyn) and isinstance(v, Dyn) and old.reg != v.reg and old.dom == v.dom:
                self.emit("mov", old.reg, v.reg, node=s)      # one register per local name, so that branches join
                v = Dyn(old.reg, v.dom)
            env[target.id] = v
            return True
        if isinstance(target, ast.Attribute):
            try:
                base = self.sev(target.value, env)
            except NotStatic:
                raise Untranslatable(f"assignment to an attribute of a run-time value (line {s.lineno})") from None
            if isinstance(base, Tok) and getattr(base, "_shared_root", False):
                var = sp.shared_attrs.get((base._name, target.attr))
                if var is None:
                    raise Untranslatable(f"{self.fstack[-1][1]}: store to unclassified attribute `{target.attr}` of the shared object (line {s.lineno})")
                v = self.dex(value, env)
                self.store_value(var, v, s)
                return True
            if base is OPAQUE:
                self.sev(value, env)
                return True
            raise Untranslatable(f"assignment to {ast.unparse(target)}")
        if isinstance(target, ast.Subscript):
            h = sp.subscript_store_handler(ast.unparse(target.value))
            if h is not None:
                return h(self, target, value, s, env)
            if self.is_local(s, env):
                return True
            raise Untranslatable(f"subscript store `{ast.unparse(target)}` (line {s.lineno})")
        if isinstance(target, ast.Tuple):
            if all(isinstance(e, ast.Name) for e in target.elts):
                v = self.dex(value, env)
                if isinstance(v, Dyn):
                    # unpacking a loaded object: fails with TypeError when it is None
                    for i in [i for i, x in enumerate(v.dom) if i > 0 and x is None]:
                        ok = Label()
                        self.emit("brNe", v.reg, i, ok, node=s)
                        self.raise_("typeError", s)
                        self.place(ok)
                    for e in target.elts:
                        env[e.id] = Dyn(v.reg, v.dom)       # parts of the loaded object: same identity for the model
                    return True
                if v is OPAQUE:
                    for e in target.elts:
                        env[e.id] = OPAQUE
                    return True
                if isinstance(v, (tuple, list)) and len(v) == len(target.elts):
                    for e, x in zip(target.elts, v):
                        env[e.id] = x
                    return True
                raise Untranslatable(f"unpacking of {v!r}")
            if all(isinstance(e, ast.Attribute) for e in target.elts):
                v = self.dex(value, env)
                if not isinstance(v, tuple) or len(v) != len(target.elts):
                    raise Untranslatable("tuple store of a non-tuple")
                for e, x in zip(target.elts, v):
                    base = self.sev(e.value, env)
                    var = sp.shared_attrs.get((getattr(base, "_name", None), e.attr))
                    if var is None:
                        raise Untranslatable(f"store to unclassified attribute {e.attr}")
                    self.store_value(var, x, s)
                return True
        raise Untranslatable(f"assignment target {ast.unparse(target)} (line {s.lineno})")

    # ------------------------------------------------------------------ calls
    def bind(self, fd: ast.FunctionDef, args, kwargs, env_globals):
        a = fd.args
        if a.vararg or a.kwarg or a.posonlyargs or a.kwonlyargs:
            raise Untranslatable(f"signature of {fd.name}")
        names = [x.arg for x in a.args]
        env = {}
        for nm, v in zip(names, args):
            env[nm] = v
        if len(args) > len(names):
            raise Untranslatable(f"too many arguments for {fd.name}")
        for k, v in kwargs.items():
            if k not in names or k in env:
                raise Untranslatable(f"argument {k} of {fd.name}")
            env[k] = v
        defaults = dict(zip(names[len(names) - len(a.defaults):], a.defaults))
        for nm in names:
            if nm not in env:
                if nm not in defaults:
                    raise Untranslatable(f"missing argument {nm} of {fd.name}")
                env[nm] = self.sev(defaults[nm], {})
        return env

    def inline(self, qual, args, kwargs, node):
        """compile the body of a protocol function in place; returns its (static / opaque) result or DEAD"""
        depth = sum(1 for f in self.ctx if f["kind"] == "inline" and f["qual"] == qual)
        if depth >= 3:
            raise Untranslatable(f"recursion of {qual} does not bottom out")
        fileid, fd = self.fdef(qual)
        env = self.bind(fd, args, kwargs, None)
        fr = {"kind": "inline", "qual": qual, "exit": Label(), "rets": []}
        self.push(fr)
        self.fstack.append((fileid, qual))
        try:
            live = self.block(fd.body, env)
        finally:
            self.fstack.pop()
            self.ctx.pop()
        if live:
            fr["rets"].append(None)
            self.emit("jmp", fr["exit"], tag=0)
        self.stmt_inlined[-1] = True
        if not fr["rets"]:
            return DEAD
        self.place(fr["exit"])
        r0 = fr["rets"][0]
        for r in fr["rets"][1:]:
            if isinstance(r, Dyn) or isinstance(r0, Dyn) or not (r is r0 or (type(r) is type(r0) and not isinstance(r, Tok) and r == r0)):
                return OPAQUE
        return OPAQUE if isinstance(r0, Dyn) else r0

    def eval_args(self, n: ast.Call, env):
        args = [self.sev(a, env) for a in n.args]
        kwargs = {k.arg: self.sev(k.value, env) for k in n.keywords}
        return args, kwargs

    def compile_root(self):
        qual, args = self.spec.entry
        fileid, fd = self.fdef(qual)
        self.fstack.append((fileid, qual))
        self.spec.prologue(self, fd)
        env = self.bind(fd, [], args, None)
        live = self.block(fd.body, env)
        if live:
            r = self.newreg()
            self.emit("set", r, self.spec.root_return(None), node=fd.body[-1])
            self.emit("ret", r, node=fd.body[-1])
        self.fstack.pop()
        return self.finish()


class Spec:
    """what the translator is told about one protocol"""

    name = "?"
    funcs: dict = {}
    entry = None
    shared_attrs: dict = {}
    const_attrs: dict = {}
    shared_globals: set = set()
    globals: dict = {}
    locks: set = set()
    calls: dict = {}
    want = 0
    final_kind = "attributeError"

    def call_handler(self, key):
        return self.calls.get(key)

    def subscript_handler(self, key):
        return None

    def subscript_store_handler(self, key):
        return None

    def cond_handler(self, n, env):
        return None

    def stmt_handler(self, s):
        return None

    def abstract(self, var, v):
        return v

    def root_return(self, v):
        raise Untranslatable(f"{self.name}: the entry function returns {v!r}")

    def prologue(self, comp, fd):
        pass

    def variables(self):
        seen = {}
        for v in self.shared_attrs.values():
            seen[v.idx] = v
        for v in getattr(self, "extra_vars", []):
            seen[v.idx] = v
        return [seen[k] for k in sorted(seen)]

    def sh0(self):
        s = 0
        for v in self.variables():
            s += v.init << (3 * v.idx)
        return s
