"""unit B64: base64 engines."""
import ast
from extract_core import *  # noqa: F401,F403
from extract_core import unit, src_ast, find_def, strip_doc, chunk_family, ords, HEADER, Untranslatable, expr, lean_nat_list

# ---------------------------------------------------------------------------------------
# unit: B64  (passlib/utils/binary.py, libpass/_utils/binary.py)
# ---------------------------------------------------------------------------------------
@unit("B64")
def unit_b64():
    tree = src_ast("passlib/utils/binary.py")
    ltree = src_ast("libpass/_utils/binary.py")
    import passlib.utils.binary as pb
    import libpass._utils.binary as lb

    out = [HEADER.format(src="passlib/utils/binary.py, libpass/_utils/binary.py"), "namespace Gen.B64\n"]
    for nm in ("HASH64_CHARS", "BCRYPT_CHARS", "BASE64_CHARS", "AB64_CHARS"):
        out.append(f"def {nm} : List Nat :=\n  {lean_nat_list(ords(getattr(pb, nm)))}\n")
    out.append(f"def LIBPASS_B64_CHARS : List Nat :=\n  {lean_nat_list(ords(lb.B64_CHARS))}\n")
    out.append(chunk_family(tree, "Base64Engine._encode_bytes_little", "encLittle", "enc"))
    out.append(chunk_family(tree, "Base64Engine._encode_bytes_big", "encBig", "enc"))
    out.append(chunk_family(tree, "Base64Engine._decode_bytes_little", "decLittle", "dec"))
    out.append(chunk_family(tree, "Base64Engine._decode_bytes_big", "decBig", "dec"))
    out.append(chunk_family(ltree, "_encode_bytes_little", "lpEncLittle", "enc"))
    out.append(chunk_family(ltree, "_encode_bytes_big", "lpEncBig", "enc"))

    # engines as constructed in the module: (name, charmap, big)
    engines = []
    for nm in ("h64", "h64big", "bcrypt64"):
        e = getattr(pb, nm)
        engines.append((nm, ords(e.bytemap), bool(e.big)))
    engines.append(("lp_h64_engine", ords(lb.h64_engine._charmap), bool(lb.h64_engine._big)))
    for nm, cm, big in engines:
        out.append(f"def {nm}_charmap : List Nat :=\n  {lean_nat_list(cm)}\ndef {nm}_big : Bool := {'true' if big else 'false'}\n")

    # padding-bit masks: `bits = A if self.big else B` in _padinfo2/_padinfo3
    for nm in ("_padinfo2", "_padinfo3"):
        fn = find_def(tree, "Base64Engine." + nm)
        body = strip_doc(fn.body)
        if not (len(body) == 2 and isinstance(body[0], ast.Assign) and isinstance(body[0].value, ast.IfExp)):
            raise Untranslatable(f"{nm}: unexpected shape")
        ife = body[0].value
        if ast.unparse(ife.test) != "self.big":
            raise Untranslatable(f"{nm}: test is not self.big")
        ret = body[1]
        if not (isinstance(ret, ast.Return) and ast.unparse(ret.value).replace(" ", "").startswith("(~bits,")):
            raise Untranslatable(f"{nm}: return shape")
        out.append(f"def {nm.strip('_')}BitsBig : Nat := {expr(ife.body)}\ndef {nm.strip('_')}BitsLittle : Nat := {expr(ife.orelse)}\n")

    # fixed-width int codecs: the `raw` lists of encode_int12/24, decode_int12/24 sums
    for nm, var in (("encode_int12", "value"), ("encode_int24", "value")):
        fn = find_def(tree, "Base64Engine." + nm)
        raw = [s for s in fn.body if isinstance(s, ast.Assign) and ast.unparse(s.targets[0]) == "raw"]
        if len(raw) != 1:
            raise Untranslatable(nm)
        out.append(f"def {nm}_raw (value : Nat) : List Nat := {expr(raw[0].value, 'nat', {'value': 'value'})}\n")
        rng = [s for s in fn.body if isinstance(s, ast.If)]
        cond = ast.unparse(rng[0].test)
        out.append(f"-- range guard of {nm}: {cond}\ndef {nm}_max : Nat := {expr(rng[0].test.values[1].comparators[0])}\n")
    for nm in ("encode_int30", "encode_int64"):
        fn = find_def(tree, "Base64Engine." + nm)
        rng = [s for s in fn.body if isinstance(s, ast.If)]
        out.append(f"def {nm}_max : Nat := {expr(rng[0].test.values[1].comparators[0])}\n")
        ret = [s for s in fn.body if isinstance(s, ast.Return)][0]
        out.append(f"def {nm}_bits : Nat := {expr(ret.value.args[1])}\n")
    for nm in ("decode_int12", "decode_int24"):
        fn = find_def(tree, "Base64Engine." + nm)
        tr = [s for s in fn.body if isinstance(s, ast.Try)][0]
        ifs = tr.body[0]
        big_ret = ifs.body[0].value
        little_ret = tr.body[1].value
        n = 2 if nm.endswith("12") else 4
        env = {f"source[{i}]": f"s{i}" for i in range(n)}

        def sub(node):
            class T(ast.NodeTransformer):
                def visit_Call(self, c):
                    if isinstance(c.func, ast.Name) and c.func.id == "decode":
                        return ast.Name(id="s" + str(c.args[0].slice.value))
                    return self.generic_visit(c)

            return T().visit(node)

        args = " ".join(f"s{i}" for i in range(n))
        e2 = {f"s{i}": f"s{i}" for i in range(n)}
        out.append(f"def {nm}_big ({args} : Nat) : Nat := {expr(sub(big_ret), 'nat', e2)}\n")
        out.append(f"def {nm}_little ({args} : Nat) : Nat := {expr(sub(little_ret), 'nat', e2)}\n")
    # b32 typo map & strip/pad constants
    out.append(f"def b32_translate : List Nat :=\n  {lean_nat_list(ords(pb._b32_translate))}\n")
    out.append(f"def BASE64_STRIP : List Nat := {lean_nat_list(ords(pb._BASE64_STRIP))}\n")
    # transposition tables the hash formats pass to encode_transposed_bytes
    import passlib.handlers.md5_crypt as m5
    import passlib.handlers.sha2_crypt as s2
    import passlib.handlers.sun_md5_crypt as sm
    import passlib.handlers.sha1_crypt as s1
    import libpass.hashers.sha_crypt as lps

    tables = [
        ("md5_transpose_map", m5._transpose_map),
        ("sha256_transpose_map", s2._256_transpose_map),
        ("sha512_transpose_map", s2._512_transpose_map),
        ("sun_md5_chk_offsets", sm._chk_offsets),
        ("sha1_chk_offsets", s1.sha1_crypt._chk_offsets),
        ("lp_sha256_transpose_map", lps._256_transpose_map),
        ("lp_sha512_transpose_map", lps._512_transpose_map),
    ]
    for nm, t in tables:
        out.append(f"def {nm} : List Nat :=\n  {lean_nat_list(list(t))}\n")
    out.append("def transposeTables : List (String × List Nat) :=\n  [" + ",\n   ".join(f'("{nm}", {nm})' for nm, _ in tables) + "]\n")
    out.append("end Gen.B64\n")
    return "\n".join(out)


