"""Python expression / straight-line statement block -> Lean 4 term (strict).

Only the shapes listed here are translated; anything else raises Untranslatable, which
the extractor turns into a *translation failure for the unit* (never a silent default).

Numeric mode "nat": all values are Lean `Nat` (Python ints known to be non-negative;
`-` is refused).  Mode "int": `Int` with floor `//` and `%` (`Int.fdiv`, `Int.fmod`).
"""
from __future__ import annotations

import ast


class Untranslatable(Exception):
    pass


_BIN_NAT = {
    ast.BitAnd: "&&&",
    ast.BitOr: "|||",
    ast.BitXor: "^^^",
    ast.LShift: "<<<",
    ast.RShift: ">>>",
    ast.Add: "+",
    ast.Mult: "*",
    ast.FloorDiv: "/",
    ast.Mod: "%",
    ast.Pow: "^",
}

_CMP = {
    ast.Eq: "==",
    ast.NotEq: "!=",
    ast.Lt: "<",
    ast.LtE: "<=",
    ast.Gt: ">",
    ast.GtE: ">=",
}


def expr(node: ast.AST, mode: str = "nat", env: dict | None = None) -> str:
    """translate an expression.  env maps python names -> lean terms."""
    env = env or {}

    def go(n):
        if isinstance(n, ast.Constant):
            if isinstance(n.value, bool):
                return "true" if n.value else "false"
            if isinstance(n.value, int):
                if n.value < 0:
                    if mode != "int":
                        raise Untranslatable("negative literal in nat mode")
                    return f"({n.value} : Int)"
                return f"({n.value} : Int)" if mode == "int" else str(n.value)
            raise Untranslatable(f"constant {n.value!r}")
        if isinstance(n, ast.Name):
            if n.id in env:
                return env[n.id]
            raise Untranslatable(f"free name {n.id}")
        if isinstance(n, ast.Attribute):
            key = ast.unparse(n)
            if key in env:
                return env[key]
            raise Untranslatable(f"free attribute {key}")
        if isinstance(n, ast.BinOp):
            l, r = go(n.left), go(n.right)
            t = type(n.op)
            if mode == "int":
                if t is ast.FloorDiv:
                    return f"(Int.fdiv {l} {r})"
                if t is ast.Mod:
                    return f"(Int.fmod {l} {r})"
                if t is ast.Sub:
                    return f"({l} - {r})"
                if t in (ast.Add, ast.Mult):
                    return f"({l} {_BIN_NAT[t]} {r})"
                raise Untranslatable(f"int-mode op {t.__name__}")
            if t is ast.Sub:
                raise Untranslatable("subtraction in nat mode")
            if t in _BIN_NAT:
                return f"({l} {_BIN_NAT[t]} {r})"
            raise Untranslatable(f"binop {t.__name__}")
        if isinstance(n, ast.UnaryOp):
            if isinstance(n.op, ast.USub) and mode == "int":
                return f"(- {go(n.operand)})"
            if isinstance(n.op, ast.Not):
                return f"(!{go(n.operand)})"
            raise Untranslatable(f"unary {type(n.op).__name__}")
        if isinstance(n, ast.Compare):
            if len(n.ops) != 1:
                raise Untranslatable("chained comparison")
            op = type(n.ops[0])
            if op not in _CMP:
                raise Untranslatable(f"compare {op.__name__}")
            return f"(decide ({go(n.left)} {_CMP[op].replace('==','=').replace('!=','≠').replace('<=','≤').replace('>=','≥')} {go(n.comparators[0])}))"
        if isinstance(n, ast.IfExp):
            return f"(if {go(n.test)} = true then {go(n.body)} else {go(n.orelse)})"
        if isinstance(n, ast.Call) and isinstance(n.func, ast.Attribute):
            key = ast.unparse(n.func)
            if key in env and not n.keywords:
                return "(" + env[key] + " " + " ".join(go(a) for a in n.args) + ")"
            raise Untranslatable(f"call {key}")
        if isinstance(n, ast.Call) and isinstance(n.func, ast.Name):
            fn = n.func.id
            if fn in ("max", "min") and len(n.args) == 2 and not n.keywords:
                return f"({fn} {go(n.args[0])} {go(n.args[1])})"
            if fn == "int" and len(n.args) == 1 and not n.keywords and mode == "int":
                return go(n.args[0])
            if fn in env and not n.keywords:
                return "(" + env[fn] + " " + " ".join(go(a) for a in n.args) + ")"
            raise Untranslatable(f"call {fn}")
        if isinstance(n, (ast.Tuple, ast.List)):
            return "[" + ", ".join(go(e) for e in n.elts) + "]"
        raise Untranslatable(f"node {type(n).__name__}: {ast.unparse(n)}")

    return go(node)


def block(stmts: list[ast.stmt], result: ast.AST | None, mode: str, env: dict) -> str:
    """straight-line block of `a = e`, `a, b = e1, e2`, `a op= e` followed by a result
    expression -> nested `let`s.  Names are SSA-renamed so re-assignment is faithful."""
    env = dict(env)
    counter: dict[str, int] = {}
    lets: list[str] = []

    def fresh(name: str) -> str:
        counter[name] = counter.get(name, 0) + 1
        return f"{name}_{counter[name]}"

    for s in stmts:
        if isinstance(s, ast.Assign) and len(s.targets) == 1:
            tgt = s.targets[0]
            if isinstance(tgt, ast.Name):
                rhs = expr(s.value, mode, env)
                nm = fresh(tgt.id)
                lets.append(f"let {nm} := {rhs}")
                env[tgt.id] = nm
            elif isinstance(tgt, ast.Tuple) and isinstance(s.value, ast.Tuple) and len(
                tgt.elts
            ) == len(s.value.elts):
                rhss = [expr(v, mode, env) for v in s.value.elts]
                for t, r in zip(tgt.elts, rhss):
                    if not isinstance(t, ast.Name):
                        raise Untranslatable("tuple target")
                    nm = fresh(t.id)
                    lets.append(f"let {nm} := {r}")
                for t in tgt.elts:
                    env[t.id] = f"{t.id}_{counter[t.id]}"
            else:
                raise Untranslatable("assignment shape")
        elif isinstance(s, ast.AugAssign) and isinstance(s.target, ast.Name):
            fake = ast.BinOp(left=ast.Name(id=s.target.id), op=s.op, right=s.value)
            rhs = expr(fake, mode, env)
            nm = fresh(s.target.id)
            lets.append(f"let {nm} := {rhs}")
            env[s.target.id] = nm
        elif isinstance(s, ast.Expr) and isinstance(s.value, ast.Constant):
            continue  # docstring
        elif isinstance(s, ast.Assert):
            continue
        else:
            raise Untranslatable(f"statement {type(s).__name__}")
    res = expr(result, mode, env) if result is not None else "()"
    return "\n    ".join(lets + [res])


def lean_nat_list(xs, per_row: int = 16) -> str:
    xs = list(xs)
    rows = [", ".join(str(int(x)) for x in xs[i : i + per_row]) for i in range(0, len(xs), per_row)]
    return "[" + ",\n   ".join(rows) + "]"


def lean_str(s: str) -> str:
    out = []
    for ch in s:
        o = ord(ch)
        if ch == '"':
            out.append('\\"')
        elif ch == "\\":
            out.append("\\\\")
        elif 32 <= o < 127:
            out.append(ch)
        else:
            out.append("\\u{%x}" % o)
    return '"' + "".join(out) + '"'
