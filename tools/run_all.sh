#!/bin/sh
# run every claimed check once (tier $1, default quick) on the current /repo and print one line each
cd "$(dirname "$0")/.." || exit 2
tier=${1:-quick}
rc=0
for p in $(python3 -c "import json;print(' '.join(c['property_id'] for c in json.load(open('MANIFEST.json'))['checks']))"); do
  out=$(./check "$p" --tier "$tier" 2>&1); e=$?
  echo "$out" | grep -E "^$p tier=|^VIOLATION" | tail -2
  [ $e -ne 0 ] && rc=1
done
exit $rc
