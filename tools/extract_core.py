"""Translator: /repo (current working tree)  ->  lean/PasslibVerif/Gen/*.lean

Run on every check, before the Lean build.  Three strict modes (DESIGN.md §2.1):
  reflect   data attributes of imported modules -> Lean literals
  expr      straight-line bodies / yield expressions -> Lean terms (pyexpr2lean)
  skeleton  order/kind of statements of small protocols -> instruction lists

Each unit writes one Lean module.  A unit that cannot be translated writes a module
containing only a marker comment (so that dependants stop building) and is reported in
the status file as failed -- never a silent default.
"""
from __future__ import annotations

import argparse
import ast
import importlib
import inspect
import json
import os
import sys
import textwrap
import traceback

HERE = os.path.dirname(os.path.abspath(__file__))
sys.path.insert(0, HERE)
REPO = os.environ.get("PASSLIB_REPO", "/repo")
sys.path.insert(0, REPO)

from pyexpr2lean import Untranslatable, block, expr, lean_nat_list, lean_str  # noqa: E402

UNITS: dict[str, callable] = {}


def unit(name):
    def deco(fn):
        UNITS[name] = fn
        return fn

    return deco


def src_ast(path_rel: str) -> ast.Module:
    with open(os.path.join(REPO, path_rel), encoding="utf-8") as fh:
        return ast.parse(fh.read(), filename=path_rel)


def find_def(tree: ast.AST, qual: str) -> ast.AST:
    """find `Class.method` / `func` / `Class` in a module ast."""
    cur = tree
    for part in qual.split("."):
        for n in cur.body:
            if isinstance(n, (ast.FunctionDef, ast.ClassDef)) and n.name == part:
                cur = n
                break
        else:
            raise Untranslatable(f"definition {qual} not found")
    return cur


def strip_doc(body):
    if body and isinstance(body[0], ast.Expr) and isinstance(body[0].value, ast.Constant) and isinstance(body[0].value.value, str):
        return body[1:]
    return body


# ---------------------------------------------------------------------------------------
# generic helper: symbolic run of the little chunk generators
# ---------------------------------------------------------------------------------------
def run_chunk_generator(fn: ast.FunctionDef, chunks: int, tail: int):
    """Execute a generator of the shape used by Base64Engine._{en,de}code_bytes_* with
    concrete `chunks`/`tail` and symbolic input values.  Returns (n_inputs, [yield exprs])
    where inputs are named x1..xn.  Strict: unknown statement shapes raise."""
    conc = {"chunks": chunks, "tail": tail}
    sym: dict[str, str] = {}
    n_in = 0
    out: list[str] = []

    def ceval(n):
        if isinstance(n, ast.Constant) and isinstance(n.value, int):
            return n.value
        if isinstance(n, ast.Name) and n.id in conc:
            return conc[n.id]
        if isinstance(n, ast.Compare) and len(n.ops) == 1:
            l, r = ceval(n.left), ceval(n.comparators[0])
            op = type(n.ops[0])
            return {ast.Lt: l < r, ast.Eq: l == r, ast.NotEq: l != r, ast.Gt: l > r, ast.LtE: l <= r, ast.GtE: l >= r}[op]
        raise Untranslatable(f"non-concrete control expression {ast.unparse(n)}")

    def is_next_value(v):
        return isinstance(v, ast.Call) and isinstance(v.func, ast.Name) and v.func.id == "next_value" and not v.args

    def run(stmts):
        nonlocal n_in
        for s in strip_doc(stmts):
            if isinstance(s, ast.Assign) and len(s.targets) == 1 and isinstance(s.targets[0], ast.Name):
                name = s.targets[0].id
                if is_next_value(s.value):
                    n_in += 1
                    sym[name] = f"x{n_in}"
                    conc.pop(name, None)
                else:
                    conc[name] = ceval(s.value)
            elif isinstance(s, ast.AugAssign) and isinstance(s.target, ast.Name) and isinstance(s.op, ast.Add):
                conc[s.target.id] = conc[s.target.id] + ceval(s.value)
            elif isinstance(s, ast.Expr) and isinstance(s.value, ast.Yield):
                for nm in ast.walk(s.value.value):
                    if isinstance(nm, ast.Name) and nm.id in conc:
                        raise Untranslatable("yield depends on control variable")
                out.append(expr(s.value.value, "nat", sym))
            elif isinstance(s, ast.While):
                guard = 0
                while ceval(s.test):
                    run(s.body)
                    guard += 1
                    if guard > 8:
                        raise Untranslatable("loop does not terminate symbolically")
            elif isinstance(s, ast.If):
                t = s.test
                c = conc[t.id] if isinstance(t, ast.Name) else ceval(t)
                run(s.body if c else s.orelse)
            elif isinstance(s, ast.Assert):
                if not ceval(s.test):
                    raise Untranslatable("assert fails on this path")
            else:
                raise Untranslatable(f"statement {type(s).__name__} in chunk generator")

    run(fn.body)
    return n_in, out


def lean_fun(name: str, n_in: int, exprs: list[str]) -> str:
    args = " ".join(f"x{i}" for i in range(1, n_in + 1))
    sig = f"({args} : Nat) " if n_in else ""
    return f"def {name} {sig}: List Nat :=\n  [" + ",\n   ".join(exprs) + "]\n"


def chunk_family(tree, qual: str, prefix: str, kind: str) -> str:
    """emit chunk/tail functions for one generator."""
    fn = find_def(tree, qual)
    res = []
    if kind == "enc":
        specs = [("Chunk", 1, 0, 3, 4), ("Tail1", 0, 1, 1, 2), ("Tail2", 0, 2, 2, 3)]
    else:
        specs = [("Chunk", 1, 0, 4, 3), ("Tail2", 0, 2, 2, 1), ("Tail3", 0, 3, 3, 2)]
    for nm, ch, tl, want_in, want_out in specs:
        n_in, ys = run_chunk_generator(fn, ch, tl)
        if n_in != want_in or len(ys) != want_out:
            raise Untranslatable(f"{qual}: path {nm} consumes {n_in} / yields {len(ys)}, expected {want_in}/{want_out}")
        res.append(lean_fun(prefix + nm, n_in, ys))
    # two chunks must be twice one chunk (body independent of idx)
    n2, y2 = run_chunk_generator(fn, 2, 0)
    n1, y1 = run_chunk_generator(fn, 1, 0)
    ren = [e for e in y1]
    for i in range(n1, 0, -1):
        ren = [e.replace(f"x{i}", f"x{i + n1}") for e in ren]
    if n2 != 2 * n1 or y2 != y1 + ren:
        raise Untranslatable(f"{qual}: loop body depends on iteration")
    return "\n".join(res)


def ords(s) -> list[int]:
    if isinstance(s, str):
        return [ord(c) for c in s]
    return list(s)


HEADER = "-- GENERATED by tools/extract.py from {src}; do not edit.\n"


