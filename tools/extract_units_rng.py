"""unit Rng: the arithmetic of getrandbytes / getrandstr (passlib/utils/__init__.py)."""
import ast

from extract_core import HEADER, Untranslatable, expr, find_def, src_ast, strip_doc, unit


def helper_loop(fn: ast.FunctionDef, source_call: str):
    """match
         def helper():
             value = rng.<source_call>(ARGS)
             i = 0
             while i < count:
                 yield E
                 value OP= F
                 i += 1
    returns (ARGS nodes, E node, update BinOp node)"""
    helper = [n for n in fn.body if isinstance(n, ast.FunctionDef) and n.name == "helper"]
    if len(helper) != 1:
        raise Untranslatable("no helper()")
    body = strip_doc(helper[0].body)
    if len(body) != 3:
        raise Untranslatable("helper body shape")
    a0, a1, loop = body
    if not (isinstance(a0, ast.Assign) and ast.unparse(a0.targets[0]) == "value" and isinstance(a0.value, ast.Call)
            and ast.unparse(a0.value.func) == f"rng.{source_call}"):
        raise Untranslatable("random source call")
    if not (isinstance(a1, ast.Assign) and ast.unparse(a1) == "i = 0"):
        raise Untranslatable("counter init")
    if not (isinstance(loop, ast.While) and ast.unparse(loop.test) == "i < count" and len(loop.body) == 3):
        raise Untranslatable("loop shape")
    y, upd, inc = loop.body
    if not (isinstance(y, ast.Expr) and isinstance(y.value, ast.Yield)):
        raise Untranslatable("yield")
    if not (isinstance(upd, ast.AugAssign) and ast.unparse(upd.target) == "value"):
        raise Untranslatable("update")
    if ast.unparse(inc) != "i += 1":
        raise Untranslatable("increment")
    return a0.value.args, y.value.value, ast.BinOp(left=ast.Name(id="value"), op=upd.op, right=upd.value)


@unit("Rng")
def unit_rng():
    tree = src_ast("passlib/utils/__init__.py")
    out = [HEADER.format(src="passlib/utils/__init__.py (getrandbytes, getrandstr)"), "namespace Gen.Rng\n"]
    # getrandbytes
    fn = find_def(tree, "getrandbytes")
    args, y, upd = helper_loop(fn, "getrandbits")
    if len(args) != 1:
        raise Untranslatable("getrandbits args")
    out.append(f"/-- bits requested from the source for `count` bytes -/\ndef grbBits (count : Nat) : Nat := {expr(args[0], 'nat', {'count': 'count'})}\n")
    out.append(f"def grbYield (value : Nat) : Nat := {expr(y, 'nat', {'value': 'value'})}\n")
    out.append(f"def grbNext (value : Nat) : Nat := {expr(upd, 'nat', {'value': 'value'})}\n")
    early = [s for s in fn.body if isinstance(s, ast.If)]
    if not (early and ast.unparse(early[0].test) == "not count"):
        raise Untranslatable("getrandbytes: empty-count shortcut")
    # getrandstr
    fn = find_def(tree, "getrandstr")
    args, y, upd = helper_loop(fn, "randrange")
    if len(args) != 2 or ast.unparse(args[0]) != "0":
        raise Untranslatable("randrange args")
    env = {"letters": "letters", "count": "count", "value": "value"}
    out.append(f"/-- exclusive upper bound of the source value for `count` symbols out of `letters` -/\ndef grsRange (letters count : Nat) : Nat := {expr(args[1], 'nat', env)}\n")
    if not (isinstance(y, ast.Subscript) and ast.unparse(y.value) == "charset"):
        raise Untranslatable("getrandstr yield is not charset[...]")
    out.append(f"def grsIndex (value letters : Nat) : Nat := {expr(y.slice, 'nat', env)}\n")
    out.append(f"def grsNext (value letters : Nat) : Nat := {expr(upd, 'nat', env)}\n")
    # guards, in order: count < 0 -> ValueError ; letters == 0 -> ValueError ; letters == 1 -> charset * count
    guards = [ast.unparse(s.test) for s in fn.body if isinstance(s, ast.If)]
    if guards[:3] != ["count < 0", "letters == 0", "letters == 1"]:
        raise Untranslatable(f"getrandstr guards {guards}")
    out.append("end Gen.Rng\n")
    return "\n".join(out)
