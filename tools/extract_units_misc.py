"""unit Disabled: constants of unix_disabled / django_disabled (passlib/handlers/misc.py, django.py)."""
import ast

from extract_core import HEADER, Untranslatable, find_def, lean_nat_list, lean_str, ords, src_ast, strip_doc, unit


@unit("Disabled")
def unit_disabled():
    import passlib.handlers.misc as pm
    from passlib.hash import django_disabled, unix_disabled

    tree = src_ast("passlib/handlers/misc.py")
    out = [HEADER.format(src="passlib/handlers/misc.py, passlib/handlers/django.py"), "namespace Gen.Disabled\n"]
    out.append(f"def MARKER_CHARS : List Nat := {lean_nat_list(ords(pm._MARKER_CHARS))}\n")
    out.append(f"def MARKER_BYTES : List Nat := {lean_nat_list(ords(pm._MARKER_BYTES))}\n")
    out.append("def disablePrefixes : List (List Nat) := [" + ", ".join(lean_nat_list(ords(p)) for p in unix_disabled._disable_prefixes) + "]\n")
    out.append(f"def defaultMarker : List Nat := {lean_nat_list(ords(unix_disabled.default_marker))}\n")
    out.append(f"def djangoPrefix : List Nat := {lean_nat_list(ords(django_disabled._hash_prefix))}\n")
    out.append(f"def djangoSuffixLength : Nat := {int(django_disabled.suffix_length)}\n")
    # statement shapes the hand model relies on (strict)
    ident = find_def(tree, "unix_disabled.identify")
    ret = [s for s in strip_doc(ident.body) if isinstance(s, ast.Return)]
    if len(ret) != 1 or ast.unparse(ret[0].value) != "not hash or hash[0] in start":
        raise Untranslatable("unix_disabled.identify return shape: " + ast.unparse(ret[0].value) if ret else "none")
    en = find_def(tree, "unix_disabled.enable")
    src = ast.unparse(en)
    for needle in ("for prefix in cls._disable_prefixes:", "if hash.startswith(prefix):", "orig = hash[len(prefix):]", "if orig:", "return orig",
                   "raise ValueError('cannot restore original hash')", "raise uh.exc.InvalidHashError(cls)"):
        if needle not in src:
            raise Untranslatable(f"unix_disabled.enable lost statement: {needle}")
    dis = ast.unparse(find_def(tree, "unix_disabled.disable"))
    for needle in ("out = cls.hash('')", "if hash is not None:", "if cls.identify(hash):", "hash = cls.enable(hash)", "if hash:", "out += hash", "return out"):
        if needle not in dis:
            raise Untranslatable(f"unix_disabled.disable lost statement: {needle}")
    ver = ast.unparse(find_def(tree, "unix_disabled.verify"))
    for needle in ("uh.validate_secret(secret)", "if not cls.identify(hash):", "raise uh.exc.InvalidHashError(cls)", "return False"):
        if needle not in ver:
            raise Untranslatable(f"unix_disabled.verify lost statement: {needle}")
    out.append('def shapesChecked : String := "identify/enable/disable/verify statement shapes matched by the translator"\n')
    out.append("end Gen.Disabled\n")
    return "\n".join(out)


@unit("UsingBool")
def unit_using_bool():
    """as_bool(): the three word sets (reflected) and the order in which the function consults them (from the source)."""
    import ast as _ast

    import passlib.utils as pu

    from extract_core import Untranslatable, find_def, src_ast, strip_doc

    fn = find_def(src_ast("passlib/utils/__init__.py"), "as_bool")
    body = strip_doc(fn.body)
    first_if = [s for s in body if isinstance(s, _ast.If)]
    if not first_if or _ast.unparse(first_if[0].test) != "isinstance(value, unicode_or_bytes)":
        raise Untranslatable("as_bool: first branch is not the text branch")
    tb = first_if[0].body
    if _ast.unparse(tb[0]) != "clean = value.lower().strip()":
        raise Untranslatable(f"as_bool: normalisation is `{_ast.unparse(tb[0])}`")
    order = []
    for s in tb[1:]:
        if isinstance(s, _ast.If) and isinstance(s.test, _ast.Compare) and _ast.unparse(s.test).startswith("clean in "):
            order.append((_ast.unparse(s.test.comparators[0]), _ast.unparse(s.body[0])))
        elif isinstance(s, _ast.Raise):
            order.append(("raise", _ast.unparse(s.exc.func) if isinstance(s.exc, _ast.Call) else _ast.unparse(s.exc)))
        else:
            raise Untranslatable(f"as_bool: unexpected statement `{_ast.unparse(s)[:80]}`")
    want = [("_true_set", "return True"), ("_false_set", "return False"), ("_none_set", "return none"), ("raise", "ValueError")]
    if order != want:
        raise Untranslatable(f"as_bool: text branch is {order}")

    def words(st):
        if not all(isinstance(w, str) and w.isascii() for w in st):
            raise Untranslatable("as_bool: non-ASCII word")
        return "[" + ", ".join(lean_nat_list(ords(w)) for w in sorted(st)) + "]"

    out = [HEADER.format(src="passlib/utils/__init__.py (as_bool)"), "namespace Gen.UsingBool\n",
           f"def trueSet : List (List Nat) := {words(pu._true_set)}\n",
           f"def falseSet : List (List Nat) := {words(pu._false_set)}\n",
           f"def noneSet : List (List Nat) := {words(pu._none_set)}\n",
           'def textBranch : String := "clean = value.lower().strip(); true set, false set, none set, else ValueError"\n',
           "end Gen.UsingBool\n"]
    return "\n".join(out)


@unit("Decisions")
def unit_decisions():
    """the clamp / refuse helpers of passlib/utils/handlers.py translated statement by statement (tools/pystmt2lean.py):
    norm_integer, HasSalt._clip_to_valid_salt_size, HasRounds._clip_to_desired_rounds"""
    import pystmt2lean as ps

    from extract_core import find_def, src_ast

    tree = src_ast("passlib/utils/handlers.py")
    out = [HEADER.format(src="passlib/utils/handlers.py (norm_integer, HasSalt._clip_to_valid_salt_size, HasRounds._clip_to_desired_rounds)"),
           "import PasslibVerif.Py.Basic\n", "namespace Gen.Decisions\nopen Py\n"]
    guards = []
    src, g = ps.function(find_def(tree, "norm_integer"), "normInteger", [("value", "int", "value"), ("min", "int", "lo"), ("max", "opt", "hi"), ("relaxed", "bool", "relaxed")])
    out.append("/-- `norm_integer(handler, value, min, max, relaxed=…)` -/\n" + src)
    guards += g
    src, g = ps.function(find_def(tree, "HasSalt._clip_to_valid_salt_size"), "clipSaltSize",
                         [("min_salt_size", "int", "minSaltSize"), ("max_salt_size", "opt", "maxSaltSize"), ("relaxed", "bool", "relaxed"), ("salt_size", "int", "saltSize")])
    out.append("/-- `HasSalt._clip_to_valid_salt_size(salt_size, relaxed=…)` with the class attributes as parameters -/\n" + src)
    guards += g
    src, g = ps.function(find_def(tree, "HasRounds._clip_to_desired_rounds"), "clipDesiredRounds",
                         [("min_desired_rounds", "opt", "minDesired"), ("max_desired_rounds", "opt", "maxDesired"), ("rounds", "int", "rounds")])
    out.append("/-- `HasRounds._clip_to_desired_rounds(rounds)` with the class attributes as parameters -/\n" + src)
    guards += g
    src, g = ps.function(find_def(tree, "HasRounds._calc_needs_update"), "roundsNeedsUpdate",
                         [("min_desired_rounds", "opt", "minDesired"), ("max_desired_rounds", "opt", "maxDesired"), ("rounds", "int", "rounds"), ("super_result", "bool", "superResult")],
                         result="bool")
    out.append("/-- `HasRounds._calc_needs_update()`: class attributes, the parsed cost and the answer of the next class in the MRO as parameters -/\n" + src)
    guards += g
    for path, qual, lean_name, attr in (("passlib/utils/handlers.py", "ParallelismMixin._calc_needs_update", "parallelismNeedsUpdate", "parallelism"),
                                        ("passlib/handlers/scrypt.py", "scrypt._calc_needs_update", "scryptNeedsUpdate", "block_size"),
                                        ("passlib/handlers/bcrypt.py", "bcrypt_sha256._calc_needs_update", "bcryptSha256NeedsUpdate", "version")):
        t2 = tree if path.endswith("utils/handlers.py") else src_ast(path)
        src, g = ps.function(find_def(t2, qual), lean_name, [(attr, "int", "own"), ("cls_" + attr, "int", "configured"), ("super_result", "bool", "superResult")], result="bool")
        out.append(f"/-- `{qual}()`: the hash's own `{attr}`, the class's configured one and the answer of the next class in the MRO as parameters -/\n" + src)
        guards += g
    out.append("/-- type guards the translator saw and left to the typed signature -/\ndef typeGuards : List String := [" + ", ".join(lean_str(x) for x in guards) + "]\n")
    out.append("end Gen.Decisions\n")
    return "\n".join(out)
