#!/venv/bin/python
"""dev helper: every property's failing-input search must find NOTHING on the unchanged tree."""
import importlib, os, sys, time, logging
HERE = os.path.dirname(os.path.abspath(__file__))
sys.path.insert(0, HERE); sys.path.insert(0, os.environ.get("PASSLIB_REPO", "/repo"))
logging.disable(logging.WARNING)
from runner import Ctx
SEEDS = [int(x) for x in os.environ.get("SELFTEST_SEEDS", "0").split(",")]
props = sys.argv[1:] or sorted(f[:-3] for f in os.listdir(os.path.join(HERE, "corr")) if f.startswith("C") and f.endswith(".py") and len(f) == 6)
bad = 0
for p in props:
    m = importlib.import_module(f"corr.{p}")
    for sd in SEEDS:
        t = time.time()
        r = m.search(Ctx(p, "quick", sd), [], [])
        print(p, f"seed {sd} search ->", "None" if r is None else r, f"({time.time()-t:.1f}s)")
        bad += r is not None
sys.exit(1 if bad else 0)
