#!/venv/bin/python
"""maintenance tool (not part of a check): derive the PRE-FIX protocols with the same translator from the texts before the
three `fix:` commits and write them to lean/PasslibVerif/Model/ThreadsOld.lean (kept as data; Props/C19 proves them unsafe).

    /venv/bin/python tools/threads_old.py            # rewrite the Lean file
    old_programs()                                   # used by tools/corr/C19.py: the stored data is still what the translator
                                                     # derives from the old text (when the repository history is available)
"""
from __future__ import annotations

import os
import subprocess
import sys
import tempfile

HERE = os.path.dirname(os.path.abspath(__file__))
sys.path.insert(0, HERE)
REPO = os.environ.get("PASSLIB_REPO", "/repo")
sys.path.insert(0, REPO)

OLD = {  # commit that repaired it, file, protocols
    "7db893c": ("passlib/context.py", ["ctx", "ctxOnload"]),
    "5aea019": ("passlib/utils/binary.py", ["eng"]),
    "9b8d3f5": ("passlib/utils/handlers.py", ["stub", "bcStub"]),
}


def old_tree(tmp):
    for commit, (path, _protos) in OLD.items():
        p = subprocess.run(["git", "-C", REPO, "show", f"{commit}^:{path}"], capture_output=True, text=True)
        if p.returncode != 0:
            return None
        os.makedirs(os.path.dirname(os.path.join(tmp, path)), exist_ok=True)
        with open(os.path.join(tmp, path), "w", encoding="utf-8") as fh:
            fh.write(p.stdout)
    return tmp


def old_programs(facts=None):
    """{name+'Old': program} or None when the history is not available"""
    import extract_units_threads as T

    with tempfile.TemporaryDirectory() as tmp:
        if old_tree(tmp) is None:
            return None
        res = {}
        for _commit, (_path, protos) in OLD.items():
            got = T.compile_all([tmp, REPO], facts=facts, only=protos)
            for k, v in got.items():
                res[k + "Old"] = v
        return res, T.source_lines([tmp, REPO])


WITNESSES = [  # (name in Lean, program, single-thread value, what the witness must show)
    ("ctxOldWitness", "ctxOld", 4, "AttributeError"), ("ctxOldWitness2", "ctxOld", 4, "TypeError"),
    ("ctxOnloadOldWitness", "ctxOnloadOld", 5, "ok"), ("ctxOnloadOldWitness2", "ctxOnloadOld", 5, "AttributeError"),
    ("engOldWitness", "engOld", 2, "TypeError"), ("engOldWitness2", "engOld", 2, "AttributeError"),
    ("stubOldWitness", "stubOld", 2, "AssertionError"), ("bcStubOldWitness", "bcStubOld", 2, "AssertionError"),
]
LEAN = os.path.join(HERE, "..", "lean")


def rle(sched):
    import itertools

    runs = [(k, len(list(g))) for k, g in itertools.groupby(sched)]
    return " ++ ".join(f"List.replicate {n} {k}" if n > 2 else "[" + ", ".join([str(k)] * n) + "]" for k, n in runs)


def write(progs, src, witnesses):
    import extract_units_threads as T

    out = ["-- written by tools/threads_old.py from the texts before the fix commits 7db893c, 5aea019, 9b8d3f5 of /repo; kept as data.",
           "import PasslibVerif.Model.Threads\n", "/-", "The first-use protocols as they were BEFORE the repairs, derived by the same translator (tools/extract_units_threads.py) from",
           "`git show 7db893c^:passlib/context.py`, `5aea019^:passlib/utils/binary.py`, `9b8d3f5^:passlib/utils/handlers.py`, and, for each,",
           "witness schedules (two threads, micro-steps) found by `modeldrv threads witness` after which a thread has failed.",
           "Props/C19 proves the failures; tools/corr/C19.py re-derives the programs on every run and compares.", "-/",
           "namespace Model.ThreadsOld", "open Model.Threads\n"]
    for name, p in progs.items():
        out.append(f"/- {name}: shared variables " + "; ".join(f"{i} = {nm} {dom}" for i, nm, dom in p["vars"]) + f"\n{T.listing(p, src)}\n-/")
        out.append(T.lean_prog(name, p))
        out.append(T.lean_tags(name, p))
        out.append(f"def {name}Want : Outcome := .ok {p['want']}\n")
    out.append("def all : List (String × Prog × Outcome) :=\n  [" + ", ".join(f'("{n}", {n}, {n}Want)' for n in progs) + "]\n")
    out.append("def allTags : List (String × List Nat) :=\n  [" + ", ".join(f'("{n}", {n}Tags)' for n in progs) + "]\n")
    for nm, _prog, _want, sel in WITNESSES:
        out.append(f"/-- found by breadth first search: the shortest schedule after which a thread shows `{sel}` -/")
        out.append(f"def {nm} : List Tid := {witnesses.get(nm, '[]')}\n")
    out.append("end Model.ThreadsOld")
    path = os.path.join(LEAN, "PasslibVerif", "Model", "ThreadsOld.lean")
    with open(path, "w", encoding="utf-8") as fh:
        fh.write("\n".join(out) + "\n")
    return path


def main():
    progs, src = old_programs()
    write(progs, src, {})
    subprocess.run(["lake", "build", "modeldrv"], cwd=LEAN, check=True, capture_output=True)
    inp = "".join(f"threads witness {p} 2 {w} {sel}\n" for _, p, w, sel in WITNESSES)
    ans = subprocess.run([os.path.join(LEAN, ".lake", "build", "bin", "modeldrv")], input=inp.encode(), capture_output=True, check=True).stdout.decode().split("\n")
    wit = {}
    for (nm, _p, _w, _sel), line in zip(WITNESSES, ans):
        if line.strip() in ("", "none", "bad-op"):
            raise SystemExit(f"no witness for {nm}: {line!r}")
        wit[nm] = rle([int(x) for x in line.split(",")])
    path = write(progs, src, wit)
    print("wrote", os.path.normpath(path), {k: len(v["code"]) for k, v in progs.items()}, wit)


if __name__ == "__main__":
    main()
