"""unit Saslprep: `passlib.utils.saslprep` (passlib/utils/__init__.py) and the `stringprep` tables it consults.

Two sources:
  * the running interpreter's `stringprep` module (external code, a parameter of the model): every `in_table_*` predicate the function
    uses is evaluated on all 0x110000 code points and written as a sorted list of maximal inclusive ranges `List (Nat × Nat)`;
  * the SOURCE of `saslprep` via `ast`, matched statement by statement (strict: any other shape is an extraction failure):
    mapping stage (which table is replaced by what, which table is dropped), the normal form, the empty shortcut, the bidi branch
    structure (which table decides, which indices are looked at, which table each branch forbids, the malformed-sequence raise),
    the ordered `forbidden_` list, the two `assert`s of the loop and the kind of every `raise`.
"""
import ast

from extract_core import HEADER, Untranslatable, find_def, lean_str, src_ast, strip_doc, unit

SRC = "passlib/utils/__init__.py"
TABLES = ["a1", "b1", "c12", "c21_c22", "c3", "c4", "c5", "c6", "c7", "c8", "c9", "d1", "d2"]
PREFIX = "stringprep.in_table_"


def ranges_of(fn):
    rs, start = [], None
    for cp in range(0x110000):
        v = bool(fn(chr(cp)))
        if v and start is None:
            start = cp
        elif not v and start is not None:
            rs.append((start, cp - 1))
            start = None
    if start is not None:
        rs.append((start, 0x10FFFF))
    return rs


def lean_ranges(name, rs, doc):
    rows = [rs[i: i + 32] for i in range(0, len(rs), 32)] or [[]]
    body = ",\n".join("  [" + ", ".join("(0x%X, 0x%X)" % r for r in row) + "]" for row in rows)
    return (f"/-- {doc} ({len(rs)} ranges, {sum(b - a + 1 for a, b in rs)} code points) -/\n"
            f"def {name}Rows : List (List (Nat × Nat)) := [\n{body}\n]\n"
            f"def {name} : List (Nat × Nat) := {name}Rows.flatten\n")


def table_name(node, aliases=None) -> str:
    """`stringprep.in_table_X` (or an alias bound to one) -> 'in_table_X'"""
    txt = ast.unparse(node)
    if aliases and txt in aliases:
        return aliases[txt]
    if not (isinstance(node, ast.Attribute) and txt.startswith(PREFIX)):
        raise Untranslatable(f"saslprep: expected a stringprep table, got {txt}")
    if txt[len(PREFIX):] not in TABLES:
        raise Untranslatable(f"saslprep: table {txt} is not one of the reflected tables")
    return txt[len("stringprep."):]


def module_str_const(tree, name) -> str:
    vals = [s.value for s in tree.body if isinstance(s, ast.Assign) and len(s.targets) == 1 and ast.unparse(s.targets[0]) == name]
    if len(vals) != 1 or not (isinstance(vals[0], ast.Constant) and isinstance(vals[0].value, str)):
        raise Untranslatable(f"saslprep: module constant {name} is not a single string literal")
    return vals[0].value


def raise_kind(stmt) -> str:
    if not (isinstance(stmt, ast.Raise) and isinstance(stmt.exc, ast.Call) and isinstance(stmt.exc.func, ast.Name)):
        raise Untranslatable(f"saslprep: raise shape {ast.unparse(stmt)}")
    return stmt.exc.func.id


def index_of(node, seq: str) -> int:
    """`seq[K]` with K an int literal (possibly negative) -> K"""
    if not (isinstance(node, ast.Subscript) and ast.unparse(node.value) == seq):
        raise Untranslatable(f"saslprep: expected {seq}[..], got {ast.unparse(node)}")
    try:
        k = ast.literal_eval(node.slice)
    except Exception:  # noqa: BLE001
        raise Untranslatable(f"saslprep: index {ast.unparse(node.slice)}") from None
    if not isinstance(k, int) or isinstance(k, bool):
        raise Untranslatable(f"saslprep: index {k!r}")
    return k


def call1(node, fn_txt=None):
    """`f(x)` -> (f node, x node)"""
    if not (isinstance(node, ast.Call) and len(node.args) == 1 and not node.keywords):
        raise Untranslatable(f"saslprep: expected a one-argument call, got {ast.unparse(node)}")
    if fn_txt is not None and ast.unparse(node.func) != fn_txt:
        raise Untranslatable(f"saslprep: expected {fn_txt}(..), got {ast.unparse(node)}")
    return node.func, node.args[0]


def neg(node):
    if not (isinstance(node, ast.UnaryOp) and isinstance(node.op, ast.Not)):
        raise Untranslatable(f"saslprep: expected `not ..`, got {ast.unparse(node)}")
    return node.operand


def lean_int(k: int) -> str:
    return f"({k} : Int)"


def lean_strs(xs) -> str:
    return "[" + ", ".join(lean_str(x) for x in xs) + "]"


def read_source():
    tree = src_ast(SRC)
    fn = find_def(tree, "saslprep")
    if [a.arg for a in fn.args.args][:1] != ["source"]:
        raise Untranslatable("saslprep: first parameter is not `source`")
    body = strip_doc(fn.body)
    if len(body) != 9:
        raise Untranslatable(f"saslprep: {len(body)} top-level statements, expected 9")
    s_type, s_map, s_norm, s_empty, s_ral, s_bidi, s_forb, s_loop, s_ret = body
    d = {}

    # 0. if not isinstance(source, str): raise TypeError(..)
    if not (isinstance(s_type, ast.If) and not s_type.orelse and ast.unparse(s_type.test) == "not isinstance(source, str)"
            and len(s_type.body) == 1):
        raise Untranslatable("saslprep: type guard")
    d["typeGuardRaises"] = raise_kind(s_type.body[0])

    # 1. data = "".join(REPL if T1(c) else c for c in source if not T2(c))
    if not (isinstance(s_map, ast.Assign) and ast.unparse(s_map.targets[0]) == "data" and len(s_map.targets) == 1
            and isinstance(s_map.value, ast.Call) and isinstance(s_map.value.func, ast.Attribute) and s_map.value.func.attr == "join"
            and len(s_map.value.args) == 1 and isinstance(s_map.value.args[0], ast.GeneratorExp)):
        raise Untranslatable("saslprep: mapping stage is not data = SEP.join(<generator>)")
    sep = s_map.value.func.value
    sep = module_str_const(tree, sep.id) if isinstance(sep, ast.Name) else (sep.value if isinstance(sep, ast.Constant) else None)
    if sep != "":
        raise Untranslatable("saslprep: mapping stage joins with a non-empty separator")
    g = s_map.value.args[0]
    if not (len(g.generators) == 1 and ast.unparse(g.generators[0].target) == "c" and ast.unparse(g.generators[0].iter) == "source"
            and len(g.generators[0].ifs) == 1 and not g.generators[0].is_async):
        raise Untranslatable("saslprep: mapping generator shape")
    f_drop, a_drop = call1(neg(g.generators[0].ifs[0]))
    if ast.unparse(a_drop) != "c":
        raise Untranslatable("saslprep: drop test argument")
    d["mapDropTable"] = table_name(f_drop)
    e = g.elt
    if not (isinstance(e, ast.IfExp) and ast.unparse(e.orelse) == "c"):
        raise Untranslatable("saslprep: mapping element is not `R if T(c) else c`")
    f_sp, a_sp = call1(e.test)
    if ast.unparse(a_sp) != "c":
        raise Untranslatable("saslprep: replace test argument")
    d["mapSpaceTable"] = table_name(f_sp)
    if isinstance(e.body, ast.Name):
        repl = module_str_const(tree, e.body.id)
    elif isinstance(e.body, ast.Constant) and isinstance(e.body.value, str):
        repl = e.body.value
    else:
        raise Untranslatable("saslprep: replacement is not a string constant")
    d["mapReplacement"] = [ord(ch) for ch in repl]

    # 2. data = unicodedata.normalize(FORM, data)
    if not (isinstance(s_norm, ast.Assign) and ast.unparse(s_norm.targets[0]) == "data" and isinstance(s_norm.value, ast.Call)
            and ast.unparse(s_norm.value.func) == "unicodedata.normalize" and len(s_norm.value.args) == 2
            and isinstance(s_norm.value.args[0], ast.Constant) and ast.unparse(s_norm.value.args[1]) == "data"):
        raise Untranslatable("saslprep: normalisation statement")
    d["normalForm"] = s_norm.value.args[0].value

    # 3. if not data: return <empty>
    if not (isinstance(s_empty, ast.If) and not s_empty.orelse and ast.unparse(s_empty.test) == "not data" and len(s_empty.body) == 1
            and isinstance(s_empty.body[0], ast.Return)):
        raise Untranslatable("saslprep: empty shortcut")
    rv = s_empty.body[0].value
    if isinstance(rv, ast.Name):
        empty = module_str_const(tree, rv.id)
    elif isinstance(rv, ast.Constant) and isinstance(rv.value, str):
        empty = rv.value
    else:
        raise Untranslatable("saslprep: empty shortcut value")
    d["emptyResult"] = [ord(ch) for ch in empty]

    # 4. is_ral_char = stringprep.in_table_X
    if not (isinstance(s_ral, ast.Assign) and len(s_ral.targets) == 1 and isinstance(s_ral.targets[0], ast.Name)):
        raise Untranslatable("saslprep: is_ral_char assignment")
    ral_var = s_ral.targets[0].id
    d["ralTable"] = table_name(s_ral.value)
    aliases = {ral_var: d["ralTable"]}

    # 5. if RAL(data[i]): [if not RAL(data[j]): raise E] ; V = T  else: V = T'
    if not (isinstance(s_bidi, ast.If) and len(s_bidi.orelse) == 1 and len(s_bidi.body) == 2):
        raise Untranslatable("saslprep: bidi branch shape")
    _f, a = call1(s_bidi.test, ral_var)
    d["bidiFirstIdx"] = index_of(a, "data")
    inner, asg = s_bidi.body
    if not (isinstance(inner, ast.If) and not inner.orelse and len(inner.body) == 1):
        raise Untranslatable("saslprep: malformed-bidi test shape")
    _f, a = call1(neg(inner.test), ral_var)
    d["bidiLastIdx"] = index_of(a, "data")
    d["bidiMalformedRaises"] = raise_kind(inner.body[0])
    if not (isinstance(asg, ast.Assign) and len(asg.targets) == 1 and isinstance(asg.targets[0], ast.Name)):
        raise Untranslatable("saslprep: RandAL branch assignment")
    bidi_var = asg.targets[0].id
    d["ralBranchForbidden"] = table_name(asg.value, aliases)
    els = s_bidi.orelse[0]
    if not (isinstance(els, ast.Assign) and len(els.targets) == 1 and ast.unparse(els.targets[0]) == bidi_var):
        raise Untranslatable("saslprep: non-RandAL branch assignment")
    d["nonRalBranchForbidden"] = table_name(els.value, aliases)
    d["nonRalBranchForbidsRal"] = ast.unparse(els.value) == ral_var

    # 6. forbidden_ = [(T, msg), …, (V, msg)]
    if not (isinstance(s_forb, ast.Assign) and len(s_forb.targets) == 1 and isinstance(s_forb.targets[0], ast.Name)
            and isinstance(s_forb.value, ast.List)):
        raise Untranslatable("saslprep: forbidden_ list")
    forb_var = s_forb.targets[0].id
    forb = []
    for el in s_forb.value.elts:
        if not (isinstance(el, ast.Tuple) and len(el.elts) == 2 and isinstance(el.elts[1], ast.Constant) and isinstance(el.elts[1].value, str)):
            raise Untranslatable(f"saslprep: forbidden_ entry {ast.unparse(el)}")
        forb.append(bidi_var if ast.unparse(el.elts[0]) == bidi_var else table_name(el.elts[0], aliases))
    d["bidiVar"] = bidi_var
    d["forbidden"] = forb

    # 7. for c in data: assert not T(c) … ; for func, _ in forbidden_: if func(c): raise E
    if not (isinstance(s_loop, ast.For) and not s_loop.orelse and ast.unparse(s_loop.target) == "c" and ast.unparse(s_loop.iter) == "data"
            and len(s_loop.body) >= 1):
        raise Untranslatable("saslprep: check loop")
    *asserts, inner = s_loop.body
    d["assertTables"] = []
    for a_ in asserts:
        if not isinstance(a_, ast.Assert):
            raise Untranslatable(f"saslprep: loop statement {type(a_).__name__} before the inner loop")
        f, x = call1(neg(a_.test))
        if ast.unparse(x) != "c":
            raise Untranslatable("saslprep: assert argument")
        d["assertTables"].append(table_name(f, aliases))
    if not (isinstance(inner, ast.For) and not inner.orelse and isinstance(inner.target, ast.Tuple) and len(inner.target.elts) == 2
            and ast.unparse(inner.iter) == forb_var and len(inner.body) == 1):
        raise Untranslatable("saslprep: inner loop")
    fvar = ast.unparse(inner.target.elts[0])
    chk = inner.body[0]
    if not (isinstance(chk, ast.If) and not chk.orelse and len(chk.body) == 1):
        raise Untranslatable("saslprep: inner test")
    _f, x = call1(chk.test, fvar)
    if ast.unparse(x) != "c":
        raise Untranslatable("saslprep: inner test argument")
    d["forbiddenRaises"] = raise_kind(chk.body[0])

    # 8. return data
    if ast.unparse(s_ret) != "return data":
        raise Untranslatable("saslprep: final return")
    return d


@unit("Saslprep")
def unit_saslprep():
    import stringprep
    import sys
    import unicodedata

    d = read_source()
    out = [HEADER.format(src=f"{SRC} (saslprep) and the interpreter's stringprep module"),
           "/-\nTables: `stringprep.in_table_*` of the running interpreter evaluated on every code point 0..0x10FFFF, as sorted lists of\n"
           "maximal inclusive ranges (rows of at most 32 pairs, flattened).  Structure: read from the source of `saslprep` by `ast`.\n"
           f"Interpreter: Python {sys.version_info.major}.{sys.version_info.minor}, unicodedata {unicodedata.unidata_version} "
           "(stringprep itself is pinned to the Unicode 3.2 database).\n-/",
           "namespace Gen.Saslprep\n"]
    docs = {"a1": "A.1 unassigned code points in Unicode 3.2", "b1": "B.1 commonly mapped to nothing", "c12": "C.1.2 non-ASCII space characters",
            "c21_c22": "C.2.1 ∪ C.2.2 control characters", "c3": "C.3 private use", "c4": "C.4 non-character code points", "c5": "C.5 surrogate codes",
            "c6": "C.6 inappropriate for plain text", "c7": "C.7 inappropriate for canonical representation",
            "c8": "C.8 change display properties or are deprecated", "c9": "C.9 tagging characters",
            "d1": "D.1 characters with bidirectional property R or AL", "d2": "D.2 characters with bidirectional property L"}
    for t in TABLES:
        out.append(lean_ranges(t, ranges_of(getattr(stringprep, "in_table_" + t)), "RFC 3454 " + docs[t] + f" — `stringprep.in_table_{t}`"))
    out.append("/-- every reflected table by its attribute name in `stringprep` -/\ndef tables : List (String × List (Nat × Nat)) := [\n"
               + ",\n".join(f"  ({lean_str('in_table_' + t)}, {t})" for t in TABLES) + "\n]\n")
    out.append("/-! ### structure of `saslprep`, from its source -/\n")
    out.append(f"/-- mapping stage: characters of this table are dropped (`for c in source if not T(c)`) -/\ndef mapDropTable : String := {lean_str(d['mapDropTable'])}")
    out.append(f"/-- mapping stage: characters of this table are replaced (`R if T(c) else c`) -/\ndef mapSpaceTable : String := {lean_str(d['mapSpaceTable'])}")
    out.append(f"/-- … by this text (code points) -/\ndef mapReplacement : List Nat := {d['mapReplacement']}")
    out.append(f"/-- `unicodedata.normalize(FORM, data)` -/\ndef normalForm : String := {lean_str(d['normalForm'])}")
    out.append(f"/-- `if not data: return …` (code points of the returned text) -/\ndef emptyResult : List Nat := {d['emptyResult']}")
    out.append(f"/-- `is_ral_char = stringprep.…` -/\ndef ralTable : String := {lean_str(d['ralTable'])}")
    out.append(f"/-- `if is_ral_char(data[i])` -/\ndef bidiFirstIdx : Int := {lean_int(d['bidiFirstIdx'])}")
    out.append(f"/-- `if not is_ral_char(data[j]): raise …` inside the RandAL branch -/\ndef bidiLastIdx : Int := {lean_int(d['bidiLastIdx'])}")
    out.append(f"def bidiMalformedRaises : String := {lean_str(d['bidiMalformedRaises'])}")
    out.append(f"/-- table forbidden in the loop when the first character is RandAL -/\ndef ralBranchForbidden : String := {lean_str(d['ralBranchForbidden'])}")
    out.append(f"/-- table forbidden in the loop otherwise (aliases resolved) -/\ndef nonRalBranchForbidden : String := {lean_str(d['nonRalBranchForbidden'])}")
    out.append(f"/-- the non-RandAL branch assigns `is_ral_char` itself -/\ndef nonRalBranchForbidsRal : Bool := {'true' if d['nonRalBranchForbidsRal'] else 'false'}")
    out.append(f"/-- name of the variable that carries the branch's choice into `forbidden_` -/\ndef bidiVar : String := {lean_str(d['bidiVar'])}")
    out.append(f"/-- `forbidden_`, in order: table names, and `bidiVar` where the branch's choice is consulted -/\ndef forbidden : List String := {lean_strs(d['forbidden'])}")
    out.append(f"def forbiddenRaises : String := {lean_str(d['forbiddenRaises'])}")
    out.append(f"/-- the `assert not T(c)` statements at the head of the loop body, in order -/\ndef assertTables : List String := {lean_strs(d['assertTables'])}")
    out.append(f"def typeGuardRaises : String := {lean_str(d['typeGuardRaises'])}")
    out.append("\nend Gen.Saslprep\n")
    return "\n".join(out)
