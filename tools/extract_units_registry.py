"""unit RegistryTables: the data of passlib/registry.py the registry model (Model/Registry.lean) is parametric in, READ from the source:
the pattern of `_name_re` (parsed into a sequence of character classes, each optionally followed by `+`), the `_forbidden_names` set, the
literal `_locations` table of the shipped hashers (name -> path, in source order), and the statement shapes the hand model follows.
(The unit `Registry` (Gen/Registry.lean) already exists: it pins the statement lists of registry.py; hence the name of this one.)"""
import ast
import re

from extract_core import HEADER, Untranslatable, find_def, lean_nat_list, ords, src_ast, strip_doc, unit


def _toplevel_assign(tree, name):
    for n in tree.body:
        if isinstance(n, ast.Assign) and len(n.targets) == 1 and isinstance(n.targets[0], ast.Name) and n.targets[0].id == name:
            return n.value
    raise Untranslatable(f"registry.py: no top-level assignment to {name}")


def parse_name_re(pat: str):
    """`^` (class [`+`])* `$`  with class = `[` (char | char-char)* `]` over ASCII letters, digits, `_`  ->  [(ranges, plus)]"""
    if not (pat.startswith("^") and pat.endswith("$")):
        raise Untranslatable(f"_name_re is not anchored with ^...$: {pat!r}")
    body = pat[1:-1]
    items = []
    i = 0
    while i < len(body):
        if body[i] != "[":
            raise Untranslatable(f"_name_re: expected a character class at {i}: {pat!r}")
        j = body.find("]", i)
        if j < 0:
            raise Untranslatable(f"_name_re: unterminated class: {pat!r}")
        cls = body[i + 1:j]
        if not cls or cls[0] == "^" or "\\" in cls:
            raise Untranslatable(f"_name_re: class shape not handled: [{cls}]")
        ranges = []
        k = 0
        while k < len(cls):
            c = cls[k]
            if not (c.isascii() and (c.isalnum() or c == "_")):
                raise Untranslatable(f"_name_re: class member not handled: {c!r}")
            if k + 2 < len(cls) and cls[k + 1] == "-":
                d = cls[k + 2]
                if not (d.isascii() and d.isalnum()) or ord(d) < ord(c):
                    raise Untranslatable(f"_name_re: range not handled: {c}-{d}")
                ranges.append((ord(c), ord(d)))
                k += 3
            else:
                ranges.append((ord(c), ord(c)))
                k += 1
        i = j + 1
        plus = i < len(body) and body[i] == "+"
        if plus:
            i += 1
        if i < len(body) and body[i] in "*?{+|(":
            raise Untranslatable(f"_name_re: quantifier not handled at {i}: {pat!r}")
        items.append((ranges, plus))
    return items


def ref_match(items, s: str) -> bool:
    """the matcher of Model/Registry.lean (matchItems + the `$` rule), in Python: used to cross-check the parse against `re` itself"""
    def go(t, its):
        if not t:
            return not its
        if not its:
            return False
        (rs, plus), rest = its[0], its[1:]
        if not any(a <= ord(t[0]) <= b for a, b in rs):
            return False
        return (go(t[1:], its) or go(t[1:], rest)) if plus else go(t[1:], rest)
    return go(s, items) or (s.endswith("\n") and go(s[:-1], items))


@unit("RegistryTables")
def unit_registry_tables():
    tree = src_ast("passlib/registry.py")
    # --- _name_re
    v = _toplevel_assign(tree, "_name_re")
    if not (isinstance(v, ast.Call) and ast.unparse(v.func) == "re.compile" and len(v.args) == 1 and not v.keywords
            and isinstance(v.args[0], ast.Constant) and isinstance(v.args[0].value, str)):
        raise Untranslatable("_name_re is not re.compile(<str literal>) without flags: " + ast.unparse(v))
    pat = v.args[0].value
    items = parse_name_re(pat)
    rx = re.compile(pat)
    alphabet = "abzAZ09_-\n .x"
    import itertools
    for n in range(0, 6):
        for tup in itertools.product(alphabet, repeat=n):
            s = "".join(tup)
            if bool(rx.match(s)) != ref_match(items, s):
                raise Untranslatable(f"_name_re: the parsed form disagrees with re on {s!r}")
    # --- _forbidden_names
    v = _toplevel_assign(tree, "_forbidden_names")
    if not (isinstance(v, ast.Call) and ast.unparse(v.func) == "frozenset" and len(v.args) == 1 and isinstance(v.args[0], (ast.List, ast.Tuple, ast.Set))
            and all(isinstance(e, ast.Constant) and isinstance(e.value, str) for e in v.args[0].elts)):
        raise Untranslatable("_forbidden_names is not frozenset([<str literals>])")
    forbidden = sorted({e.value for e in v.args[0].elts})
    # --- _locations
    v = _toplevel_assign(tree, "_locations")
    if not (isinstance(v, ast.Call) and ast.unparse(v.func) == "dict" and not v.args
            and all(k.arg and isinstance(k.value, ast.Constant) and isinstance(k.value.value, str) for k in v.keywords)):
        raise Untranslatable("_locations is not dict(<name>=<str literal>, ...)")
    locs = [(k.arg, k.value.value) for k in v.keywords]
    if len({k for k, _ in locs}) != len(locs):
        raise Untranslatable("_locations: repeated keyword")
    if not all(k.isascii() and p.isascii() for k, p in locs):
        raise Untranslatable("_locations: non-ASCII entry")
    # --- _handlers is the proxy's instance dict
    if ast.unparse(_toplevel_assign(tree, "_handlers")) != "_proxy.__dict__":
        raise Untranslatable("_handlers is no longer _proxy.__dict__")
    # --- statement shapes the hand model relies on
    def need(qual, needles):
        src = ast.unparse(find_def(tree, qual))
        pos = -1
        for nd in needles:
            p = src.find(nd, pos + 1)
            if p < 0:
                raise Untranslatable(f"{qual}: statement lost or moved: {nd}")
            pos = p

    need("_validate_handler_name", ["if not name:", "raise ValueError", "if name.lower() != name:", "raise ValueError", "if not _name_re.match(name):",
                                    "raise ValueError", "if '__' in name:", "raise ValueError", "if name in _forbidden_names:", "raise ValueError", "return True"])
    need("register_crypt_handler_path", ["_validate_handler_name(name)", "if path.startswith('.'):", "raise ValueError", "if ':' in path:", "if path.count(':') > 1:",
                                         "raise ValueError", "if path.find('.', path.index(':')) > -1:", "raise ValueError", "_locations[name] = path"])
    need("register_crypt_handler", ["if not is_crypt_handler(handler):", "raise ExpectedTypeError(handler, 'password hash handler', 'handler')", "if not handler:",
                                    "raise AssertionError", "name = handler.name", "_validate_handler_name(name)", "if _attr and _attr != name:", "raise ValueError",
                                    "other = _handlers.get(name)", "if other:", "if other is handler:", "return", "if force:", "else:", "raise KeyError", "_handlers[name] = handler"])
    need("get_crypt_handler", ["if name.startswith('_'):", "if default is _UNSET:", "raise KeyError", "return default", "try:", "return _handlers[name]", "except KeyError:",
                               "alt = name.replace('-', '_').lower()", "if alt != name:", "warn(", "name = alt", "return _handlers[name]", "path = _locations.get(name)", "if path:",
                               "if ':' in path:", "modname, modattr = path.split(':')", "else:", "modname, modattr = (path, name)", "mod = __import__(modname, fromlist=[modattr], level=0)",
                               "handler = _handlers.get(name)", "if handler:", "return handler", "handler = getattr(mod, modattr)", "register_crypt_handler(handler, _attr=name)",
                               "return handler", "if default is _UNSET:", "raise KeyError", "return default"])
    need("list_crypt_handlers", ["names = set(_handlers)", "if not loaded_only:", "names.update(_locations)", "return sorted((name for name in names if not name.startswith('_')))"])
    need("_has_crypt_handler", ["return name in _handlers or (not loaded_only and name in _locations)"])
    need("_unload_handler_name", ["if name in _handlers:", "del _handlers[name]", "if locations and name in _locations:", "del _locations[name]"])
    need("_PasslibRegistryProxy.__getattr__", ["if attr.startswith('_'):", "raise AttributeError", "handler = get_crypt_handler(attr, None)", "if handler:", "return handler", "raise AttributeError"])
    need("_PasslibRegistryProxy.__setattr__", ["if attr.startswith('_'):", "object.__setattr__(self, attr, value)", "else:", "register_crypt_handler(value, _attr=attr)"])
    need("_PasslibRegistryProxy.__dir__", ["attrs = set(dir(self.__class__))", "attrs.update(self.__dict__)", "attrs.update(_locations)", "return sorted(attrs)"])
    # is_crypt_handler: the attribute list
    import passlib.utils as pu

    if ast.unparse(find_def(src_ast("passlib/utils/__init__.py"), "is_crypt_handler").body[-1]) != "return all((hasattr(obj, name) for name in _handler_attrs))":
        raise Untranslatable("is_crypt_handler changed shape")
    hattrs = list(pu._handler_attrs)
    if "name" not in hattrs:
        raise Untranslatable("_handler_attrs lost `name`")

    def pairs(rs):
        return "[" + ", ".join(f"({a}, {b})" for a, b in rs) + "]"

    out = [HEADER.format(src="passlib/registry.py (_name_re, _forbidden_names, _locations; statement shapes), passlib/utils/__init__.py (_handler_attrs)"),
           "namespace Gen.RegistryTables\n",
           f"/-- `_name_re = re.compile({pat!r})`: `^`, then these character classes (inclusive code point ranges; `true` = followed by `+`), then `$` -/",
           "def nameRe : List (List (Nat × Nat) × Bool) :=\n  [" + ",\n   ".join(f"({pairs(rs)}, {'true' if p else 'false'})" for rs, p in items) + "]\n",
           "/-- `_forbidden_names` (sorted) -/",
           "def forbidden : List (List Nat) :=\n  [" + ",\n   ".join(lean_nat_list(ords(w)) for w in forbidden) + "]\n",
           "/-- the literal `_locations = dict(...)`: (name, path) in source order -/",
           "def locations : List (List Nat × List Nat) :=\n  [" + ",\n   ".join(f"({lean_nat_list(ords(k))}, {lean_nat_list(ords(p))})" for k, p in locs) + "]\n",
           "/-- the same names as strings (documentation; `locations` is what the theorems use) -/",
           "def locationNames : List String :=\n  [" + ", ".join('"' + k + '"' for k, _ in locs) + "]\n",
           "/-- `passlib.utils._handler_attrs`: what `is_crypt_handler` asks for -/",
           "def handlerAttrs : List String := [" + ", ".join('"' + a + '"' for a in hattrs) + "]\n",
           'def shapesChecked : String := "_validate_handler_name / register_crypt_handler_path / register_crypt_handler / get_crypt_handler / list_crypt_handlers / '
           '_has_crypt_handler / _unload_handler_name / proxy __getattr__ __setattr__ __dir__: statement order matched by the translator; _handlers = _proxy.__dict__"\n',
           "end Gen.RegistryTables\n"]
    return "\n".join(out)
