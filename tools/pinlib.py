"""statement-list pins: the text of the functions a hand-written Lean model was written against.

tools/pins/<Unit>.json = {"about": "...", "defs": {"<path>::<Class.method>": ["stmt", ...]}} (docstrings dropped, `ast.unparse` form).
`check(unit)` compares every pinned definition with the current source and raises Untranslatable at the first difference;
`python3 tools/pinlib.py repin <Unit> <path>::<qual> ...` (dev only, never run by a check) writes the file from the current source."""
import ast
import json
import os
import sys

HERE = os.path.dirname(os.path.abspath(__file__))


def _body(fn):
    from extract_core import strip_doc

    return [ast.unparse(s) for s in strip_doc(fn.body)]


def _data_stmts(tree, qual):
    """the non-function statements of a class (`Class.__attrs__`: class-level constants, regexes, limits) or of the module
    (`__toplevel__`: constants and tables; imports, classes and functions excluded)"""
    from extract_core import find_def, strip_doc

    node = tree if qual == "__toplevel__" else find_def(tree, qual.rsplit(".", 1)[0])
    return [ast.unparse(n) for n in strip_doc(node.body)
            if not isinstance(n, (ast.FunctionDef, ast.AsyncFunctionDef, ast.ClassDef, ast.Import, ast.ImportFrom))]


def _find_nth(tree, qual):
    """`Class.name` or, for a name defined more than once in its scope (property getter / setter), `Class.name#2`"""
    from extract_core import Untranslatable, find_def

    if "#" not in qual:
        return find_def(tree, qual)
    base, k = qual.split("#")
    scope = tree if "." not in base else find_def(tree, base.rsplit(".", 1)[0])
    name = base.rsplit(".", 1)[-1]
    hits = [n for n in scope.body if isinstance(n, (ast.FunctionDef, ast.AsyncFunctionDef)) and n.name == name]
    if len(hits) < int(k):
        raise Untranslatable(f"definition {qual} not found")
    return hits[int(k) - 1]


def load(unit):
    with open(os.path.join(HERE, "pins", unit + ".json"), encoding="utf-8") as fh:
        return json.load(fh)


def check(unit):
    from extract_core import Untranslatable, find_def, src_ast

    pins = load(unit)
    trees = {}
    for key, want in sorted(pins["defs"].items()):
        path, qual = key.split("::")
        if path not in trees:
            trees[path] = src_ast(path)
        got = _data_stmts(trees[path], qual) if qual.endswith(("__attrs__", "__toplevel__")) else _body(_find_nth(trees[path], qual))
        if got != want:
            for i, (g, w) in enumerate(zip(got, want)):
                if g != w:
                    raise Untranslatable(f"{qual}: statement {i} is `{g[:160]}` but the model was written against `{w[:160]}`")
            raise Untranslatable(f"{qual}: {len(got)} statements, the model was written against {len(want)}")
    return pins


def lean_unit(unit, namespace, extra=""):
    """a Gen file recording what was pinned (so the build depends on it) -- plus `extra` reflected definitions"""
    from extract_core import HEADER, lean_str

    pins = check(unit)
    files = sorted({k.split("::")[0] for k in pins["defs"]})
    names = sorted(k.split("::")[0].rsplit("/", 1)[-1][:-3] + ":" + k.split("::")[1] for k in pins["defs"])
    out = [HEADER.format(src=", ".join(files)), f"namespace {namespace}\n",
           "/-- definitions whose statement lists were compared with the text the model was written against, on this run -/",
           "def pinnedDefs : List String :=\n  [" + ",\n   ".join(lean_str(n) for n in names) + "]\n", extra, f"end {namespace}"]
    return "\n".join(out) + "\n"


if __name__ == "__main__" and len(sys.argv) > 3 and sys.argv[1] == "repin":  # noqa: C901
    sys.path.insert(0, HERE)
    from extract_core import find_def, src_ast

    unit = sys.argv[2]
    defs = {}
    for key in sys.argv[3:]:
        path, qual = key.split("::")
        defs[key] = _body(find_def(src_ast(path), qual))
    p = os.path.join(HERE, "pins", unit + ".json")
    about = ""
    if os.path.exists(p):
        about = json.load(open(p)).get("about", "")
    json.dump({"about": about, "defs": defs}, open(p, "w"), indent=1, sort_keys=True)
    print("wrote", p, len(defs), "definitions")


# ---------------------------------------------------------------------------------------------------------------------
# dev helper: collect pins by pattern (never run by a check)
#   python3 tools/pinlib.py collect <Unit> "<about>" <path>[:<include-regex>[:<exclude-regex>]] ...
# every function / method of the file whose qualified name matches include and not exclude; plus, per class, its non-function
# statements ("Class.__attrs__") and the module's top-level non-import statements ("__toplevel__") when they match.
# ---------------------------------------------------------------------------------------------------------------------
def _collect(path, inc, exc):
    import re

    from extract_core import src_ast, strip_doc

    t = src_ast(path)
    inc_r, exc_r = re.compile(inc or "."), re.compile(exc) if exc else None
    out = {}

    def want(q):
        return bool(inc_r.search(q)) and not (exc_r and exc_r.search(q))

    def walk(node, prefix):
        for n in strip_doc(node.body):
            if isinstance(n, (ast.FunctionDef, ast.AsyncFunctionDef)):
                q = prefix + n.name
                if want(q):
                    k = 1
                    while f"{path}::{q}" + (f"#{k}" if k > 1 else "") in out:
                        k += 1
                    out[f"{path}::{q}" + (f"#{k}" if k > 1 else "")] = [ast.unparse(s) for s in strip_doc(n.body)]
            elif isinstance(n, ast.ClassDef):
                walk(n, prefix + n.name + ".")
                q = prefix + n.name + ".__attrs__"
                if want(q) and _data_stmts(t, q):
                    out[f"{path}::{q}"] = _data_stmts(t, q)

    walk(t, "")
    if want("__toplevel__") and _data_stmts(t, "__toplevel__"):
        out[f"{path}::__toplevel__"] = _data_stmts(t, "__toplevel__")
    return out, t, None


def _attrs(path, inc, exc):
    """class-level data statements, keyed Class.__attrs__ (handled by check() through find_def on the class)"""
    return {}


if __name__ == "__main__" and len(sys.argv) > 3 and sys.argv[1] == "collect":
    sys.path.insert(0, HERE)
    unit, about = sys.argv[2], sys.argv[3]
    defs = {}
    for spec in sys.argv[4:]:
        parts = spec.split("@")
        path, inc, exc = parts[0], (parts[1] if len(parts) > 1 else ""), (parts[2] if len(parts) > 2 else "")
        got, _t, _top = _collect(path, inc, exc)
        defs.update(got)
    p = os.path.join(HERE, "pins", unit + ".json")
    json.dump({"about": about, "defs": defs}, open(p, "w"), indent=1, sort_keys=True)
    print("wrote", p, len(defs), "definitions,", os.path.getsize(p), "bytes")
