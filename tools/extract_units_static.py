"""units PyCase / StaticFmt: tables needed by the `Static` format family (Model/Formats/Static.lean).

PyCase    reflected from the running interpreter: `str.lower()` / `str.upper()` of every non-ASCII code point,
          the cased / case-ignorable classes behind the final-sigma rule of `str.lower()`, `\\w` of `re`
          (str patterns), and the code points matched by the IGNORECASE atoms of oracle11's `_hash_regex`.
StaticFmt reflected from passlib: the hex / padded-base64 alphabets and the regex sources the model transcribes.
"""
import re
import sys

from extract_core import HEADER, lean_nat_list, lean_str, ords, unit


def _all_cps():
    return [cp for cp in range(0x110000) if not (0xD800 <= cp <= 0xDFFF)]


def _ranges(cps):
    out = []
    for c in cps:
        if out and out[-1][1] == c - 1:
            out[-1][1] = c
        else:
            out.append([c, c])
    return out


def _lean_pairs(pairs, per_line=8):
    rows = []
    for i in range(0, len(pairs), per_line):
        rows.append(", ".join(f"({a}, {b})" for a, b in pairs[i:i + per_line]))
    return "[" + ",\n   ".join(rows) + "]"


def _lean_map_rows(name, entries, per_row=48):
    """entries: [(cp, [cps…])] → `def name_k : List (Nat × List Nat)` rows + `def name : List (List (Nat × List Nat))`"""
    out = []
    names = []
    for k in range(0, len(entries), per_row):
        nm = f"{name}_{k // per_row}"
        names.append(nm)
        body = []
        chunk = entries[k:k + per_row]
        for i in range(0, len(chunk), 6):
            body.append(", ".join(f"({c}, [{', '.join(str(x) for x in m)}])" for c, m in chunk[i:i + 6]))
        out.append(f"def {nm} : List (Nat × List Nat) :=\n  [" + ",\n   ".join(body) + "]\n")
    out.append(f"def {name} : List (List (Nat × List Nat)) :=\n  [{', '.join(names)}]\n")
    return "\n".join(out)


@unit("PyCase")
def unit_pycase():
    cps = _all_cps()
    out = [HEADER.format(src=f"CPython {sys.version.split()[0]} str.lower / str.upper / re (reflected)"), "namespace Gen.PyCase\n"]
    SIGMA = 0x3A3
    lower = [(c, ords(chr(c).lower())) for c in cps if c >= 128 and c != SIGMA and chr(c).lower() != chr(c)]
    upper = [(c, ords(chr(c).upper())) for c in cps if c >= 128 and chr(c).upper() != chr(c)]
    # ASCII must be the plain A-Z <-> a-z map (the model hard-codes it)
    for c in range(128):
        lo = c + 32 if 65 <= c <= 90 else c
        up = c - 32 if 97 <= c <= 122 else c
        if ords(chr(c).lower()) != [lo] or ords(chr(c).upper()) != [up]:
            raise ValueError(f"unexpected ASCII case mapping at {c}")
    if ords(chr(SIGMA).lower()) != [0x3C3] or ords(("a" + chr(SIGMA)).lower()) != [97, 0x3C2]:
        raise ValueError("unexpected capital sigma behaviour")
    out.append("/-- `chr(c).lower()` for the non-ASCII code points it changes (capital sigma U+03A3 is context dependent: below) -/")
    out.append(_lean_map_rows("lowerMap", lower))
    out.append("/-- `chr(c).upper()` for the non-ASCII code points it changes -/")
    out.append(_lean_map_rows("upperMap", upper))
    # final-sigma rule of str.lower(): probe the two predicates CPython consults
    fin = lambda s: s.lower()[-1] == "ς"
    A = {c for c in cps if fin("a" + chr(c) + chr(SIGMA))}
    B = {c for c in cps if fin(chr(c) + chr(SIGMA))}
    ignorable = sorted(c for c in A if c not in B)
    cased = sorted(B)      # cased and not case-ignorable (case-ignorable code points are skipped before `cased` is consulted)
    if B - A:
        raise ValueError("final sigma probe inconsistent")
    # the probe must explain the rule in both directions on a sample
    for pre in ("", "a", "a.", ".", "1", "a1"):
        for post in ("", "a", ".", ".a", "1", ".1"):
            s = pre + chr(SIGMA) + post
            def skip(t):
                t = [ord(x) for x in t]
                while t and t[0] in A and t[0] not in B:
                    t = t[1:]
                return t
            b = skip(pre[::-1])
            a = skip(post)
            want = bool(b) and b[0] in B and not (a and a[0] in B)
            got = s.lower()[len(pre.lower())] == "ς"
            if want != got:
                raise ValueError(f"final sigma model disagrees on {s!r}")
    out.append(f"/-- case-ignorable code points (skipped by the final-sigma scan), as inclusive ranges -/\ndef caseIgnorable : List (Nat × Nat) :=\n  {_lean_pairs(_ranges(ignorable))}\n")
    out.append(f"/-- cased, not case-ignorable code points, as inclusive ranges -/\ndef casedNotIgnorable : List (Nat × Nat) :=\n  {_lean_pairs(_ranges(cased))}\n")
    word = [c for c in cps if re.match(r"^\w$", chr(c))]
    out.append(f"/-- code points matched by `\\w` in a str pattern, as inclusive ranges -/\ndef wordRanges : List (Nat × Nat) :=\n  {_lean_pairs(_ranges(word))}\n")
    out.append(f"/-- code points NOT matched by `.` (no DOTALL) -/\ndef dotExcluded : List Nat :=\n  {lean_nat_list([c for c in cps if not re.match('^.$', chr(c))])}\n")
    out.append(f"/-- code points matched by `[0-9a-f]` under re.IGNORECASE -/\ndef hexIgnoreCase : List Nat :=\n  {lean_nat_list([c for c in cps if re.match('^[0-9a-f]$', chr(c), re.I)])}\n")
    out.append(f"/-- code points matched by the literal `S` under re.IGNORECASE -/\ndef capSIgnoreCase : List Nat :=\n  {lean_nat_list([c for c in cps if re.match('^S$', chr(c), re.I)])}\n")
    out.append("end Gen.PyCase\n")
    return "\n".join(out)


@unit("StaticFmt")
def unit_staticfmt():
    import warnings

    warnings.simplefilter("ignore")
    import passlib.utils.handlers as uh
    from passlib import registry
    from passlib.utils import binary as pb

    out = [HEADER.format(src="passlib/utils/binary.py, passlib/handlers/{oracle,ldap_digests,cisco,misc}.py (reflected)"), "namespace Gen.StaticFmt\n"]
    for nm in ("HEX_CHARS", "UPPER_HEX_CHARS", "LOWER_HEX_CHARS", "PADDED_BASE64_CHARS"):
        out.append(f"def {nm} : List Nat :=\n  {lean_nat_list(ords(getattr(pb, nm)))}\n")
    if uh.LC_HEX_CHARS != pb.LOWER_HEX_CHARS or uh.UC_HEX_CHARS != pb.UPPER_HEX_CHARS:
        raise ValueError("handlers' hex aliases differ from utils.binary")
    g = registry.get_crypt_handler
    # regex sources the model transcribes by hand; a change here must break the build of the model's `example`s
    out.append(f"def oracle11Regex : String := {lean_str(g('oracle11')._hash_regex.pattern)}\n")
    out.append(f"def oracle11RegexIgnoreCase : Bool := {'true' if g('oracle11')._hash_regex.flags & re.I else 'false'}\n")
    for nm in ("ldap_salted_md5", "ldap_salted_sha1", "ldap_salted_sha256", "ldap_salted_sha512"):
        out.append(f"def {nm}_regex : String := {lean_str(g(nm)._hash_regex.pattern)}\n")
    out.append(f"def ldapPlaintextRegex : String := {lean_str(g('ldap_plaintext')._2307_pat.pattern)}\n")
    out.append(f"def cisco7MaxSalt : Nat := {g('cisco_type7').max_salt_value}\n")
    out.append("end Gen.StaticFmt\n")
    return "\n".join(out)
