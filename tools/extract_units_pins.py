"""pin-only units: the statement lists of the functions that hand-written models were written against (tools/pins/*.json, see pinlib.py).
A difference makes the unit Untranslatable, i.e. the obligation translate:<Unit> of every property that lists it breaks and the
property's failing-input search runs."""
import pinlib
from extract_core import unit

PIN_UNITS = ["ContextPolicy", "FormatParsers", "FormatDigests", "UsingSettings", "ContextConfig", "CryptoDigest", "LibpassAll", "Registry", "TotpAll", "SaltGen", "B64Engine", "DisabledHashers"]


def _make(name):
    @unit(name)
    def _u():
        return pinlib.lean_unit(name, "Gen." + name)
    return _u


for _n in PIN_UNITS:
    _make(_n)
