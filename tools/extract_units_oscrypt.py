"""unit OsCrypt: the os_crypt back ends of the crypt-family hashers (passlib/handlers/{des,md5,sha1,sha2}_crypt.py).

skeleton: every `_load_backend_os_crypt` must be
              if test_crypt(<secret>, <hash>): cls._set_calc_checksum_backend(cls._calc_checksum_os_crypt); return True
              return False
          and every `_calc_checksum_os_crypt` must have the statement shapes the hand model (Model/OsCryptBackend.lean) was written
          against (config expression, `hash = safe_crypt(secret, <config>)`, the `None` fallback to `_calc_checksum_builtin`,
          the shape test, the slice);
reflect:  the probe vectors (secret + known hash literal of every class, `_test_hash` of the sha2 classes) and the numbers of the
          shape tests / slices are emitted as data.
"""
import ast

from extract_core import HEADER, Untranslatable, find_def, lean_str, src_ast, strip_doc, unit

CLASSES = [  # (model name, file, class holding the two functions)
    ("des_crypt", "passlib/handlers/des_crypt.py", "des_crypt"),
    ("bsdi_crypt", "passlib/handlers/des_crypt.py", "bsdi_crypt"),
    ("md5_crypt", "passlib/handlers/md5_crypt.py", "md5_crypt"),
    ("sha1_crypt", "passlib/handlers/sha1_crypt.py", "sha1_crypt"),
    ("sha256_crypt", "passlib/handlers/sha2_crypt.py", "_SHA2_Common"),
    ("sha512_crypt", "passlib/handlers/sha2_crypt.py", "_SHA2_Common"),
]

FALLBACK = "if hash is None:\n    return self._calc_checksum_builtin(secret)"

# per owner class: statements of _calc_checksum_os_crypt with the numbers replaced by {names}
CALC = {
    "des_crypt": ["hash = safe_crypt(secret, self.salt)", FALLBACK,
                  "if not hash.startswith(self.salt) or len(hash) != {len}:\n    raise uh.exc.CryptBackendError(self, self.salt, hash)",
                  "return hash[{drop}:]"],
    "bsdi_crypt": ["config = self.to_string()", "hash = safe_crypt(secret, config)", FALLBACK,
                   "if not hash.startswith(config[:{pfx}]) or len(hash) != {len}:\n    raise uh.exc.CryptBackendError(self, config, hash)",
                   "return hash[-{tail}:]"],
    "md5_crypt": ["config = self.ident + self.salt", "hash = safe_crypt(secret, config)", FALLBACK,
                  "if not hash.startswith(config) or len(hash) != len(config) + {extra}:\n    raise uh.exc.CryptBackendError(self, config, hash)",
                  "return hash[-{tail}:]"],
    "sha1_crypt": ["config = self.to_string(config=True)", "hash = safe_crypt(secret, config)", FALLBACK,
                   "if not hash.startswith(config) or len(hash) != len(config) + {extra}:\n    raise uh.exc.CryptBackendError(self, config, hash)",
                   "return hash[-{tail}:]"],
    "_SHA2_Common": ["config = self.to_string()", "hash = safe_crypt(secret, config)", FALLBACK, "cs = self.checksum_size",
                     "if not hash.startswith(self.ident) or hash[-cs - 1:-cs] != _UDOLLAR:\n    raise uh.exc.CryptBackendError(self, config, hash)",
                     "return hash[-cs:]"],
}


def _stmts(fn):
    return [ast.unparse(s) for s in strip_doc(fn.body)]


def _match(name, got, want):
    """match statements against templates; `{x}` stands for a non-negative integer literal.  Returns the numbers."""
    import re

    if len(got) != len(want):
        raise Untranslatable(f"{name}: {len(got)} statements, the model was written against {len(want)}")
    nums = {}
    for i, (g, w) in enumerate(zip(got, want)):
        pat = re.escape(w)
        pat = re.sub(r"\\\{(\w+)\\\}", lambda m: f"(?P<{m.group(1)}>[0-9]+)", pat)
        m = re.fullmatch(pat, g)
        if not m:
            raise Untranslatable(f"{name}: statement {i} is `{g}` but the model was written against `{w}`")
        nums.update({k: int(v) for k, v in m.groupdict().items()})
    return nums


def _nats(s):
    return "[" + ", ".join(str(ord(c)) for c in s) + "]"


def _probe(tree, owner, model_name, path):
    fn = find_def(tree, owner + "._load_backend_os_crypt")
    st = _stmts(fn)
    if len(st) != 2 or st[1] != "return False":
        raise Untranslatable(f"{owner}._load_backend_os_crypt: {st!r}")
    iff = strip_doc(fn.body)[0]
    if not (isinstance(iff, ast.If) and not iff.orelse and [ast.unparse(s) for s in iff.body] ==
            ["cls._set_calc_checksum_backend(cls._calc_checksum_os_crypt)", "return True"]):
        raise Untranslatable(f"{owner}._load_backend_os_crypt: success branch is {ast.unparse(iff)!r}")
    call = iff.test
    if not (isinstance(call, ast.Call) and ast.unparse(call.func) == "test_crypt" and not call.keywords):
        raise Untranslatable(f"{owner}._load_backend_os_crypt: condition is {ast.unparse(call)!r}")
    if len(call.args) == 2 and all(isinstance(a, ast.Constant) and isinstance(a.value, str) for a in call.args):
        return call.args[0].value, call.args[1].value
    if len(call.args) == 1 and ast.unparse(call.args[0]) == "*cls._test_hash":
        cls = find_def(tree, model_name)
        for s in cls.body:
            if isinstance(s, ast.Assign) and [ast.unparse(t) for t in s.targets] == ["_test_hash"]:
                v = ast.literal_eval(s.value)
                if isinstance(v, tuple) and len(v) == 2 and all(isinstance(x, str) for x in v):
                    return v
        raise Untranslatable(f"{model_name}._test_hash is not a pair of string literals")
    raise Untranslatable(f"{owner}._load_backend_os_crypt: arguments {ast.unparse(call)!r}")


@unit("OsCrypt")
def unit_oscrypt():
    import warnings

    warnings.simplefilter("ignore")
    from passlib import registry

    out = [HEADER.format(src="passlib/handlers/des_crypt.py, md5_crypt.py, sha1_crypt.py, sha2_crypt.py, passlib/utils/handlers.py"),
           "namespace Gen.OsCrypt\n"]
    t = src_ast("passlib/utils/handlers.py")
    got = [s for s in _stmts(find_def(t, "HasManyBackends._set_calc_checksum_backend")) if not s.startswith("assert ")]
    want = ["backend = cls._pending_backend",
            "if not callable(func):\n    raise RuntimeError(f'{cls.name}: backend {backend!r} returned invalid callable: {func!r}')",
            "if not cls._pending_dry_run:\n    cls._calc_checksum_backend = func"]
    if got != want:
        raise Untranslatable(f"HasManyBackends._set_calc_checksum_backend: {got!r}")
    probes, consts = [], []
    for name, path, owner in CLASSES:
        tree = src_ast(path)
        secret, known = _probe(tree, owner, name, path)
        h = registry.get_crypt_handler(name)
        if "os_crypt" not in h.backends or "builtin" not in h.backends:
            raise Untranslatable(f"{name}.backends = {h.backends!r}")
        probes.append(f"({lean_str(name)}, {_nats(secret)}, {_nats(known)})")
        nums = _match(owner + "._calc_checksum_os_crypt", _stmts(find_def(tree, owner + "._calc_checksum_os_crypt")), CALC[owner])
        if owner == "_SHA2_Common":
            nums = {"cs": int(h.checksum_size)}
        for k, v in sorted(nums.items()):
            consts.append((f"{name}_{k}", v))
        if name == "md5_crypt" or name.startswith("sha"):
            consts.append((f"{name}_ident", None, _nats(h.ident)))
    out.append("/-- (class, probe secret, known hash): the arguments of `test_crypt` in `_load_backend_os_crypt` -/")
    out.append("def probes : List (String × List Nat × List Nat) :=\n  [" + ",\n   ".join(probes) + "]\n")
    out.append("/-! the numbers of the shape tests and slices of `_calc_checksum_os_crypt`, and `cls.ident` -/")
    seen = set()
    for c in consts:
        if c[0] in seen:
            continue
        seen.add(c[0])
        if c[1] is None:
            out.append(f"def {c[0]} : List Nat := {c[2]}")
        else:
            out.append(f"def {c[0]} : Nat := {c[1]}")
    out.append("\nend Gen.OsCrypt")
    return "\n".join(out) + "\n"
