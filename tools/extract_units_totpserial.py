"""unit TotpSerial: (de)serialisation of passlib.totp.TOTP (uri / dict / json) and the urllib pieces it calls.

skeleton: the statement lists of to_uri, _to_uri_params, from_uri, _check_otp_type, _from_parsed_uri, _adapt_uri_params, _uri_parse_int,
          to_dict, from_dict, _adapt_dict_kwds, to_json, from_json, from_source, __init__, _check_label/_check_issuer/_check_serial,
          the key / encrypted_key properties, using() and AppWallet's encrypt_key / decrypt_key / get_secret / has_secrets must be the
          ones the hand model (Model/TotpSerial.lean) was written against (tools/totpserial_pins.py); the urllib.parse functions the
          model follows (urlsplit, parse_qsl, quote, unquote, …) are pinned by the hash of their ast.
reflect:  json_version / min_json_version, the global defaults used for elided fields (all four places must agree), the `safe`
          arguments of the three quote() calls, urllib's `_ALWAYS_SAFE`, `_hexdig`, urlsplit's strip / removal / scheme character
          sets, `str.strip()`'s whitespace code points (enumerated over all code points), and the hash-name normalisation
          `lookup_hash(name).name` for every canonical name hashlib offers, its upper-case form (what to_uri writes) and a few probes.
"""
import ast
import hashlib

from extract_core import HEADER, Untranslatable, find_def, lean_nat_list, lean_str, ords, src_ast, strip_doc, unit
from extract_units_backend import _expect

URLLIB_PINS = {
    # function -> sha256(ast.dump(body without docstring))[:16] for the CPython this model was written against (3.12.1)
    "urlparse": None, "urlsplit": None, "_splitnetloc": None, "parse_qsl": None, "unquote": None, "_generate_unquoted_parts": None,
    "_unquote_impl": None, "quote": None, "quote_from_bytes": None, "_Quoter.__missing__": None, "_Quoter.__init__": None,
}
URLLIB_PINS.update({
    # from `python tools/extract_units_totpserial.py --print-urllib-pins` under CPython 3.12.1
    "urlparse": "4b56050564b82c4f",
    "urlsplit": "568e5df0328d5c05",
    "_splitnetloc": "6ccd3ff4e1ba099d",
    "parse_qsl": "d77c680097c97132",
    "unquote": "eb51fc737abda9a2",
    "_generate_unquoted_parts": "c0d2febb6960cd68",
    "_unquote_impl": "fadc04d2daeec0b3",
    "quote": "83c02000a4cef334",
    "quote_from_bytes": "5c3fa06b68dbbeaf",
    "_Quoter.__missing__": "0e0f56be108b4002",
    "_Quoter.__init__": "7892a0a33924577f",
})

HASH_PROBES = ["SHA-256", "sha-1", "Sha1", "sha2-256", "SHA-512", "FOO", "sha", "SHA1024", "xyz", "sha1 ", "sha0", "SHA_256", "none", "1"]


def stmts(fn):
    return [ast.unparse(fn.args)] + [ast.unparse(s) for s in strip_doc(fn.body)]


def _urllib_fn_hash(qual):
    import inspect
    import textwrap
    import urllib.parse as up

    obj = up
    for part in qual.split("."):
        obj = getattr(obj, part)
    obj = getattr(obj, "__wrapped__", obj)
    tree = ast.parse(textwrap.dedent(inspect.getsource(obj)))
    fn = tree.body[0]
    body = strip_doc(fn.body)
    txt = ast.dump(fn.args) + "|" + "|".join(ast.dump(s) for s in body)
    return hashlib.sha256(txt.encode()).hexdigest()[:16]


def cps_where(pred):
    return [cp for cp in range(0x110000) if not (0xD800 <= cp <= 0xDFFF) and pred(chr(cp))]


def const_of(node, what):
    if not isinstance(node, ast.Constant):
        raise Untranslatable(f"{what}: not a literal ({ast.unparse(node)})")
    return node.value


def lean_cps(s):
    return "[" + ", ".join(str(ord(c)) for c in s) + "]"


@unit("TotpSerial")
def unit_totpserial():
    import sys
    import urllib.parse as up
    import warnings

    warnings.simplefilter("ignore")
    import logging

    logging.disable(logging.WARNING)
    import passlib.totp as pt
    from passlib.crypto.digest import lookup_hash
    from totpserial_pins import PINS

    tree = src_ast("passlib/totp.py")
    out = [HEADER.format(src=f"passlib/totp.py, urllib.parse and str of CPython {sys.version.split()[0]}"), "namespace Gen.TotpSerial\n"]
    # ---- 1. statement lists
    cls = find_def(tree, "TOTP")
    for name, want in PINS.items():
        if name.count(".") == 2:  # property getter / setter
            _, prop, kind = name.split(".")
            fns = [n for n in cls.body if isinstance(n, ast.FunctionDef) and n.name == prop
                   and (any("setter" in ast.unparse(d) for d in n.decorator_list)) == (kind == "setter")]
            if len(fns) != 1:
                raise Untranslatable(f"{name}: {len(fns)} definitions")
            got = stmts(fns[0])
        else:
            got = stmts(find_def(tree, name))
        _expect(name, got, want)
    digest = hashlib.sha256(repr(sorted(PINS.items())).encode()).hexdigest()[:16]
    out.append(f"/-- digest of the {len(PINS)} pinned statement lists of passlib/totp.py (tools/totpserial_pins.py) -/\ndef pinnedSource : String := {lean_str(digest)}\n")
    # ---- 2. urllib functions
    for q, want in URLLIB_PINS.items():
        got = _urllib_fn_hash(q)
        if want is None:
            raise Untranslatable(f"urllib.parse.{q}: no pinned hash recorded (got {got})")
        if got != want:
            raise Untranslatable(f"urllib.parse.{q} differs from the version the model was written against ({got} != {want})")
    out.append("/-- urllib.parse functions followed by the model, pinned by the hash of their ast -/")
    out.append("def pinnedUrllib : List (String × String) :=\n  [" + ",\n   ".join(f"({lean_str(k)}, {lean_str(v)})" for k, v in URLLIB_PINS.items()) + "]\n")
    # ---- 3. versions and defaults
    if not (isinstance(pt.TOTP.json_version, int) and isinstance(pt.TOTP.min_json_version, int)):
        raise Untranslatable("json versions are not ints")
    out.append(f"def jsonVersion : Int := {pt.TOTP.json_version}\ndef minJsonVersion : Int := {pt.TOTP.min_json_version}\n")
    # elision in _to_uri_params / to_dict, refill in _adapt_uri_params / _adapt_dict_kwds
    def elided(fn_name, attrs):
        fn = find_def(tree, fn_name)
        res = {}
        for s in ast.walk(fn):
            if isinstance(s, ast.If) and isinstance(s.test, ast.Compare) and len(s.test.ops) == 1 and isinstance(s.test.ops[0], ast.NotEq):
                l = ast.unparse(s.test.left)
                if l in attrs:
                    res[attrs[l]] = const_of(s.test.comparators[0], fn_name)
        return res

    attrs = {"self.alg": "alg", "self.digits": "digits", "self.period": "period"}
    d1 = elided("TOTP._to_uri_params", attrs)
    d2 = elided("TOTP.to_dict", attrs)
    fn = find_def(tree, "TOTP._adapt_uri_params")
    d3 = {}
    for s in strip_doc(fn.body):
        if isinstance(s, ast.Assign) and isinstance(s.targets[0], ast.Subscript) and ast.unparse(s.targets[0].value) == "kwds" and isinstance(s.value, ast.IfExp):
            d3[const_of(s.targets[0].slice, "kwds key")] = const_of(s.value.orelse, "uri default")
    fn = find_def(tree, "TOTP._adapt_dict_kwds")
    d4 = {}
    for s in strip_doc(fn.body):
        if isinstance(s, ast.Expr) and isinstance(s.value, ast.Call) and ast.unparse(s.value.func) == "kwds.setdefault":
            d4[const_of(s.value.args[0], "setdefault key")] = const_of(s.value.args[1], "setdefault value")
    if not (d1 == d2 == d3 == d4 and set(d1) == {"alg", "digits", "period"}):
        raise Untranslatable(f"elision / refill defaults disagree: uri-out {d1}, dict-out {d2}, uri-in {d3}, dict-in {d4}")
    if not (isinstance(d1["alg"], str) and type(d1["digits"]) is int and type(d1["period"]) is int):
        raise Untranslatable("default types")
    out.append("/-- the value a field has when it is left out of a uri / dict (same constant in `_to_uri_params`, `to_dict`, `_adapt_uri_params`, `_adapt_dict_kwds`) -/")
    out.append(f"def defaultAlg : List Nat := {lean_cps(d1['alg'])}\ndef defaultDigits : Int := {d1['digits']}\ndef defaultPeriod : Int := {d1['period']}\n")
    base = pt.TOTP
    if not (base.label is None and base.issuer is None and base.wallet is None and isinstance(base.alg, str)):
        raise Untranslatable("base class attributes changed")
    out.append("/-- class attributes of the base class `TOTP` -/")
    out.append(f"def baseAlg : List Nat := {lean_cps(base.alg)}\ndef baseDigits : Int := {base.digits}\ndef basePeriod : Int := {base.period}\n")
    # ---- 4. the safe arguments of quote() in to_uri
    fn = find_def(tree, "TOTP.to_uri")
    calls = [c for c in ast.walk(fn) if isinstance(c, ast.Call) and ast.unparse(c.func) == "quote"]
    safes = {ast.unparse(c.args[0]): const_of(c.args[1], "quote safe") for c in calls if len(c.args) == 2 and not c.keywords}
    if set(safes) != {"label", "issuer", "value"} or len(calls) != 3:
        raise Untranslatable(f"quote() calls of to_uri: {[ast.unparse(c) for c in calls]}")
    for k, v in safes.items():
        out.append(f"def {k}Safe : List Nat := {lean_cps(v)}")
    out.append("")
    unq = [c for c in ast.walk(find_def(tree, "TOTP._from_parsed_uri")) if isinstance(c, ast.Call) and ast.unparse(c.func) in ("unquote", "parse_qsl")]
    if sorted(ast.unparse(c) for c in unq) != ["parse_qsl(result.query)", "unquote(label[1:])"]:
        raise Untranslatable("unquote / parse_qsl calls of _from_parsed_uri changed")
    # ---- 5. urllib constants
    out.append(f"/-- `urllib.parse._ALWAYS_SAFE` -/\ndef alwaysSafe : List Nat :=\n  {lean_nat_list(sorted(up._ALWAYS_SAFE))}\n")
    out.append(f"/-- `urllib.parse._hexdig` (digits accepted after '%') -/\ndef hexdig : List Nat := {lean_cps(up._hexdig)}\n")
    if not all(isinstance(c, str) and len(c) == 1 for c in up._UNSAFE_URL_BYTES_TO_REMOVE):
        raise Untranslatable("_UNSAFE_URL_BYTES_TO_REMOVE")
    out.append(f"/-- urlsplit: `url.lstrip(_WHATWG_C0_CONTROL_OR_SPACE)` and the characters removed everywhere -/\ndef urlLstrip : List Nat :=\n  {lean_nat_list(sorted(ords(up._WHATWG_C0_CONTROL_OR_SPACE)))}\ndef urlRemoved : List Nat := {lean_cps(''.join(up._UNSAFE_URL_BYTES_TO_REMOVE))}\n")
    out.append(f"def schemeChars : List Nat :=\n  {lean_nat_list(ords(up.scheme_chars))}\n")
    if "otpauth" in up.uses_params:
        raise Untranslatable("urllib now splits ';params' for otpauth")
    alpha = cps_where(lambda ch: ch.isascii() and ch.isalpha())
    out.append(f"/-- code points with `c.isascii() and c.isalpha()` (first character of a scheme) -/\ndef asciiAlpha : List Nat :=\n  {lean_nat_list(alpha)}\n")
    # ---- 6. str.strip() whitespace
    ws = cps_where(lambda ch: (ch + "x" + ch).strip() == "x")
    if ws != cps_where(str.isspace):
        raise Untranslatable("str.strip() whitespace differs from str.isspace()")
    for probe in ("a b", "\x00a", "a​", "﻿a"):
        if probe.strip() != probe:
            raise Untranslatable("str.strip() strips more than leading / trailing whitespace")
    out.append(f"/-- code points `str.strip()` removes from both ends (enumerated over all code points) -/\ndef stripWs : List Nat :=\n  {lean_nat_list(ws)}\n")
    # ---- 7. hash names
    canon = []
    for n in sorted(hashlib.algorithms_available):
        try:
            info = lookup_hash(n)
        except Exception:  # noqa: BLE001
            continue
        if info.name == n and info.supported and info.digest_size >= 4 and n.isascii():
            canon.append(n)
    rows = []
    seen = set()
    for n in canon + [c.upper() for c in canon] + HASH_PROBES:
        if n in seen:
            continue
        seen.add(n)
        try:
            info = lookup_hash(n)
            if info.digest_size < 4:
                raise Untranslatable(f"hash {n}: digest too small (RuntimeError path is not modelled)")
            rows.append((n, info.name))
        except Untranslatable:
            raise
        except Exception as e:  # noqa: BLE001
            from passlib import exc

            if isinstance(e, exc.UnknownHashError):
                rows.append((n, None))
            # anything else (assertions on odd names) is left out: the model answers `unmodelled`
    if "sha1" not in canon or "sha256" not in canon or "sha512" not in canon:
        raise Untranslatable("RFC 6238 algorithms missing from hashlib")
    out.append("/-- canonical hash names (`lookup_hash(n).name == n`, usable by the TOTP constructor) -/")
    out.append("def hashNames : List (List Nat) :=\n  [" + ",\n   ".join(lean_cps(n) for n in canon) + "]\n")
    out.append("/-- `lookup_hash(name).name` (some) / UnknownHashError (none) for the canonical names, their `.upper()` and a few probes -/")
    out.append("def hashLookup : List (List Nat × Option (List Nat)) :=\n  [" + ",\n   ".join(
        f"({lean_cps(n)}, {'none' if r is None else 'some ' + lean_cps(r)})" for n, r in rows) + "]\n")
    out.append("end Gen.TotpSerial\n")
    return "\n".join(out)


if __name__ == "__main__":
    import sys

    if "--print-urllib-pins" in sys.argv:
        for q in URLLIB_PINS:
            print(f'    "{q}": "{_urllib_fn_hash(q)}",')
