"""unit Threads: the "initialise on first use" protocols as micro-instruction lists (C19).

From the CURRENT source text, per protocol, the list of micro-steps of one first call — each step performs at most one access
to state another thread can see — as data for `Model/Threads.lean` (`Gen/Threads.lean`).  The compiler is
tools/threads_compile.py; this file tells it, per protocol, which attributes are shared state (and their value domains),
which are constants, which calls are inlined and which are the slow initialiser.

Protocols
  ctx / ctxOnload   LazyCryptContext.__getattribute__ + _lazy_init   (without / with an `onload` callback)
  eng               LazyBase64Engine.__getattribute__ + _lazy_init
  stub              HasManyBackends._calc_checksum -> lazy stub -> _stub_requires_backend -> set_backend -> loader commit (md5_crypt)
  bcStub            bcrypt's _NoBackend._calc_checksum -> … -> SubclassBackendMixin._set_backend -> update_mixin_classes
  reg               registry.get_crypt_handler of a name that is not loaded yet

`compile_all(root)` is also used by the scheduler harness (source lines that carry a shared access = preemption points) and
on the pre-fix texts (tools/corr/C19.py: the old programs kept in Model/ThreadsOld.lean must still be what the translator
derives from the old text).
"""
from __future__ import annotations

import ast
import os

from extract_core import HEADER, REPO, Untranslatable, unit
from threads_compile import ABSENT, DEAD, OPAQUE, Compiler, Dyn, Label, Pure, Shared, Spec, Tok, find_file

FILES = {1: "passlib/context.py", 2: "passlib/utils/binary.py", 3: "passlib/utils/handlers.py", 4: "passlib/utils/__init__.py",
         5: "passlib/handlers/bcrypt.py", 6: "passlib/registry.py", 7: "passlib/handlers/md5_crypt.py"}


def root_tok(name):
    return Tok(name, _shared_root=True)


# =====================================================================================================================
# lazily configured objects: LazyCryptContext, LazyBase64Engine
# =====================================================================================================================
class LazySpec(Spec):
    def __init__(self, name, fileid, cls, plain, marker, attr, final_kind, onload=None, busy=None):
        self.name = name
        self.cls_name, self.plain_name, self.marker_name = cls, plain, marker
        self.final_kind = final_kind
        self.SELF = root_tok("self")
        self.LAZY, self.PLAIN = Tok(cls), Tok(plain)
        self.OBJ = Tok("options")
        # registers that hold (a reference to) the options use this numbering; 3..5 only occur in registers
        self.KW = [ABSENT, None, self.OBJ, Tok("copy+onload"), Tok("copy"), Tok("onloaded")]
        # the class level defaults (`_lazy_kwds = None`, `_lazy_busy = False`) are attributes of the LAZY class only
        self.marker = Shared(4, marker, self.KW, default=1, init=2, guard=(5, 1))
        self.klass = Shared(5, "__class__", [ABSENT, self.LAZY, self.PLAIN], default=0, missing=None, init=1)
        self.busy = Shared(6, busy or "_lazy_busy", [ABSENT, False, True], default=1, init=0, guard=(5, 1))
        self.okey = Shared(7, "'onload' in " + marker, [ABSENT, True], default=0, init=1 if onload else 0)
        self.extra_vars = [self.okey]
        self.shared_attrs = {("self", marker): self.marker, ("self", "__class__"): self.klass}
        if busy:
            self.shared_attrs[("self", busy)] = self.busy
        self.funcs = {f"{cls}.__getattribute__": (fileid, FILES[fileid], f"{cls}.__getattribute__"),
                      f"{cls}._lazy_init": (fileid, FILES[fileid], f"{cls}._lazy_init")}
        self.entry = (f"{cls}.__getattribute__", {"self": self.SELF, "attr": attr})
        self.locks = {"_lazy_init_lock"}
        self.globals = {plain: self.PLAIN, cls: self.LAZY}
        self.want = 5 if onload else (4 if marker == "_lazy_kwds" else 2)
        self.calls = {
            f"{cls}._lazy_init": self.c_init_via_class,
            "self._lazy_init": self.c_init_via_instance,
            "object.__getattribute__": self.c_use,
            "super().__init__": self.c_super_init,
            "dict": self.c_dict,
            "kwds.pop": self.c_pop,
            "onload": self.c_onload,
        }

    def prologue(self, c, fd):
        # how the call got here: `obj.attr` runs the lazy class's __getattribute__ only while the instance still has that class
        r = c.scratch()
        c.emit("load", self.klass.idx, 0, r, tag=0)
        go = Label()
        c.emit("brNe", r, 2, go, tag=0)
        c.emit("use", self.final_kind, tag=0)
        c.place(go)

    # -- calls
    def c_init_via_class(self, c, n, env):
        return c.inline(f"{self.cls_name}._lazy_init", [self.SELF], {}, n)

    def c_init_via_instance(self, c, n, env):
        # `self._lazy_init` is looked up on the instance's CURRENT class
        d = c.load(self.klass, n, scratch=True)
        ok = Label()
        c.emit("brNe", d.reg, 2, ok, node=n)
        c.raise_("attributeError", n)
        c.place(ok)
        return c.inline(f"{self.cls_name}._lazy_init", [self.SELF], {}, n)

    def c_use(self, c, n, env):
        c.emit("use", self.final_kind, node=n)
        return DEAD

    def dyn_arg(self, c, n, env):
        for a in list(n.args) + [k.value for k in n.keywords]:
            v = c.dex(a.value if isinstance(a, ast.Starred) else a, env)
            if isinstance(v, Dyn):
                return v
        raise Untranslatable(f"{self.name}: `{ast.unparse(n)}` without the loaded options")

    def none_check(self, c, d, n, kind="typeError"):
        ok = Label()
        c.emit("brNe", d.reg, 1, ok, node=n)
        c.raise_(kind, n)
        c.place(ok)

    def privatise(self, c, d, n):
        """the register refers to the shared options dict (2): read it once -> a private copy with (3) / without (4) the
        `onload` key; private values (3, 4, 5) stay"""
        if self.marker_name != "_lazy_kwds":
            return
        done, has = Label(), Label()
        c.emit("brNe", d.reg, 2, done, node=n)
        t = c.scratch()
        c.emit("load", self.okey.idx, 0, t, node=n)
        c.emit("brEq", t, 1, has, node=n)
        c.emit("set", d.reg, 4, node=n)
        c.emit("jmp", done, node=n)
        c.place(has)
        c.emit("set", d.reg, 3, node=n)
        c.place(done)

    def c_dict(self, c, n, env):
        d = self.dyn_arg(c, n, env)
        self.none_check(c, d, n)
        self.privatise(c, d, n)
        return d

    def c_super_init(self, c, n, env):
        # zero-argument super() needs the instance to still be an instance of the lazy class
        k = c.load(self.klass, n, scratch=True)
        ok = Label()
        c.emit("brNe", k.reg, 2, ok, node=n)
        c.raise_("typeError", n)
        c.place(ok)
        d = self.dyn_arg(c, n, env)
        self.none_check(c, d, n)
        self.privatise(c, d, n)              # `**kwds` reads the dict
        c.emit("initBegin", d.reg, node=n)
        c.emit("initEnd", node=n)
        return None

    def c_pop(self, c, n, env):
        d = c.dex(n.func.value, env)
        if not isinstance(d, Dyn) or [ast.unparse(a) for a in n.args] != ["'onload'"]:
            raise Untranslatable(f"{self.name}: `{ast.unparse(n)}`")
        self.none_check(c, d, n, "attributeError")
        priv, end, bad = Label(), Label(), Label()
        c.emit("brNe", d.reg, 2, priv, node=n)
        t = c.scratch()
        c.emit("swap", self.okey.idx, 0, t, node=n)       # pops the key of the SHARED dict
        c.emit("brNe", t, 0, end, node=n)
        c.place(bad)
        c.raise_("keyError", n)
        c.place(priv)
        c.emit("brNe", d.reg, 3, bad, node=n)
        c.emit("set", d.reg, 4, node=n)
        c.place(end)
        return OPAQUE

    def c_onload(self, c, n, env):
        d = self.dyn_arg(c, n, env)
        self.none_check(c, d, n)
        c.emit("onload", d.reg, node=n)
        return d

    def cond_handler(self, n, env):
        if isinstance(n, ast.Compare) and len(n.ops) == 1 and isinstance(n.ops[0], ast.In) and ast.unparse(n.left) == "'onload'" \
                and isinstance(n.comparators[0], ast.Name) and isinstance(env.get(n.comparators[0].id), Dyn):
            def h(c, n, env, T, F):
                d = env[n.comparators[0].id]
                self.none_check(c, d, n)
                priv = Label()
                c.emit("brNe", d.reg, 2, priv, node=n)
                t = c.scratch()
                c.emit("load", self.okey.idx, 0, t, node=n)
                c.emit("brEq", t, 1, T, node=n)
                c.emit("jmp", F, node=n)
                c.place(priv)
                c.emit("brEq", d.reg, 3, T, node=n)
                c.emit("jmp", F, node=n)
            return h
        return None


# =====================================================================================================================
# lazily chosen back ends
# =====================================================================================================================
class BackendSpec(Spec):
    """common part of the HasManyBackends stub and bcrypt's _NoBackend stub"""

    locks = {"_backend_lock"}

    def __init__(self, name, backends, loads, hasher):
        self.name = name
        self.backends, self.loads = tuple(backends), dict(loads)
        self.SELF = root_tok("cls")          # `self.X` for class level state resolves on the class
        self.CLS = self.SELF
        names = [ABSENT, None, *self.backends]
        self.backend = Shared(4, "__backend", names, default=1, init=0)
        self.pendB = Shared(6, "_pending_backend", names, default=1, init=0)
        self.pendD = Shared(7, "_pending_dry_run", [ABSENT, False, True], default=1, init=0)
        self.shared_attrs = {("cls", "__backend"): self.backend, ("cls", "_pending_backend"): self.pendB, ("cls", "_pending_dry_run"): self.pendD}
        self.const_attrs = {
            ("cls", "backends"): self.backends, ("cls", "name"): hasher, ("cls", "_no_backend_suggestion"): None,
            ("cls", "_get_backend_owner"): Pure("owner", lambda: self.CLS),
            ("cls", "_get_backend_loader"): Pure("loader", lambda nm: self.loader_tok(nm)),
        }
        exc_ns = Tok("exc")
        self.globals = {"exc": exc_ns, "accepts_keyword": Pure("accepts_keyword"), "callable": Pure("callable", callable),
                        "isinstance": Pure("isinstance"), "issubclass": Pure("issubclass"), "list": Pure("list"), "tuple": Pure("tuple"),
                        "any": Pure("any"), "enumerate": Pure("enumerate"), "reversed": Pure("reversed"), "len": Pure("len"), "type": Tok("type")}
        f3 = FILES[3]
        self.funcs = {
            "BackendMixin._stub_requires_backend": (3, f3, "BackendMixin._stub_requires_backend"),
            "BackendMixin.set_backend": (3, f3, "BackendMixin.set_backend"),
            "BackendMixin._set_backend": (3, f3, "BackendMixin._set_backend"),
        }
        self.calls = {
            "self._stub_requires_backend": lambda c, n, env: c.inline("BackendMixin._stub_requires_backend", [self.CLS], {}, n),
            "cls.set_backend": self.c_set_backend,
            "owner.set_backend": self.c_set_backend,
            "loader": self.c_loader,
        }

    def loader_tok(self, nm):
        raise NotImplementedError

    def c_set_backend(self, c, n, env):
        args, kw = c.eval_args(n, env)
        return c.inline("BackendMixin.set_backend", [self.CLS, *args], kw, n)

    def slow(self, c, n, nm):
        r = c.newreg()
        c.emit("set", r, self.backend.index(nm), node=n)
        c.emit("initBegin", r, node=n)
        c.emit("initEnd", node=n)

    def root_return(self, v):
        return 2


class StubSpec(BackendSpec):
    def __init__(self, backends, loads, hasher="md5_crypt"):
        super().__init__("stub", backends, loads, hasher)
        self.STUB, self.FUNC = Tok("stub"), Tok("backend-function")
        self.calc = Shared(5, "_calc_checksum_backend", [ABSENT, self.STUB, self.FUNC], default=1, init=0)
        self.shared_attrs[("cls", "_calc_checksum_backend")] = self.calc
        for b in self.backends:
            self.const_attrs[("cls", "_calc_checksum_" + b)] = self.FUNC
            self.funcs[f"{hasher}._load_backend_{b}"] = (7, FILES[7], f"{hasher}._load_backend_{b}")
        self.hasher = hasher
        f3 = FILES[3]
        self.funcs.update({
            "HasManyBackends._calc_checksum": (3, f3, "HasManyBackends._calc_checksum"),
            "HasManyBackends._calc_checksum_backend": (3, f3, "HasManyBackends._calc_checksum_backend"),
            "HasManyBackends._set_calc_checksum_backend": (3, f3, "HasManyBackends._set_calc_checksum_backend"),
        })
        self.entry = ("HasManyBackends._calc_checksum", {"self": self.SELF, "secret": OPAQUE})
        self.calls.update({
            "self._calc_checksum_backend": self.c_dispatch,
            "cls._set_backend": lambda c, n, env: c.inline("BackendMixin._set_backend", [self.CLS, *c.eval_args(n, env)[0]], {}, n),
            "cls._set_calc_checksum_backend": lambda c, n, env: c.inline("HasManyBackends._set_calc_checksum_backend", [self.CLS, *c.eval_args(n, env)[0]], {}, n),
            "test_crypt": self.c_test_crypt,
        })
        self.want = 2

    def loader_tok(self, nm):
        return Tok("loader:" + nm, backend=nm)

    def c_dispatch(self, c, n, env):
        """`self._calc_checksum_backend(secret)`: look the attribute up on the class, call what is there"""
        d = c.load(self.calc, n)
        if "stub" in c.memo:
            c.emit("brEq", d.reg, 1, c.memo["stub"], node=n)
            c.emit("ret", d.reg, node=n)
            return DEAD
        go = Label()
        c.emit("brEq", d.reg, 1, go, node=n)
        c.emit("ret", d.reg, node=n)
        c.place(go)
        c.memo["stub"] = go
        return c.inline("HasManyBackends._calc_checksum_backend", [self.SELF, OPAQUE], {}, n)

    def c_loader(self, c, n, env):
        tok = env.get("loader")
        if not isinstance(tok, Tok) or not hasattr(tok, "backend"):
            raise Untranslatable("stub: loader of unknown identity")
        c.memo["loading"] = tok.backend
        return c.inline(f"{self.hasher}._load_backend_{tok.backend}", [self.CLS], {}, n)

    def c_test_crypt(self, c, n, env):
        c.eval_args(n, env)
        nm = c.memo["loading"]
        self.slow(c, n, nm)
        return bool(self.loads[nm])


class BcryptSpec(BackendSpec):
    def __init__(self, backends, loads):
        super().__init__("bcStub", backends, loads, "bcrypt")
        self.NOB, self.MIX = Tok("_NoBackend"), Tok("backend-mixin")
        self.bases = Shared(5, "__bases__", [ABSENT, self.NOB, self.MIX], default=0, missing=None, init=1)
        self.shared_attrs[("cls", "__bases__")] = self.bases
        self.const_attrs[("cls", "_backend_mixin_map")] = OPAQUE
        self.const_attrs[("cls", "_backend_mixin_target")] = True
        self.globals["SubclassBackendMixin"] = Tok("SubclassBackendMixin")
        self.funcs.update({
            "_NoBackend._calc_checksum": (5, FILES[5], "_NoBackend._calc_checksum"),
            "SubclassBackendMixin._set_backend": (3, FILES[3], "SubclassBackendMixin._set_backend"),
            "update_mixin_classes": (4, FILES[4], "update_mixin_classes"),
        })
        self.entry = ("_NoBackend._calc_checksum", {"self": self.SELF, "secret": OPAQUE})
        self.calls.update({
            "super(bcrypt, self)._calc_checksum": self.c_dispatch,
            "cls._set_backend": lambda c, n, env: c.inline("SubclassBackendMixin._set_backend", [self.CLS, *c.eval_args(n, env)[0]], {}, n),
            "super()._set_backend": lambda c, n, env: c.inline("BackendMixin._set_backend", [self.CLS, *c.eval_args(n, env)[0]], {}, n),
            "update_mixin_classes": self.c_update,
            "list": self.c_list,
        })
        self.want = 2

    def loader_tok(self, nm):
        return Tok("loader:" + nm, backend=nm)

    def prologue(self, c, fd):
        # how the call got here: `self._calc_checksum` resolved along the class's CURRENT bases
        r = c.newreg()
        c.emit("load", self.bases.idx, 0, r, tag=0)
        go = Label()
        c.emit("brEq", r, 1, go, tag=0)
        c.emit("ret", r, tag=0)
        c.place(go)
        c.memo["stub"] = go

    def c_dispatch(self, c, n, env):
        d = c.load(self.bases, n)
        c.emit("brEq", d.reg, 1, c.memo["stub"], node=n)
        c.emit("ret", d.reg, node=n)
        return DEAD

    def c_loader(self, c, n, env):
        tok = env.get("loader")
        if not isinstance(tok, Tok) or not hasattr(tok, "backend"):
            raise Untranslatable("bcStub: loader of unknown identity")
        # `<mixin>._load_backend_mixin`: imports / self tests, touches only the mixin class that is not in use yet
        self.slow(c, n, tok.backend)
        return bool(self.loads[tok.backend])

    def c_update(self, c, n, env):
        args, kw = c.eval_args(n, env)
        return c.inline("update_mixin_classes", args, kw, n)

    def c_list(self, c, n, env):
        v = c.dex(n.args[0], env)
        return OPAQUE

    def abstract(self, var, v):
        if var is self.bases and v is OPAQUE:
            return self.MIX        # the tuple built by update_mixin_classes: every backend mixin removed, the new one inserted
        return v


# =====================================================================================================================
# registry
# =====================================================================================================================
class RegistrySpec(Spec):
    def __init__(self, name, location):
        self.name = "reg"
        self.HANDLER = Tok("handler", name=name)
        self.MOD = Tok("module", **{name: self.HANDLER})
        self.handlers = Shared(4, f"_handlers[{name!r}]", [ABSENT, None, self.HANDLER], default=0, missing="keyError", init=0)
        self.module = Shared(5, "sys.modules[…]", [ABSENT, None, self.MOD], default=0, init=0)
        self.extra_vars = [self.handlers, self.module]
        self.shared_attrs = {}
        self.shared_globals = {"_handlers"}
        self.funcs = {"get_crypt_handler": (6, FILES[6], "get_crypt_handler"), "register_crypt_handler": (6, FILES[6], "register_crypt_handler")}
        self.entry = ("get_crypt_handler", {"name": name})
        log = Tok("logging", debug=Pure("debug"), warning=Pure("warning"))
        self.globals = {"_UNSET": Tok("_UNSET"), "_locations": {name: location}, "logging": log, "log": log, "warn": Pure("warn"),
                        "PasslibWarning": Tok("PasslibWarning"), "isinstance": Pure("isinstance"), "str": Tok("str"),
                        "is_crypt_handler": Pure("is_crypt_handler", lambda h: True), "_validate_handler_name": Pure("_validate_handler_name"),
                        "getattr": Pure("getattr", getattr)}
        self.calls = {"_handlers.get": self.c_get, "__import__": self.c_import, "register_crypt_handler": self.c_register}
        self.want = 2

    def subscript_handler(self, key):
        if key == "_handlers":
            return lambda c, n, env: (c.sev(n.slice, env), c.load(self.handlers, n))[1]
        return None

    def subscript_store_handler(self, key):
        if key == "_handlers":
            def h(c, target, value, s, env):
                v = c.sev(value, env)
                c.sev(target.slice, env)
                c.emit("store", self.handlers.idx, self.handlers.index(v), node=s)
                return True
            return h
        return None

    def c_get(self, c, n, env):
        c.eval_args(n, env)
        return c.load(self.handlers, n, default=1)

    def c_import(self, c, n, env):
        c.eval_args(n, env)
        c.emit("importOnce", self.module.idx, node=n)
        return self.MOD

    def c_register(self, c, n, env):
        args, kw = c.eval_args(n, env)
        return c.inline("register_crypt_handler", args, kw, n)

    def root_return(self, v):
        if v is self.HANDLER:
            return 2
        raise Untranslatable(f"reg: get_crypt_handler returns {v!r}")


# =====================================================================================================================
def host_facts():
    """reflected constants: declared back ends, which loaders succeed here, where the registry finds md5_crypt"""
    import warnings

    warnings.simplefilter("ignore")
    import passlib.registry as reg
    from passlib.handlers.bcrypt import bcrypt
    from passlib.handlers.md5_crypt import md5_crypt

    return {
        "md5_crypt": (tuple(md5_crypt.backends), {b: bool(md5_crypt.has_backend(b)) for b in md5_crypt.backends}),
        "bcrypt": (tuple(bcrypt.backends), {b: bool(bcrypt.has_backend(b)) for b in bcrypt.backends}),
        "location": reg._locations["md5_crypt"],
    }


def specs(facts):
    mb, ml = facts["md5_crypt"]
    bb, bl = facts["bcrypt"]
    return [
        LazySpec("ctx", 1, "LazyCryptContext", "CryptContext", "_lazy_kwds", "schemes", "attributeError", onload=False, busy="_lazy_busy"),
        LazySpec("ctxOnload", 1, "LazyCryptContext", "CryptContext", "_lazy_kwds", "schemes", "attributeError", onload=True, busy="_lazy_busy"),
        LazySpec("eng", 2, "LazyBase64Engine", "Base64Engine", "_lazy_opts", "encode_bytes", "typeError"),
        StubSpec(mb, ml),
        BcryptSpec(bb, bl),
        RegistrySpec("md5_crypt", facts["location"]),
    ]


class Overlay:
    """source root that prefers files of `first` over `second`"""

    def __init__(self, first, second):
        self.first, self.second = first, second


def compile_all(root=REPO, facts=None, only=None):
    """{protocol: {"code", "tags", "sh0", "want", "vars"}} from the source tree at `root`"""
    facts = facts or host_facts()
    out = {}
    for sp in specs(facts):
        if only and sp.name not in only:
            continue
        c = Compiler(sp, root)
        code, tags = c.compile_root()
        out[sp.name] = {"code": code, "tags": tags, "sh0": sp.sh0(), "want": sp.want, "vars": [(v.idx, v.name, [repr(x) for x in v.dom]) for v in sp.variables()],
                        "nreg": c.nreg}
    return out


def lean_instr(ins):
    op, args = ins[0], ins[1:]
    if op in ("fail", "use"):
        return f".{op} .{args[0]}"
    return "." + " ".join([op, *map(str, args)])


def lean_prog(name, p, indent="  "):
    lines = [f"def {name} : Prog :=", f"{indent}⟨["]
    body = [f"{indent}  {lean_instr(i)}" for i in p["code"]]
    lines.append(",\n".join(body) + "],")
    lines.append(f"{indent} {p['sh0']}⟩")
    return "\n".join(lines)


def lean_tags(name, p):
    return f"def {name}Tags : List Nat :=\n  [" + ", ".join(map(str, p["tags"])) + "]"


def source_lines(root):
    res = {}
    for fid, rel in FILES.items():
        try:
            with open(find_file(root, rel), encoding="utf-8") as fh:
                res[fid] = fh.read().split("\n")
        except (OSError, Untranslatable):
            res[fid] = []
    return res


def listing(p, src):
    """human readable listing (comment block); with src=None without line numbers / source text"""
    out = []
    last = None
    for pc, (ins, tag) in enumerate(zip(p["code"], p["tags"])):
        if src is None:
            out.append(f"  -- {pc:3d}  {lean_instr(ins)}")
            continue
        if tag and tag != last:
            fid, ln = divmod(tag, 100000)
            text = src.get(fid, [])[ln - 1].strip() if 0 < ln <= len(src.get(fid, [])) else ""
            text = text[:100].replace("-/", "- /").replace("/-", "/ -")
            out.append(f"  --        {FILES.get(fid, '?').split('/')[-1]}:{ln}  {text}")
        last = tag or last
        out.append(f"  -- {pc:3d}  {lean_instr(ins)}")
    return "\n".join(out)


@unit("ThreadsLines")
def unit_threads_lines():
    """source position of every instruction of Gen.Threads (kept apart: a pure shift of line numbers must not touch the proofs)"""
    progs = compile_all(REPO)
    src = source_lines(REPO)
    out = [HEADER.format(src=", ".join(FILES.values())), "namespace Gen.ThreadsLines\n",
           "/-! file number * 100000 + line of every instruction of the programs in Gen/Threads.lean; files: " + ", ".join(f"{k} = {v}" for k, v in FILES.items()) + "\n"
           "    (the listings show every instruction under the source line it was compiled from) -/"]
    for name, p in progs.items():
        out.append(f"/- {name}\n{listing(p, src)}\n-/")
        out.append(lean_tags(name, p) + "\n")
    out.append("def all : List (String × List Nat) :=\n  [" + ", ".join(f'("{n}", {n}Tags)' for n in progs) + "]\n")
    out.append("end Gen.ThreadsLines")
    return "\n".join(out) + "\n"


@unit("Threads")
def unit_threads():
    progs = compile_all(REPO)
    src = None
    out = [HEADER.format(src=", ".join(FILES.values())), "import PasslibVerif.Model.Threads\n", "namespace Gen.Threads", "open Model.Threads\n"]
    out.append("/-! fields 0..3 of the shared state are `inits`, `built`, `cfg`, `onloads` (see Model/Threads.lean); per protocol: -/")
    for name, p in progs.items():
        out.append(f"/- {name}: shared variables " + "; ".join(f"{i} = {nm} {dom}" for i, nm, dom in p["vars"]) + f"\n{listing(p, src)}\n-/")
        out.append(lean_prog(name, p))
        out.append(f"/-- what a single thread gets from `{name}` -/")
        out.append(f"def {name}Want : Outcome := .ok {p['want']}\n")
    out.append("def all : List (String × Prog × Outcome) :=\n  [" + ", ".join(f'("{n}", {n}, {n}Want)' for n in progs) + "]\n")
    out.append("end Gen.Threads")
    return "\n".join(out) + "\n"
