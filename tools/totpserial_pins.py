"""statement lists of passlib/totp.py the hand model Model/TotpSerial.lean was written against (args first, then one entry per statement;
regenerate ONLY together with a review of the model).  Used by extract_units_totpserial.py."""
PINS = {'TOTP.base32_key.getter': ['self', 'return b32encode(self.key)'],
 'TOTP.to_uri': ['self, label=None, issuer=None',
                 'if label is None:\n    label = self.label',
                 "if not label:\n    raise ValueError('a label must be specified as argument, or in the constructor')",
                 'self._check_label(label)',
                 "label = quote(label, '@')",
                 'params = self._to_uri_params()',
                 'if issuer is None:\n    issuer = self.issuer',
                 'if issuer:\n'
                 '    self._check_issuer(issuer)\n'
                 "    label = '{}:{}'.format(quote(issuer, '@'), label)\n"
                 "    params.append(('issuer', issuer))",
                 "param_str = '&'.join(('{}={}'.format(key, quote(value, '')) for key, value in params))",
                 "assert param_str, 'param_str should never be empty'",
                 "return f'otpauth://totp/{label}?{param_str}'"],
 'TOTP._to_uri_params': ['self',
                         "args = [('secret', self.base32_key)]",
                         "if self.alg != 'sha1':\n    args.append(('algorithm', self.alg.upper()))",
                         "if self.digits != 6:\n    args.append(('digits', str(self.digits)))",
                         "if self.period != 30:\n    args.append(('period', str(self.period)))",
                         'return args'],
 'TOTP.from_uri': ['cls, uri',
                   "uri = to_unicode(uri, param='uri').strip()",
                   'result = urlparse(uri)',
                   "if result.scheme != 'otpauth':\n    raise cls._uri_parse_error('wrong uri scheme')",
                   'cls._check_otp_type(result.netloc)',
                   'return cls._from_parsed_uri(result)'],
 'TOTP._check_otp_type': ['cls, type',
                          "if type == 'totp':\n    return True",
                          "if type == 'hotp':\n    raise NotImplementedError('HOTP not supported')",
                          "raise ValueError(f'unknown otp type: {type!r}')"],
 'TOTP._from_parsed_uri': ['cls, result',
                           'label = result.path',
                           "if label.startswith('/') and len(label) > 1:\n"
                           '    label = unquote(label[1:])\n'
                           'else:\n'
                           "    raise cls._uri_parse_error('missing label')",
                           "if ':' in label:\n"
                           '    try:\n'
                           "        issuer, label = label.split(':')\n"
                           '    except ValueError:\n'
                           "        raise cls._uri_parse_error('malformed label')\n"
                           'else:\n'
                           '    issuer = None',
                           'if label:\n    label = label.strip()',
                           "if not label:\n    raise cls._uri_parse_error('missing label')",
                           'params = dict(label=label)',
                           'for k, v in parse_qsl(result.query):\n'
                           '    if k in params:\n'
                           "        raise cls._uri_parse_error(f'duplicate parameter ({k!r})')\n"
                           '    params[k] = v',
                           'if issuer:\n'
                           "    if 'issuer' not in params:\n"
                           "        params['issuer'] = issuer\n"
                           "    elif params['issuer'] != issuer:\n"
                           "        raise cls._uri_parse_error('conflicting issuer identifiers')",
                           'return cls(**cls._adapt_uri_params(**params))'],
 'TOTP._adapt_uri_params': ['cls, label=None, secret=None, issuer=None, digits=None, algorithm=None, period=None, **extra',
                            "assert label, 'from_uri() failed to provide label'",
                            'if not secret:\n    raise cls._uri_parse_error("missing \'secret\' parameter")',
                            "kwds = dict(label=label, issuer=issuer, key=secret, format='base32')",
                            "kwds['digits'] = cls._uri_parse_int(digits, 'digits') if digits else 6",
                            "kwds['alg'] = algorithm if algorithm else 'sha1'",
                            "kwds['period'] = cls._uri_parse_int(period, 'period') if period else 30",
                            "if extra:\n    warn(f'{cls}: unexpected parameters encountered in otp uri: {extra!r}', exc.PasslibRuntimeWarning)",
                            'return kwds'],
 'TOTP._uri_parse_int': ['cls, source, param',
                         "try:\n    return int(source)\nexcept ValueError:\n    raise cls._uri_parse_error(f'Malformed {param!r} parameter')"],
 'TOTP._uri_parse_error': ['reason', "return ValueError(f'Invalid otpauth uri: {reason}')"],
 'TOTP.to_dict': ['self, encrypt=None',
                  "state = dict(v=self.json_version, type='totp')",
                  "if self.alg != 'sha1':\n    state['alg'] = self.alg",
                  "if self.digits != 6:\n    state['digits'] = self.digits",
                  "if self.period != 30:\n    state['period'] = self.period",
                  "if self.label:\n    state['label'] = self.label",
                  'issuer = self.issuer',
                  "if issuer and issuer != type(self).issuer:\n    state['issuer'] = issuer",
                  'if encrypt is None:\n    wallet = self.wallet\n    encrypt = wallet and wallet.has_secrets',
                  "if encrypt:\n    state['enckey'] = self.encrypted_key\nelse:\n    state['key'] = self.base32_key",
                  'return state'],
 'TOTP.from_dict': ['cls, source',
                    "if not isinstance(source, dict) or 'type' not in source:\n    raise cls._dict_parse_error('unrecognized format')",
                    'return cls(**cls._adapt_dict_kwds(**source))'],
 'TOTP._adapt_dict_kwds': ['cls, type, **kwds',
                           'cls._check_otp_type(type)',
                           "ver = kwds.pop('v', None)",
                           'if not ver or ver < cls.min_json_version or ver > cls.json_version:\n'
                           "    raise cls._dict_parse_error(f'missing/unsupported version ({ver!r})')",
                           "if ver != cls.json_version:\n    kwds['changed'] = True",
                           "if 'enckey' in kwds:\n"
                           "    assert 'key' not in kwds\n"
                           "    kwds.update(key=kwds.pop('enckey'), format='encrypted')\n"
                           "elif 'key' not in kwds:\n"
                           '    raise cls._dict_parse_error("missing \'enckey\' / \'key\'")',
                           "kwds.pop('last_counter', None)",
                           "kwds.setdefault('alg', 'sha1')",
                           "kwds.setdefault('digits', 6)",
                           "kwds.setdefault('period', 30)",
                           'return kwds'],
 'TOTP._dict_parse_error': ['reason', "return ValueError(f'Invalid totp data: {reason}')"],
 'TOTP.to_json': ['self, encrypt=None', 'state = self.to_dict(encrypt=encrypt)', "return json.dumps(state, sort_keys=True, separators=(',', ':'))"],
 'TOTP.from_json': ['cls, source', "source = to_unicode(source, param='json source')", 'return cls.from_dict(json.loads(source))'],
 'TOTP.from_source': ['cls, source',
                      'if isinstance(source, TOTP):\n'
                      '    if cls.wallet == source.wallet:\n'
                      '        return source\n'
                      '    source = source.to_dict(encrypt=False)',
                      'if isinstance(source, dict):\n    return cls.from_dict(source)',
                      "source = to_unicode(source, param='totp source')",
                      "if source.startswith('otpauth://'):\n    return cls.from_uri(source)",
                      'return cls.from_json(source)'],
 'TOTP.__init__': ["self, key=None, format='base32', new=False, digits=None, alg=None, size=None, period=None, label=None, issuer=None, "
                   'changed=False, **kwds',
                   'super().__init__(**kwds)',
                   'if changed:\n    self.changed = changed',
                   'info = lookup_hash(alg or self.alg)',
                   'self.alg = info.name',
                   'digest_size = info.digest_size',
                   "if digest_size < 4:\n    raise RuntimeError(f'{alg!r} hash digest too small')",
                   'if new:\n'
                   '    if key:\n'
                   '        raise TypeError("\'key\' and \'new=True\' are mutually exclusive")\n'
                   '    if size is None:\n'
                   '        size = digest_size\n'
                   '    elif size > digest_size:\n'
                   '        raise ValueError("\'size\' should be less than digest size (%d)" % digest_size)\n'
                   '    self.key = getrandbytes(rng, size)\n'
                   'elif not key:\n'
                   '    raise TypeError("must specify either an existing \'key\', or \'new=True\'")\n'
                   "elif format == 'encrypted':\n"
                   '    self.encrypted_key = key\n'
                   'elif key:\n'
                   '    self.key = _decode_bytes(key, format)',
                   'if len(self.key) < self._min_key_size:\n'
                   "    msg = 'for security purposes, secret key must be >= %d bytes' % self._min_key_size\n"
                   '    if new:\n'
                   '        raise ValueError(msg)\n'
                   '    warn(msg, exc.PasslibSecurityWarning, stacklevel=1)',
                   'if digits is None:\n    digits = self.digits',
                   "if not isinstance(digits, int):\n    raise TypeError(f'digits must be an integer, not a {type(digits)!r}')",
                   "if digits < 6 or digits > 10:\n    raise ValueError('digits must in range(6,11)')",
                   'self.digits = digits',
                   'if label:\n    self._check_label(label)\n    self.label = label',
                   'if issuer:\n    self._check_issuer(issuer)\n    self.issuer = issuer',
                   "if period is not None:\n    self._check_serial(period, 'period', minval=1)\n    self.period = period"],
 'TOTP._check_label': ['label', 'if label and \':\' in label:\n    raise ValueError("label may not contain \':\'")'],
 'TOTP._check_issuer': ['issuer', 'if issuer and \':\' in issuer:\n    raise ValueError("issuer may not contain \':\'")'],
 'TOTP._check_serial': ['value, param, minval=0',
                        "if not isinstance(value, int):\n    raise exc.ExpectedTypeError(value, 'int', param)",
                        "if value < minval:\n    raise ValueError('%s must be >= %d' % (param, minval))"],
 'TOTP.using': ['cls, digits=None, alg=None, period=None, issuer=None, wallet=None, now=None, **kwds',
                "subcls = type('TOTP', (cls,), {})",
                'def norm_param(attr, value):\n'
                '    """\n'
                '            helper which uses constructor to validate parameter value.\n'
                '            it returns corresponding attribute, so we use normalized value.\n'
                '            """\n'
                "    kwds = dict(key=_DUMMY_KEY, format='raw')\n"
                '    kwds[attr] = value\n'
                '    obj = subcls(**kwds)\n'
                '    return getattr(obj, attr)',
                "if digits is not None:\n    subcls.digits = norm_param('digits', digits)",
                "if alg is not None:\n    subcls.alg = norm_param('alg', alg)",
                "if period is not None:\n    subcls.period = norm_param('period', period)",
                "if issuer is not None:\n    subcls.issuer = norm_param('issuer', issuer)",
                'if kwds:\n'
                '    subcls.wallet = AppWallet(**kwds)\n'
                '    if wallet:\n'
                '        raise TypeError("\'wallet\' and \'secrets\' keywords are mutually exclusive")\n'
                'elif wallet is not None:\n'
                '    if not isinstance(wallet, AppWallet):\n'
                "        raise exc.ExpectedTypeError(wallet, AppWallet, 'wallet')\n"
                '    subcls.wallet = wallet',
                'if now is not None:\n'
                "    err_msg = 'now() function must return non-negative int/float'\n"
                '    assert isinstance(now(), numeric_types), err_msg\n'
                '    assert now() >= 0, err_msg\n'
                '    subcls.now = staticmethod(now)',
                'return subcls'],
 'AppWallet.__init__': ['self, secrets=None, default_tag=None, encrypt_cost=None, secrets_path=None',
                        'if encrypt_cost is not None:\n'
                        '    if isinstance(encrypt_cost, str):\n'
                        '        encrypt_cost = int(encrypt_cost)\n'
                        '    assert encrypt_cost >= 0\n'
                        '    self.encrypt_cost = encrypt_cost',
                        'if secrets_path is not None:\n'
                        '    if secrets is not None:\n'
                        '        raise TypeError("\'secrets\' and \'secrets_path\' are mutually exclusive")\n'
                        '    with open(secrets_path) as f:\n'
                        '        secrets = f.read()',
                        'secrets = self._secrets = self._parse_secrets(secrets)',
                        'if secrets:\n'
                        '    if default_tag is not None:\n'
                        '        self.get_secret(default_tag)\n'
                        '    elif all((tag.isdigit() for tag in secrets)):\n'
                        '        default_tag = max(secrets, key=int)\n'
                        '    else:\n'
                        '        default_tag = max(secrets)\n'
                        '    self.default_tag = default_tag'],
 'AppWallet.has_secrets': ['self', 'return self.default_tag is not None'],
 'AppWallet.get_secret': ['self, tag',
                          'secrets = self._secrets',
                          "if not secrets:\n    raise KeyError('no application secrets configured')",
                          "try:\n    return secrets[tag]\nexcept KeyError:\n    raise KeyError(f'unknown secret tag: {tag!r}') from None"],
 'AppWallet.encrypt_key': ['self, key',
                           "if not key:\n    raise ValueError('no key provided')",
                           'salt = getrandbytes(rng, self.salt_size)',
                           'cost = self.encrypt_cost',
                           'tag = self.default_tag',
                           'if not tag:\n    raise TypeError("no application secrets configured, can\'t encrypt OTP key")',
                           'ckey = self._cipher_aes_key(key, self.get_secret(tag), salt, cost)',
                           'return dict(v=1, c=cost, t=tag, s=b32encode(salt), k=b32encode(ckey))'],
 'AppWallet.decrypt_key': ['self, enckey',
                           'if not isinstance(enckey, dict):\n    raise TypeError("\'enckey\' must be dictionary")',
                           "version = enckey.get('v', None)",
                           'needs_recrypt = False',
                           'if version == 1:\n'
                           '    _cipher_key = self._cipher_aes_key\n'
                           'else:\n'
                           '    raise ValueError(f"missing / unrecognized \'enckey\' version: {version!r}")',
                           "tag = enckey['t']",
                           "cost = enckey['c']",
                           "key = _cipher_key(value=b32decode(enckey['k']), secret=self.get_secret(tag), salt=b32decode(enckey['s']), cost=cost)",
                           'if cost != self.encrypt_cost or tag != self.default_tag:\n    needs_recrypt = True',
                           'return (key, needs_recrypt)'],
 '_decode_bytes': ['key, format',
                   "if format == 'raw':\n"
                   '    if not isinstance(key, bytes):\n'
                   "        raise exc.ExpectedTypeError(key, 'bytes', 'key')\n"
                   '    return key',
                   "key = to_unicode(key, param='key')",
                   "key = _clean_re.sub('', key).encode('utf-8')",
                   "if format == 'hex' or format == 'base16':\n    return base64.b16decode(key.upper())",
                   "if format == 'base32':\n    return b32decode(key)",
                   "raise ValueError(f'unknown byte-encoding format: {format!r}')"],
 'TOTP.key.getter': ['self', 'return self._key'],
 'TOTP.key.setter': ['self, value',
                     "if not isinstance(value, bytes):\n    raise exc.ExpectedTypeError(value, bytes, 'key')",
                     'self._key = value',
                     'self._encrypted_key = self._keyed_hmac = None'],
 'TOTP.encrypted_key.getter': ['self',
                               'enckey = self._encrypted_key',
                               'if enckey is None:\n'
                               '    wallet = self.wallet\n'
                               '    if not wallet:\n'
                               '        raise TypeError("no application secrets present, can\'t encrypt TOTP key")\n'
                               '    enckey = self._encrypted_key = wallet.encrypt_key(self.key)',
                               'return enckey'],
 'TOTP.encrypted_key.setter': ['self, value',
                               'wallet = self.wallet',
                               'if not wallet:\n    raise TypeError("no application secrets present, can\'t decrypt TOTP key")',
                               'self.key, needs_recrypt = wallet.decrypt_key(value)',
                               'if needs_recrypt:\n    self.changed = True\nelse:\n    self._encrypted_key = value']}
