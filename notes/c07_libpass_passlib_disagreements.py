import sys, random, warnings, logging
import os; sys.path.insert(0, os.path.join(os.path.dirname(os.path.abspath(__file__)), '..', 'tools'))
warnings.simplefilter('ignore'); logging.disable(logging.CRITICAL)
from corr import formats_common as fc, formats_misc as fm
from passlib import hash as H
from libpass.inspect.sha_crypt import inspect_sha_crypt, SHA256CryptInfo, SHA512CryptInfo
from libpass.inspect.bcrypt import inspect_bcrypt_hash
from libpass.inspect.pbkdf2 import inspect_pbkdf2_hash, PBKDF2SHA256CryptInfo, PBKDF2SHA512CryptInfo
from libpass.inspect.phc import inspect_phc
from libpass.inspect.phc.defs import Argon2PHC, BcryptSHA256PHCV2
A = fm.ADAPTERS
def acc(f, s):
    try:
        r = f(s)
        return 'None' if r is None else 'ok'
    except Exception as e:
        return type(e).__name__
pairs = {
 'sha256': (lambda s: inspect_sha_crypt(s, SHA256CryptInfo), H.sha256_crypt.from_string),
 'sha512': (lambda s: inspect_sha_crypt(s, SHA512CryptInfo), H.sha512_crypt.from_string),
 'bcrypt': (inspect_bcrypt_hash, H.bcrypt.from_string),
 'pbkdf2_sha256': (lambda s: inspect_pbkdf2_hash(s, PBKDF2SHA256CryptInfo), H.pbkdf2_sha256.from_string),
 'pbkdf2_sha512': (lambda s: inspect_pbkdf2_hash(s, PBKDF2SHA512CryptInfo), H.pbkdf2_sha512.from_string),
 'argon2': (lambda s: inspect_phc(s, Argon2PHC), A['argon2_stub'].parse),
 'bcrypt_sha256': (lambda s: inspect_phc(s, BcryptSHA256PHCV2), H.bcrypt_sha256.from_string),
}
def fields_lp(kind, o):
    if kind.startswith('sha'): return (5000 if o.rounds is None else o.rounds, o.salt, o.hash)
    if kind == 'bcrypt': return (o.prefix, o.rounds, o.salt, o.hash)
    if kind.startswith('pbkdf2'): return (o.rounds, o.salt, o.hash)
    if kind == 'argon2': return (o.type, 19, o.memory_cost, o.time_cost, o.parallelism_cost, o.salt, o.hash)
    if kind == 'bcrypt_sha256': return (o.version_, o.type, o.rounds, o.salt, o.hash)
def fields_pl(kind, o):
    import base64
    from passlib.utils.binary import ab64_encode, b64s_encode
    if kind.startswith('sha'): return (o.rounds, o.salt, o.checksum)
    if kind == 'bcrypt': return (o.ident.strip('$'), o.rounds, o.salt, o.checksum)
    if kind.startswith('pbkdf2'): return (o.rounds, ab64_encode(o.salt).decode(), None if o.checksum is None else ab64_encode(o.checksum).decode())
    if kind == 'argon2': return (o.type, o.version, o.memory_cost, o.rounds, o.parallelism, b64s_encode(o.salt).decode(), None if o.checksum is None else b64s_encode(o.checksum).decode())
    if kind == 'bcrypt_sha256': return (o.version, o.ident.strip('$'), o.rounds, o.salt, o.checksum)
def report(kind, cands):
    lp, pl = pairs[kind]
    for s in cands:
        a, b = acc(lp, s), acc(pl, s)
        flag = '   ' if (a=='ok') == (b=='ok') else '***'
        extra = ''
        if a == 'ok' and b == 'ok':
            fa, fb = fields_lp(kind, lp(s)), fields_pl(kind, pl(s))
            if fa != fb:
                flag = '!=='; extra = f"\n        libpass {fa}\n        passlib {fb}"
        print(f"{flag} {kind:14s} libpass={a:10s} passlib={b:10s} {s!r}{extra}")
if __name__ == '__main__' and 'sha' in sys.argv[1:]:
    c43 = 'x'*43; h43='0123456789012345678901234567890123456789012'
    report('sha256', ['$5$abc$'+h43, '$5$$'+h43, '$5$rounds=5000$abc$'+h43, '$5$rounds=999$abc$'+h43, '$5$rounds=0$abc$'+h43, '$5$rounds=1000000000$abc$'+h43,
        '$5$rounds=05000$abc$'+h43, '$5$rounds=٥٠٠٠$abc$'+h43, '$5$a$c$'+h43, '$5$a!c$'+h43, '$5$abc$'+'!'*43, '$5$abc$'+'$'*43, '$5$abcdefghijklmnopq$'+h43,
        '$5$rounds=12$'+h43, '$5$abc$'+h43+'\n', '$5$abc', '$5$abc$', '$5$rounds=5000$abc', '$5$rounds=5000$abc$', '$5$rounds=5000$$'+h43, '$5$ab\nc$'+h43, '$5$é$'+h43,
        '$5$rounds=5000$rounds=6000$'+h43, '$5$rounds=$abc$'+h43, '$5$rounds=1_000$abc$'+h43, '$5$rounds= 5000$abc$'+h43,'$5$rounds=+5000$abc$'+h43])

if __name__ == '__main__' and 'bcrypt' in sys.argv[1:]:
    S='abcdefghijklmnopqrstuu'; Hh='0123456789012345678901234567890'
    report('bcrypt', ['$2b$12$'+S+Hh, '$2a$12$'+S+Hh, '$2y$12$'+S+Hh, '$2x$12$'+S+Hh, '$2$12$'+S+Hh, '$2b$5$'+S+Hh, '$2b$05$'+S+Hh, '$2b$005$'+S+Hh, '$2b$3$'+S+Hh, '$2b$03$'+S+Hh,
       '$2b$32$'+S+Hh, '$2b$99$'+S+Hh, '$2b$٠٥$'+S+Hh, '$2b$12$'+S+Hh+'\n', '$2b$12$'+S, '$2b$12$'+S[:-1]+'v'+Hh, '$2b$12$'+S[:-1]+'!'+Hh, '$2b$12$'+'!'*22+Hh, '$2b$12$'+S+'!'*31,
       '$2b$12$'+'$'*53, '$2b$12$'+S+Hh[:-1]+'é', '$2b$12$'+S[:-1]+'.'+Hh, '$2b$12$'+S[:-1]+'e'+Hh, '$2b$12$'+S[:-1]+'O'+Hh, '$2b$12$'+S+Hh[:-1]+'1', '$2b$12$'+S+Hh[:-1]+'u', '$2b$1_2$'+S+Hh, '$2b$ 12$'+S+Hh, '$2b$+12$'+S+Hh, '$2b$12$ '+S[1:]+Hh])
if __name__ == '__main__' and 'pbkdf2' in sys.argv[1:]:
    good = H.pbkdf2_sha256.using(rounds=1000, salt_size=8).hash('pw'); print(good)
    p = good.split('$')
    def mk(r=p[2], s=p[3], h=p[4], n=p[1]): return f"${n}${r}${s}${h}"
    report('pbkdf2_sha256', [good, mk(r='0'), mk(r='01000'), mk(r='١٠٠٠'), mk(r='4294967296'), mk(r='1_000'), mk(r='+1000'), mk(s=''), mk(h=''), '$'.join(good.split('$')[:4]), '$'.join(good.split('$')[:4])+'$', mk(s='!!!!'), mk(h='!!!!'),
      mk(s='a$b'), mk(h=p[4]+'$x'), mk(h=p[4][:-1]), mk(h=p[4]+'A'), mk(s=p[3]+'='), mk(s=p[3].replace('.', '+')), mk(h=p[4].replace('.', '+')), mk(s='A'), mk(s='AA'), mk(s='AAA'), mk(s='AAAAA'), mk(h='AAAA'), good+'\n', mk(n='pbkdf2-sha512'), mk(s='é'), mk(s='a b'), mk(s=p[3]+'\n'),
      mk(s='A'*1366), mk(s='A'*1368), mk(h=p[4][:-1]+'B'), mk(s=p[3][:-1]+'B')])
    good = H.pbkdf2_sha512.using(rounds=1000, salt_size=8).hash('pw'); p = good.split('$')
    report('pbkdf2_sha512', [good, mk(n=p[1],r='0',s=p[3],h=p[4]), mk(n='pbkdf2-sha256',r=p[2],s=p[3],h=p[4]), mk(n=p[1],r=p[2],s=p[3],h=p[4][:-1])])
if __name__ == '__main__' and 'argon2' in sys.argv[1:]:
    S='c29tZXNhbHRzb21lc2FsdA'; D='AcmqasQgW/wI6wAHAMk4aQ'
    def mk(t='id', v='v=19$', m='65536', tc='3', p='4', s=S, d=D, x=''): return f"$argon2{t}${v}m={m},t={tc},p={p}{x}${s}${d}"
    report('argon2', [mk(), mk(t='i'), mk(t='d'), mk(t='x'), mk(v=''), mk(v='v=16$'), mk(v='v=019$'), mk(v='v=20$'), mk(m='7'), mk(m='8'), mk(m='008'), mk(m='-5'), mk(m='+8'), mk(tc='0'), mk(p='0'), mk(tc='4294967296'),
       mk(s='c2FsdA'), mk(s='c2FsdHNhbHQ'), mk(s='A'*10), mk(s='A'*11), mk(s='A'*64), mk(s='A'*65), mk(s='A'*66), mk(d='A'*15), mk(d='A'*16), mk(d='A'*86), mk(d='A'*87), mk(d='A'*88), mk(d='AAAAA'), mk(d='A'*17), mk(s='A'*13),
       mk(s=S.replace('c','.')), mk(s=S.replace('c','-')), mk(d=D.replace('/','-')), mk(d=D.replace('/','.')), mk(x=',data=AAAA'), mk(x=',keyid=AAAA'), mk(x=',x=1'),
       f"$argon2id$v=19$t=3,m=65536,p=4${S}${D}", f"$argon2id$v=19$m=65536,t=3${S}${D}", f"$argon2id$v=19$m=65536,t=3,p=4,p=5${S}${D}", f"$argon2id$v=19$m=65536,t=3,p=4${S}", f"$argon2id$v=19$m=65536,t=3,p=4",
       mk()+'\n', mk(d=D+'='), mk(s=S+'='), mk(d=D+'$'), mk(m='1.5'), mk(m='abc'), mk(t='ID'), mk(s='!'*22), mk(d='AA=AAAAAAAAAAAAAAAAA'), mk(d=D+' '), mk(d='é'*16), mk(m='٨٨')])
if __name__ == '__main__' and 'bsha' in sys.argv[1:]:
    good = H.bcrypt_sha256.using(rounds=4).hash('pw'); print(good)
    p = good.split('$')  # ['', 'bcrypt-sha256', 'v=2,t=2b,r=4', salt, digest]
    def mk(par=p[2], s=p[3], d=p[4], n=p[1]): return f"${n}${par}${s}${d}"
    old = H.bcrypt_sha256.using(rounds=4, version=1).hash('pw'); print(old)
    report('bcrypt_sha256', [good, old, mk(par='v=2,t=2a,r=4'), mk(par='v=2,t=2y,r=4'), mk(par='v=2,t=2x,r=4'), mk(par='v=2,t=zz,r=4'), mk(par='v=1,t=2b,r=4'), mk(par='v=3,t=2b,r=4'), mk(par='v=02,t=2b,r=4'), mk(par='v=2,t=2b,r=04'), mk(par='v=2,t=2b,r=3'), mk(par='v=2,t=2b,r=32'),
      mk(par='t=2b,v=2,r=4'), mk(par='v=2,t=2b'), mk(par='v=2,t=2b,r=4,x=1'), mk(par='v=2,t=2b,r=4,r=5'), mk(par='v=2,t=2b,r=x'), mk(par='v=2,t=2b,r=-4'), mk(par='v=2,t=2b,r=+4'), mk(s=p[3][:-1]), mk(s=p[3]+'A'), mk(d=p[4][:-1]), mk(d=p[4]+'A'), mk(s=p[3][:-1]+'v'), mk(s='!'*22), mk(d='!'*31),
      mk(s=p[3][:11]), mk(d=p[4][:16]), mk(d='+'*31), mk(d='-'*31), good+'\n', '$'.join(good.split('$')[:4]), '$'.join(good.split('$')[:4])+'$', mk(par='v=2,t=2b,r=٤'), mk(par='v=2,t=2b,r=4 ')])
