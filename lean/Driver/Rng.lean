import Driver.Util
import PasslibVerif.Model.Rng
import PasslibVerif.Gen.Handlers
namespace Driver.Rng
open Py Driver Model.Rng

/-- least L with N^L ≥ 2^e (exact integer twin of `ceil(e / log2 N)`) -/
partial def minLen (N e : Nat) : Nat :=
  let rec go (L acc : Nat) : Nat := if acc ≥ 2 ^ e then L else go (L + 1) (acc * N)
  if N < 2 then 0 else go 0 1

def saltOf (name : String) (value : Nat) : String :=
  match Gen.Handlers.all.find? (·.name == name) with
  | none => bad
  | some m =>
    match m.defaultSalt with
    | none => "nosalt"
    | some n =>
      if m.has "HasRawSalt" then "ok " ++ showHex (getrandbytes n value)
      else match m.defaultSaltChars.bind (fun k => List.lookup k Gen.Handlers.charsets) with
        | none => bad
        | some cs => showBytesRes (getrandstr cs n value)

def handle (args : List String) : String :=
  match args with
  | ["grb", n, v] => match n.toNat?, v.toNat? with
      | some n, some v => "ok " ++ showHex (getrandbytes n v) | _, _ => bad
  | ["grs", cs, n, v] => match ofHex cs, n.toNat?, v.toNat? with
      | some cs, some n, some v => showBytesRes (getrandstr cs n v) | _, _, _ => bad
  | ["salt", name, v] => match v.toNat? with | some v => saltOf name v | none => bad
  | ["bits", n] => match n.toNat? with | some n => "ok " ++ toString (Gen.Rng.grbBits n) | none => bad
  | ["range", N, n] => match N.toNat?, n.toNat? with
      | some N, some n => "ok " ++ toString (Gen.Rng.grsRange N n) | _, _ => bad
  | ["minlen", N, e] => match N.toNat?, e.toNat? with
      | some N, some e => "ok " ++ toString (minLen N e) | _, _ => bad
  | ["bcryptfix", d] => match d.toNat? with | some d => "ok " ++ toString (bcryptRepairLast d) | none => bad
  | _ => bad

end Driver.Rng
