/-
  Line protocol for the statement-level model of passlib's pure-Python DES based checksum code (C02, code level):

    cdes key        <hex>                          -> "ok <n>"                        _crypt_secret_to_key
    cdes bsdikey    <hex>                          -> "ok <n>" | "err <kind>"         _bsdi_secret_to_key
    cdes rawdes     <secret> <salt hex>            -> "ok <hex>" | "err <kind>"       _raw_des_crypt
    cdes rawbsdi    <secret> <rounds> <salt hex>   -> "ok <hex>" | "err <kind>"       _raw_bsdi_crypt
    cdes desbuiltin <secret> <salt cps>            -> "ok <hex>" | "err <kind>"       des_crypt._calc_checksum_builtin
    cdes bsdibuiltin <secret> <rounds> <salt cps>  -> "ok <hex>" | "err <kind>"       bsdi_crypt._calc_checksum_builtin
    cdes bigcrypt   <secret> <salt cps>            -> "ok <hex>" | "err <kind>"       bigcrypt._calc_checksum
    cdes crypt16    <secret> <salt cps> <0|1>      -> "ok <hex>" | "err <kind>"       crypt16._calc_checksum (flag: use_defaults and truncate_error)
    cdes lmraw      <hex>                          -> "ok <hex>" | "err <kind>"       lmhash.raw (bytes secret)
    cdes lmrawup    <hex>                          -> "ok <hex>" | "err <kind>"       lmhash.raw after the case mapping / encoding
    cdes lmcalc     <hex>                          -> "ok <hex>" | "err <kind>"       lmhash._calc_checksum (bytes secret)
    cdes cbc        <key hex> <value hex>          -> "ok <hex>" | "err <kind>"       des_cbc_encrypt
    cdes oracle10   <input hex>                    -> "ok <hex>" | "err <kind>"       oracle10._calc_checksum from the UTF-16-BE input on

      secret : b:<hex> (bytes) | t:<code points> (text);  "-" is the empty string; text results are shown as hex of their code points
-/
import PasslibVerif.Model.Code.Des
import Driver.Util

namespace Driver.CodeDes
open Py Driver Model.Verify Model.Code.Des

def parseSecret (s : String) : Option Secret :=
  if s.startsWith "b:" then (ofHex (s.drop 2).toString).map Secret.bytes
  else if s.startsWith "t:" then (natList (s.drop 2).toString).map Secret.text
  else none

def flag : String → Option Bool
  | "0" => some false
  | "1" => some true
  | _ => none

def handle (args : List String) : String :=
  match args with
  | ["key", s] => match ofHex s with
    | some s => s!"ok {cryptSecretToKey s}"
    | none => bad
  | ["bsdikey", s] => match ofHex s with
    | some s => showNatRes (bsdiSecretToKey s)
    | none => bad
  | ["rawdes", sec, salt] => match parseSecret sec, ofHex salt with
    | some sec, some salt => showBytesRes (rawDesCrypt sec salt)
    | _, _ => bad
  | ["rawbsdi", sec, rounds, salt] => match parseSecret sec, rounds.toNat?, ofHex salt with
    | some sec, some r, some salt => showBytesRes (rawBsdiCrypt sec r salt)
    | _, _, _ => bad
  | ["desbuiltin", sec, salt] => match parseSecret sec, natList salt with
    | some sec, some salt => showBytesRes (desCryptCalcBuiltin sec salt)
    | _, _ => bad
  | ["bsdibuiltin", sec, rounds, salt] => match parseSecret sec, rounds.toNat?, natList salt with
    | some sec, some r, some salt => showBytesRes (bsdiCryptCalcBuiltin sec r salt)
    | _, _, _ => bad
  | ["bigcrypt", sec, salt] => match parseSecret sec, natList salt with
    | some sec, some salt => showBytesRes (bigcryptCalc sec salt)
    | _, _ => bad
  | ["crypt16", sec, salt, te] => match parseSecret sec, natList salt, flag te with
    | some sec, some salt, some te => showBytesRes (crypt16Calc sec salt te)
    | _, _, _ => bad
  | ["lmraw", s] => match ofHex s with
    | some s => showBytesRes (lmhashRawBytes s)
    | none => bad
  | ["lmrawup", s] => match ofHex s with
    | some s => showBytesRes (lmhashRawUpper s)
    | none => bad
  | ["lmcalc", s] => match ofHex s with
    | some s => showBytesRes (lmhashCalcBytes s)
    | none => bad
  | ["cbc", k, v] => match ofHex k, ofHex v with
    | some k, some v => showBytesRes (desCbcEncrypt k v)
    | _, _ => bad
  | ["oracle10", s] => match ofHex s with
    | some s => showBytesRes (oracle10CalcInput s)
    | none => bad
  | _ => bad

end Driver.CodeDes
