/-
  Line protocol for the hash / verify / identify model of the "Misc" family (C01): fshp, scrypt, scram.

    vfyM fshp   hash   <secret> <salt hex> <rounds> <variant>                 -> "ok <hash cps>" | "err <kind>"
    vfyM scrypt hash   <secret> <layout: s|7> <salt hex> <logN> <r> <p>       -> …
    vfyM scram  hash   <secret> <algs cps (normalised, sorted, comma separated)> <salt hex> <rounds>
    vfyM scram  verifyfull <secret> <hash cps>                                -> verify(…, full=True)
    vfyM scram  info   <hash cps> <alg cps>                                   -> "ok <salt hex> <rounds> <digest hex>"   extract_digest_info
    vfyM scram  derive <secret> <alg cps> <salt hex> <rounds>                 -> "ok <hex>"                              derive_digest
      scram answers `unmodelled` where the result depends on SASLprep outside printable ASCII, on a digest other than
      md5 / sha-1 / sha-224 / sha-256 / sha-384 / sha-512, or on `str.lower()` of U+03A3 (see Model/Formats/MiscScram.lean)
    vfyM <name> verify <secret> <hash cps>                                    -> "ok True|False" | "err <kind>"
    vfyM <name> identify <hash cps>                                           -> "ok True|False"
      secret : b:<hex>  (bytes)   |   t:<code points>  (text)
-/
import PasslibVerif.Model.VerifyFmt.Misc
import Driver.Verify
import Driver.Digest
import Driver.Util

namespace Driver.VerifyFmtMisc
open Py Driver Driver.Digest Driver.Verify Model.Handler Model.Formats Model.Verify Model.VerifyFmt.Misc

def showBool (b : Bool) : String := if b then "True" else "False"

/-- results that depend on something outside the model are answered `unmodelled` -/
def unm {α} (f : α → String) (r : Res α) : String :=
  match r with
  | .error .notImplemented => "unmodelled"
  | r => showRes f r

def handle (args : List String) : String :=
  match args with
  | ["fshp", "hash", sec, salt, rounds, variant] => match parseSecret sec, unhex salt, rounds.toNat?, variant.toNat? with
    | some s, some salt, some r, some v => showRes showNatList (hashE Model.Formats.fshp fshpHasher s (fshpSettings v salt r))
    | _, _, _, _ => bad
  | ["fshp", "verify", sec, hs] => match parseSecret sec, natList hs with
    | some s, some hs => showRes showBool (verify fshpHasher s hs)
    | _, _ => bad
  | ["fshp", "identify", hs] => match natList hs with
    | some hs => "ok " ++ showBool (fshpIdentify hs)
    | none => bad
  | ["scrypt", "hash", sec, layout, salt, logN, r, p] =>
    match parseSecret sec, unhex salt, logN.toNat?, r.toNat?, p.toNat?, (if layout = "7" then some true else if layout = "s" then some false else none) with
    | some s, some salt, some n, some r, some p, some i7 => showRes showNatList (hashE Model.Formats.scrypt scryptHasher s (scryptSettings i7 salt n r p))
    | _, _, _, _, _, _ => bad
  | ["scrypt", "verify", sec, hs] => match parseSecret sec, natList hs with
    | some s, some hs => showRes showBool (verify scryptHasher s hs)
    | _, _ => bad
  | ["scrypt", "identify", hs] => match natList hs with
    | some hs => "ok " ++ showBool (Model.Formats.scrypt.identify hs)
    | none => bad
  | ["scram", "hash", sec, algs, salt, rounds] => match parseSecret sec, natList algs, unhex salt, rounds.toNat? with
    | some s, some algs, some salt, some r =>
      unm showNatList (hashE Model.Formats.scram (scramHasher asciiPrep) s (scramSettings (if algs.isEmpty then [] else splitChar 44 algs) salt r))
    | _, _, _, _ => bad
  | ["scram", "verify", sec, hs] => match parseSecret sec, natList hs with
    | some s, some hs => if !Model.Formats.scramModelled hs then "unmodelled" else unm showBool (scramVerify asciiPrep false s hs)
    | _, _ => bad
  | ["scram", "verifyfull", sec, hs] => match parseSecret sec, natList hs with
    | some s, some hs => if !Model.Formats.scramModelled hs then "unmodelled" else unm showBool (scramVerify asciiPrep true s hs)
    | _, _ => bad
  | ["scram", "identify", hs] => match natList hs with
    | some hs => "ok " ++ showBool (Model.Formats.scram.identify hs)
    | none => bad
  | ["scram", "info", hs, alg] => match natList hs, natList alg with
    | some hs, some alg => if !Model.Formats.scramModelled (hs ++ alg) then "unmodelled" else
      unm (fun (x : Bytes × Nat × Bytes) => showHex x.1 ++ " " ++ toString x.2.1 ++ " " ++ showHex x.2.2) (scramExtractDigestInfo hs alg)
    | _, _ => bad
  | ["scram", "derive", sec, alg, salt, rounds] => match parseSecret sec, natList alg, unhex salt, rounds.toNat? with
    | some s, some alg, some salt, some r => unm showHex (resBind s.toBytes fun b => scramKey asciiPrep alg b salt r)
    | _, _, _, _ => bad
  | _ => bad

end Driver.VerifyFmtMisc
