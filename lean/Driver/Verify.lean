/-
  Line protocol for the generic hash / verify model instantiated with the crypt hashers (C01 / C05 / C08):

    vfy <name> hash   <secret> <salt cps> <rounds>     -> "ok <hash cps>" | "err <kind>"
    vfy <name> verify <secret> <hash cps>              -> "ok True|False" | "err <kind>"
      name   : md5_crypt | apr_md5_crypt | sha256_crypt | sha512_crypt
      secret : b:<hex>  (bytes)   |   t:<code points>  (text)
-/
import PasslibVerif.Model.VerifyCrypt
import Driver.Digest
import Driver.Util

namespace Driver.Verify
open Py Driver Driver.Digest Model.Handler Model.Verify Model.VerifyCrypt

def parseSecret (s : String) : Option Secret :=
  if s.startsWith "b:" then (unhex (s.drop 2).toString).map Secret.bytes
  else if s.startsWith "t:" then (natList (s.drop 2).toString).map Secret.text
  else none

def hasher : String → Option (Hasher × Str)
  | "md5_crypt" => some (md5Hasher false, md5Ident false)
  | "apr_md5_crypt" => some (md5Hasher true, md5Ident true)
  | "sha256_crypt" => some (sha256Hasher, ofString "$5$")
  | "sha512_crypt" => some (sha512Hasher, ofString "$6$")
  | _ => none

def settings (name : String) (ident salt : Str) (rounds : Nat) : Parsed :=
  if name = "sha256_crypt" ∨ name = "sha512_crypt" then sha2Settings ident salt rounds
  else { ident := ident, salt := some salt }

def handle (args : List String) : String :=
  match args with
  | [name, "hash", sec, salt, rounds] => match hasher name, parseSecret sec, natList salt, rounds.toNat? with
    | some (h, ident), some s, some salt, some r => showRes showNatList (hashSecret h s (settings name ident salt r))
    | _, _, _, _ => bad
  | [name, "verify", sec, hs] => match hasher name, parseSecret sec, natList hs with
    | some (h, _), some s, some hs => showRes (fun b => if b then "True" else "False") (verify h s hs)
    | _, _, _ => bad
  | _ => bad

end Driver.Verify
