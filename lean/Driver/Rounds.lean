import Driver.Util
import PasslibVerif.Model.Rounds
namespace Driver.Rounds
open Py Driver Model.Rounds

def optInt (s : String) : Option (Option Int) := if s = "N" then some none else s.toInt?.map some

def argOf (s : String) : Option (Option Arg) :=
  if s = "N" then some none
  else if s.startsWith "s:" then (natList ((s.drop 2).toString.replace "." ",")).map (fun l => some (Arg.str l))
  else s.toInt?.map (fun v => some (Arg.int v))

def varyOf (s : String) : Option (Option Vary) :=
  if s = "N" then some none
  else if s = "f" then some (some Vary.float)
  else s.toInt?.map (fun v => some (Vary.int v))

/-- one using() call: `min,max,default,rounds,vary,relaxed` -/
def usingOf (s : String) : Option UsingArgs :=
  match s.splitOn "," with
  | [mn, mx, df, rd, vr, rl] => do
    let mn ← argOf mn
    let mx ← argOf mx
    let df ← argOf df
    let rd ← argOf rd
    let vr ← varyOf vr
    pure { minRounds := mn, maxRounds := mx, defaultRounds := df, rounds := rd, varyRounds := vr, relaxed := rl = "1" }
  | _ => none

def showOpt : Option Int → String | none => "N" | some v => toString v
def showVary : Vary → String | .none => "N" | .int v => toString v | .float => "f"
def showCls (c : Cls) : String := s!"{showOpt c.minDesired} {showOpt c.maxDesired} {showOpt c.defaultRounds} {showVary c.vary}"

/-- base class: `hardMin,hardMax,default,forceOdd` -/
def baseOf (s : String) : Option Cls :=
  match s.splitOn "," with
  | [hm, hx, df, fo] => do
    let hm ← s!"{hm}".toInt?
    let hx ← optInt hx
    let df ← optInt df
    pure ⟨hm, hx, none, none, df, .none, fo = "1"⟩
  | _ => none

def runQuery (c : Cls) (q : String) : String :=
  match q.splitOn ":" with
  | ["gen", d] => match d.toNat? with
    | some d => showRes toString (generateRounds c d) | none => bad
  | ["gen", d, fv] => match d.toNat?, fv.toInt? with
    | some d, some fv => showRes toString (generateRounds c d fv) | _, _ => bad
  | ["genc", d, fv] => match d.toNat?, fv.toInt? with
    | some d, some fv => showRes toString (generateChecked c d fv) | _, _ => bad
  | ["needs", r] => match r.toInt? with
    | some r => "ok " ++ (if needsUpdate c r then "1" else "0") | none => bad
  | ["clip", r] => match r.toInt? with
    | some r => s!"ok {clipToDesired c r}" | none => bad
  | _ => bad

/-- `rounds chain <base> <using1;using2;…|-> <query> …`: apply the chain of using() calls to the base class;
    answer the attributes after the chain (or the first error and its position) and the queries -/
def handle (args : List String) : String :=
  match args with
  | "chain" :: base :: chain :: queries =>
    match baseOf base with
    | none => bad
    | some c0 =>
      let steps := if chain = "-" then [] else chain.splitOn ";"
      let rec go (c : Cls) (i : Nat) : List String → Except String Cls
        | [] => .ok c
        | s :: rest => match usingOf s with
          | none => .error bad
          | some a => match usingRounds c a with
            | .error e => .error s!"err {e.name} @{i}"
            | .ok c' => go c' (i + 1) rest
      match go c0 0 steps with
      | .error m => m
      | .ok c => " | ".intercalate (("ok " ++ showCls c) :: queries.map (runQuery c))
  | ["int", s] => match natList s with
    | some s => (match pyIntOfStr s with | some v => s!"ok {v}" | none => "err ValueError") | none => bad
  | _ => bad

end Driver.Rounds
