import Driver.Util
import PasslibVerif.Model.TotpTime
import PasslibVerif.Model.Hmac
import PasslibVerif.Spec.SHA1
import PasslibVerif.Spec.SHA256
import PasslibVerif.Spec.SHA512
/-
suite `ttime`: `TOTP.normalize_time` and the calendar arithmetic under it.

  ttime days y m d                      daysFromCivil
  ttime ord y m d                       ymdToOrd  (date.toordinal)
  ttime civil n                         civilFromDays
  ttime fromord n                       ordToYmd  (date.fromordinal)
  ttime leap y | dim y m | wd y m d
  ttime timegm y mo d h mi s            calendar.timegm
  ttime fields t                        fieldsOfEpoch
  ttime utc <dt>                        utctimetuple()[:6]  (Lib/_pydatetime.py)
  ttime utcC <dt>                       the same through the C accelerator's algorithm
  ttime ymdC y m d                      normalize_y_m_d + year check
  ttime instant <dt>                    denoted instant in microseconds (specification side)
  ttime norm <arg>                      TOTP.normalize_time
  ttime gen alg keyhex digits period <arg>     TOTP.generate: token counter start expire
  <arg> ::= int n | float <f> | none <f> | dt <dt> | other
  <f>   ::= num/den | nan | inf | -inf
  <dt>  ::= y mo d h mi s us (naive | offsetMicroseconds)
-/
namespace Driver.TotpTime
open Py Driver Model.TotpTime

def intOf (s : String) : Option Int := s.toInt?

def floatOf (s : String) : Option PyFloat :=
  if s = "nan" then some .nan
  else if s = "inf" then some (.inf false)
  else if s = "-inf" then some (.inf true)
  else match s.splitOn "/" with
    | [n, d] => match intOf n, d.toNat? with
      | some n, some d => if d = 0 then none else some (.finite n d)
      | _, _ => none
    | _ => none

def dtOf : List String → Option DateTime
  | [y, mo, d, h, mi, s, us, off] => do
    let y ← intOf y
    let mo ← intOf mo
    let d ← intOf d
    let h ← intOf h
    let mi ← intOf mi
    let s ← intOf s
    let us ← intOf us
    let off ← if off = "naive" then some none else (intOf off).map some
    pure ⟨y, mo, d, h, mi, s, us, off⟩
  | _ => none

/-- (clock, argument) -/
def argOf : List String → Option (PyFloat × TimeArg)
  | ["int", n] => (intOf n).map fun n => (.nan, .int n)
  | ["float", f] => (floatOf f).map fun f => (.nan, .float f)
  | ["none", f] => (floatOf f).map fun f => (f, .none)
  | "dt" :: rest => (dtOf rest).map fun dt => (.nan, .datetime dt)
  | ["other"] => some (.nan, .other)
  | _ => none

def show3 (t : Int × Int × Int) : String := s!"{t.1} {t.2.1} {t.2.2}"
def show6 (t : Int × Int × Int × Int × Int × Int) : String :=
  s!"{t.1} {t.2.1} {t.2.2.1} {t.2.2.2.1} {t.2.2.2.2.1} {t.2.2.2.2.2}"

def showTok (o : TokenOut) : String :=
  (match o.token with
    | some t => String.ofList (t.map Char.ofNat)
    | none => "struct.error") ++ s!" {o.counter} {o.startTime} {o.expireTime}"

def handle (args : List String) : String :=
  match args with
  | ["days", y, m, d] =>
    match intOf y, intOf m, intOf d with
    | some y, some m, some d => s!"ok {daysFromCivil y m d}"
    | _, _, _ => bad
  | ["ord", y, m, d] =>
    match intOf y, intOf m, intOf d with
    | some y, some m, some d => s!"ok {ymdToOrd y m d}"
    | _, _, _ => bad
  | ["civil", n] => match intOf n with | some n => "ok " ++ show3 (civilFromDays n) | none => bad
  | ["fromord", n] => match intOf n with | some n => "ok " ++ show3 (ordToYmd n) | none => bad
  | ["leap", y] => match intOf y with | some y => s!"ok {isLeap y}" | none => bad
  | ["dim", y, m] => match intOf y, intOf m with | some y, some m => s!"ok {daysInMonth y m}" | _, _ => bad
  | ["wd", y, m, d] =>
    match intOf y, intOf m, intOf d with
    | some y, some m, some d => s!"ok {weekday y m d}"
    | _, _, _ => bad
  | ["timegm", y, mo, d, h, mi, s] =>
    match intOf y, intOf mo, intOf d, intOf h, intOf mi, intOf s with
    | some y, some mo, some d, some h, some mi, some s => showTRes toString (timegm y mo d h mi s)
    | _, _, _, _, _, _ => bad
  | ["fields", t] => match intOf t with | some t => "ok " ++ show6 (fieldsOfEpoch t) | none => bad
  | "utc" :: rest => match dtOf rest with | some dt => showTRes show6 (utcTimeTuple dt) | none => bad
  | "utcC" :: rest => match dtOf rest with | some dt => showTRes show6 (utcTimeTupleC dt) | none => bad
  | ["ymdC", y, m, d] =>
    match intOf y, intOf m, intOf d with
    | some y, some m, some d => showTRes show3 (normalizeYmdC y m d)
    | _, _, _ => bad
  | "instant" :: rest => match dtOf rest with | some dt => s!"ok {instantUs dt}" | none => bad
  | "valid" :: rest => match dtOf rest with | some dt => s!"ok {decide dt.WF}" | none => bad
  | "norm" :: rest =>
    match argOf rest with
    | some (now, a) => showTRes toString (normalizeTime now a)
    | none => bad
  | "gen" :: alg :: key :: digits :: period :: rest =>
    match ofHex key, digits.toNat?, intOf period, argOf rest with
    | some k, some d, some p, some (now, a) =>
      let mac : Option (Bytes → Bytes) := match alg with
        | "sha1" => some (Model.Hmac.compileHmac Spec.SHA1.sha1 64 20 k)
        | "sha256" => some (Model.Hmac.compileHmac Spec.SHA256.sha256 64 32 k)
        | "sha512" => some (Model.Hmac.compileHmac Spec.SHA512.sha512 128 64 k)
        | _ => none
      (match mac with
        | none => bad
        | some m => showTRes showTok (generateAt m d p now a))
    | _, _, _, _ => bad
  | _ => bad

end Driver.TotpTime
