/-
  Line protocol for the salt / ident / truncation settings of `using()` (C09, `Model.UsingSalt`):

    usalt clip  <mn> <mx|N> <relaxed 0|1> <n>                                    -> "ok <v>" | "err <kind>"
    usalt using <cls> <relaxed 0|1> <salt_size> <default_salt_size> <salt>       -> "ok <default size> <fixed salt|N>" | "err <kind>"
    usalt init  <cls> <fixed|N> <draw>                                           -> "ok <salt>" | "err <kind>"
        cls  = <mn>;<mx|N>;<default>;<salt_chars|N>;<default_chars>     (character lists: comma separated code points, "-" = empty)
        size = N | i:<int> | s:<code points>
        salt = N | <code points>
    usalt ident <values: a;b;c> <aliases: k=v;k=v|-> <default> <default_ident|N> <ident|N>   -> "ok <default>" | "err <kind>"
    usalt trunc <parent 0|1> <N | b:0 | b:1 | s:<code points>>                    -> "ok True|False" | "err <kind>"
-/
import Driver.Util
import PasslibVerif.Model.UsingSalt
namespace Driver.UsingSalt
open Py Driver Model.UsingSalt Model.Handler

def optNat (s : String) : Option (Option Nat) := if s = "N" then some none else s.toNat?.map some
def optList (s : String) : Option (Option (List Nat)) := if s = "N" then some none else (natList s).map some

def clsOf (s : String) : Option SaltCls :=
  match s.splitOn ";" with
  | [mn, mx, df, sc, dc] => do
    let mn ← mn.toNat?
    let mx ← optNat mx
    let df ← df.toNat?
    let sc ← optList sc
    let dc ← natList dc
    pure { minSize := mn, maxSize := mx, defaultSize := df, saltChars := sc, defaultChars := dc }
  | _ => none

def sizeOf (s : String) : Option (Option SizeArg) :=
  if s = "N" then some none
  else if s.startsWith "i:" then (s.drop 2).toString.toInt?.map (fun v => some (.int v))
  else if s.startsWith "s:" then (natList (s.drop 2).toString).map (fun l => some (.str l))
  else none

def showOptList : Option (List Nat) → String | none => "N" | some l => showNatList l

def splitNonEmpty (s : String) (sep : String) : List String := if s = "-" then [] else s.splitOn sep

def handle (args : List String) : String :=
  match args with
  | ["clip", mn, mx, rl, n] => match mn.toNat?, optNat mx, n.toInt? with
    | some mn, some mx, some n =>
      showRes toString (clip { minSize := mn, maxSize := mx, defaultSize := mn, saltChars := none, defaultChars := [] } (rl = "1") n)
    | _, _, _ => bad
  | ["using", cls, rl, sz, dsz, salt] => match clsOf cls, sizeOf sz, sizeOf dsz, optList salt with
    | some c, some sz, some dsz, some salt =>
      showRes (fun c' => s!"{c'.defaultSize} {showOptList c'.fixedSalt}")
        (usingSalt c { defaultSaltSize := dsz, saltSize := sz, salt := salt, relaxed := rl = "1" })
    | _, _, _, _ => bad
  | ["init", cls, fixed, draw] => match clsOf cls, optList fixed, draw.toNat? with
    | some c, some fx, some d => showRes showNatList (initSalt { c with fixedSalt := fx } d)
    | _, _, _ => bad
  | ["ident", vals, als, dflt, di, i] =>
    let values := (splitNonEmpty vals ";").mapM natList
    let aliases := (splitNonEmpty als ";").mapM fun kv => match kv.splitOn "=" with
      | [k, v] => do pure ((← natList k), (← natList v))
      | _ => none
    match values, aliases, natList dflt, optList di, optList i with
    | some values, some aliases, some dflt, some di, some i =>
      showRes (fun c => showNatList c.default) (usingIdent ⟨values, aliases, dflt⟩ di i)
    | _, _, _, _, _ => bad
  | ["trunc", parent, a] =>
    let arg : Option BoolArg :=
      if a = "N" then some .none
      else if a = "b:0" then some (.bool false)
      else if a = "b:1" then some (.bool true)
      else if a.startsWith "s:" then (natList (a.drop 2).toString).map BoolArg.str
      else none
    match arg with
    | some arg => showRes (fun b => if b then "True" else "False") (usingTruncate (parent = "1") arg)
    | none => bad
  | _ => bad

end Driver.UsingSalt
