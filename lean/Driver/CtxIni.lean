import Driver.Util
import PasslibVerif.Model.CtxIni
import PasslibVerif.Gen.Handlers
/-
suite `cini`: the text form of a configuration (Model.CtxIni).

wire format of a value:  i:<int>  b:0|1  f:<0|1 isZero>:<cps of f"{v:.2f}">:<cps of str(v)>  F:<0|1 percent>:<cps of the parsed text>
                         s:<cps>  l:<cps>;<cps>;…  (l: = empty list)  n (None)
cps = comma separated code points, "-" = empty text.  A key part: cps or N (None).
-/
namespace Driver.CtxIni
open Py Driver Model.CtxKey Model.CtxIni

def showR {α} (f : α → String) : Res α → String
  | .ok a => "ok " ++ f a
  | .error .notImplemented => "unmodelled"
  | .error e => "err " ++ e.name

def showList (l : List Str) : String := if l.isEmpty then "l:" else "l:" ++ ";".intercalate (l.map showNatList)

def showVal : Val → String
  | .int n => s!"i:{n}"
  | .bool b => if b then "b:1" else "b:0"
  | .float (.obj z a b) => s!"f:{if z then 1 else 0}:{showNatList a}:{showNatList b}"
  | .float (.ofText t p) => s!"F:{if p then 1 else 0}:{showNatList t}"
  | .str t => "s:" ++ showNatList t
  | .names l => showList l
  | .none => "n"

def bit (s : String) : Option Bool := if s = "1" then some true else if s = "0" then some false else none

def readList (s : String) : Option (List Str) := if s = "" || s = "@" then some [] else (s.splitOn ";").mapM natList

def readVal (s : String) : Option Val :=
  if s = "n" then some .none
  else match s.splitOn ":" with
    | ["i", n] => n.toInt?.map .int
    | ["b", b] => (bit b).map .bool
    | ["f", z, a, b] => do pure (.float (.obj (← bit z) (← natList a) (← natList b)))
    | ["F", p, t] => do pure (.float (.ofText (← natList t) (← bit p)))
    | ["s", t] => (natList t).map .str
    | ["l", l] => (readList l).map .names
    | _ => none

def readOpt (x : String) : Option (Option Str) := if x = "N" then some none else (natList x).map some
def showOpt : Option Str → String | none => "N" | some s => showNatList s

def showKV (kv : Key × Val) : String := s!"{showOpt kv.1.cat} {showOpt kv.1.scheme} {showNatList kv.1.option} {showVal kv.2}"
def showKVs (l : List (Key × Val)) : String := if l.isEmpty then "-" else " | ".intercalate (l.map showKV)
def showLine (kv : Str × Str) : String := s!"{showNatList kv.1}={showNatList kv.2}"
def showLines (l : List (Str × Str)) : String := if l.isEmpty then "-" else " ".intercalate (l.map showLine)

def readLine (s : String) : Option (Str × Str) :=
  match s.splitOn "=" with
  | [k, v] => do pure (← natList k, ← natList v)
  | _ => none

def readItems : List String → Option (List (Key × Val))
  | [] => some []
  | c :: s :: o :: v :: rest => do
    let c ← readOpt c
    let s ← readOpt s
    let o ← natList o
    let v ← readVal v
    let r ← readItems rest
    pure ((⟨c, s, o⟩, v) :: r)
  | _ => none

/-- the registry of the correspondence run: the names of `Gen.Handlers.names` and the harness names, each under its own name -/
def resolveIn (known : List Str) (n : Str) : Option Str := if known.contains n then some n else none
def registry (extra : List Str) : List Str := Gen.Handlers.names.map cp ++ extra

def handle (args : List String) : String :=
  match args with
  | ["render", c, s, o, v] =>
    match readOpt c, readOpt s, natList o, readVal v with
    | some c, some s, some o, some v => showR showNatList (renderIniValue ⟨c, s, o⟩ v)
    | _, _, _, _ => bad
  | ["splitcomma", t] => match natList t with
    | some t => "ok " ++ showList (splitcomma t)
    | none => bad
  | ["cfgp-set", t] => match natList t with
    | some t => showR (fun _ => "accepted") (Cfgp.beforeSet t)
    | none => bad
  | ["cfgp-read", t] => match natList t with
    | some t => showR showNatList (Cfgp.readValue t)
    | none => bad
  | ["cfgp-key", t] => match natList t with
    | some t => showR showNatList (Cfgp.readKey t)
    | none => bad
  | ["cfgp-interp", t] => match natList t with
    | some t => showR showNatList (Cfgp.interp t)
    | none => bad
  | ["cfgp-channel", k, v] => match natList k, natList v with
    | some k, some v => showR showLine (Cfgp.channel (k, v))
    | _, _ => bad
  | ["normscheme", fo, k, v] => match bit fo, natList k, readVal v with
    | some fo, some k, some v => showR showVal (normSchemeOption (fun _ => fo) k v)
    | _, _, _ => bad
  | ["normctx", sch, k, v] => match readList sch, natList k, readVal v with
    | some sch, some k, some v => showR showVal (normContextOption sch k v)
    | _, _, _ => bad
  | ["initopt", fo, sch, c, s, o, v] =>
    match bit fo, readList sch, readOpt c, readOpt s, natList o, readVal v with
    | some fo, some sch, some c, some s, some o, some v => showR showKV (initOption (fun _ => fo) sch ⟨c, s, o⟩ v)
    | _, _, _, _, _, _ => bad
  | ["schemelist", extra, v] =>
    match readList extra, (if v = "N" then some none else (readVal v).map some) with
    | some extra, some v => showR showList (initSchemeList (resolveIn (registry extra)) v)
    | _, _ => bad
  | "renderall" :: items => match readItems items with
    | some cfg => showR showLines (renderAll cfg)
    | none => bad
  | "parseback" :: fo :: extra :: lines =>
    match bit fo, readList extra, lines.mapM readLine with
    | some fo, some extra, some lines => showR showKVs (parseBack (fun _ => fo) (resolveIn (registry extra)) lines)
    | _, _, _ => bad
  | "roundtrip" :: fo :: extra :: items =>
    match bit fo, readList extra, readItems items with
    | some fo, some extra, some cfg =>
      showR showKVs ((renderAll cfg).bind (parseBack (fun _ => fo) (resolveIn (registry extra))))
    | _, _, _ => bad
  | ["asbool", parent, v] => match bit parent, readVal v with
    | some parent, some (.str t) => showR (fun b => if b then "1" else "0") (Model.UsingSalt.usingTruncate parent (.str t))
    | some parent, some (.bool b) => showR (fun b => if b then "1" else "0") (Model.UsingSalt.usingTruncate parent (.bool b))
    | some parent, some .none => showR (fun b => if b then "1" else "0") (Model.UsingSalt.usingTruncate parent .none)
    | _, _ => bad
  | _ => bad

end Driver.CtxIni
