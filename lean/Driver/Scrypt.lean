/-
  Line-protocol front end for scrypt (model of passlib's builtin backend, and the RFC 7914 spec).

    ["salsa", hex64]                       -> "ok <hex64>"   Gen.Scrypt.salsa20 on the 16 LE words
    ["salsaspec", hex64]                   -> "ok <hex64>"   Spec.Scrypt.salsa20_8_bytes
    ["bmix", r, hex]                       -> "ok <hex>"     Model.Scrypt.bmix r (as selected by __init__)
    ["bmixgen", r, hex]                    -> "ok <hex>"     Model.Scrypt.bmixGeneral r (fast path removed)
    ["bmixspec", r, hex]                   -> "ok <hex>"     Spec.Scrypt.blockMix r
    ["smix", r, n, hex]                    -> "ok <hex>"     Model.Scrypt.smix n r
    ["smixspec", r, n, hex]                -> "ok <hex>"     Spec.Scrypt.roMix r n
    ["integerify", n, hex]                 -> "ok <nat>"     Model.Scrypt.integerify n (words of hex)
    ["integerifyspec", r, hex]             -> "ok <nat>"     Spec.Scrypt.integerify r
    ["run", hexpwd, hexsalt, n, r, p, keylen]  -> "ok <hex>" Model.Scrypt.run
    ["spec", hexpwd, hexsalt, n, r, p, keylen] -> "ok <hex>" Spec.Scrypt.scrypt
    ["validate", n, r, p]                  -> "ok" | "err ValueError"
    anything else                          -> "bad-op"
-/
import Driver.Digest
import PasslibVerif.Model.Scrypt
import PasslibVerif.Spec.Scrypt

namespace Driver.Scrypt
open Driver.Digest (unhex hex ok)

/-- the (ignored) previous contents of bmix's target buffer: deliberately not zero -/
def junk (r : Nat) : List Nat := (List.range (32 * r)).map fun i => (0xdeadbeef + 0x9e3779b9 * i) % 2 ^ 32

def handle (args : List String) : String :=
  let r : Option String :=
    match args with
    | ["salsa", h] => do
        let b ← unhex h
        pure (ok (Model.Scrypt.packU32le (Gen.Scrypt.salsa20 (Model.Scrypt.unpackU32le b))))
    | ["salsaspec", h] => do
        let b ← unhex h
        pure (ok (Spec.Scrypt.salsa20_8_bytes b))
    | ["bmix", r, h] => do
        let r ← r.toNat?
        let b ← unhex h
        pure (ok (Model.Scrypt.packU32le (Model.Scrypt.bmix r (Model.Scrypt.unpackU32le b) (junk r))))
    | ["bmixgen", r, h] => do
        let r ← r.toNat?
        let b ← unhex h
        pure (ok (Model.Scrypt.packU32le (Model.Scrypt.bmixGeneral r (Model.Scrypt.unpackU32le b) (junk r))))
    | ["bmixspec", r, h] => do
        let r ← r.toNat?
        let b ← unhex h
        pure (ok (Spec.Scrypt.blockMix r b))
    | ["smix", r, n, h] => do
        let r ← r.toNat?
        let n ← n.toNat?
        let b ← unhex h
        pure (ok (Model.Scrypt.smix n r b))
    | ["smixspec", r, n, h] => do
        let r ← r.toNat?
        let n ← n.toNat?
        let b ← unhex h
        pure (ok (Spec.Scrypt.roMix r n b))
    | ["integerify", n, h] => do
        let n ← n.toNat?
        let b ← unhex h
        pure ("ok " ++ toString (Model.Scrypt.integerify n (Model.Scrypt.unpackU32le b)))
    | ["integerifyspec", r, h] => do
        let r ← r.toNat?
        let b ← unhex h
        pure ("ok " ++ toString (Spec.Scrypt.integerify r b))
    | ["run", pw, s, n, r, p, keylen] => do
        let pw ← unhex pw
        let s ← unhex s
        let n ← n.toNat?
        let r ← r.toNat?
        let p ← p.toNat?
        let k ← keylen.toNat?
        pure (ok (Model.Scrypt.run n r p pw s k))
    | ["spec", pw, s, n, r, p, keylen] => do
        let pw ← unhex pw
        let s ← unhex s
        let n ← n.toNat?
        let r ← r.toNat?
        let p ← p.toNat?
        let k ← keylen.toNat?
        pure (ok (Spec.Scrypt.scrypt pw s n r p k))
    | ["validate", n, r, p] => do
        let n ← n.toInt?
        let r ← r.toInt?
        let p ← p.toInt?
        pure (match Model.Scrypt.validate n r p with
              | .ok () => "ok"
              | .error e => "err " ++ e)
    | _ => none
  r.getD "bad-op"

#guard handle ["validate", "16", "8", "1"] = "ok"
#guard handle ["validate", "-16", "8", "1"] = "err ValueError"
#guard handle ["validate", "24", "8", "1"] = "err ValueError"
#guard handle ["salsa", "7e879a214f3ec9867ca940e641718f26baee555b8c61c1b50df846116dcd3b1dee24f319df9b3d8514121e4b5ac5aa3276021d2909c74829edebc68db8b8c25e"] =
  "ok a41f859c6608cc993b81cacb020cef05044b2181a2fd337dfd7b1c6396682f29b4393168e3c9e6bcfe6bc5b7a06d96bae424cc102c91745c24ad673dc7618f81"
#guard handle ["run", "-", "-", "16", "1", "1", "64"] = handle ["spec", "-", "-", "16", "1", "1", "64"]
#guard handle ["scrypt"] = "bad-op"

end Driver.Scrypt
