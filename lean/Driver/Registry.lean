/-
  Line protocol for the hasher registry (C17, suite `preg`):

    preg <init> <world> <ops>
      init  : "empty" (no handlers, no locations) | "shipped" (no handlers, the shipped `_locations` table)
      names : code points joined by "," ("-" = the empty str)
      obj   : id/attrsOk/truthy/kind/name      kind: m (no `name` attribute) | n (name is None) | i (name is an int ≠ 0) | s (name is the str <name>)
      world : "-" | modules joined by ";"       module: <modname>=<attr>:<obj>+<attr>:<obj>…   (possibly nothing after "=")
      ops   : joined by ";"
              reg:<obj>:<force 0|1>:<_attr: N | name>   path:<name>:<path>   get:<name>:<default given 0|1>   list:<loaded_only 0|1>
              has:<name>:<loaded_only 0|1>   unload:<name>:<locations 0|1>   pget:<attr>   pset:<attr>:<obj>   pdir
    answer: per op  "ok None" | "ok H<id>" | "ok default" | "ok True|False" | "ok [<name>+<name>…]" | "err <PyType>:<which>", followed by " W" when the
            PasslibWarning of the name normalisation was issued; then "H <key>><id>+…" and "L <key>><path>+…" (the two dicts in insertion order);
            all joined by " | ".
-/
import PasslibVerif.Model.Registry
import Driver.Util

namespace Driver.Registry
open Model.Registry

def parseName (s : String) : Option Name := Driver.natList s

def showName (n : Name) : String := Driver.showNatList n

def parseBool : String → Option Bool
  | "0" => some false | "1" => some true | _ => none

def parseObj (s : String) : Option Handler :=
  match s.splitOn "/" with
  | [i, a, t, k, n] =>
    match i.toNat?, parseBool a, parseBool t, parseName n with
    | some i, some a, some t, some n =>
      (match k with
        | "m" => some NameAttr.missing | "n" => some (NameAttr.other false) | "i" => some (NameAttr.other true) | "s" => some (NameAttr.str n)
        | _ => none).map fun na => ⟨i, a, t, na⟩
    | _, _, _, _ => none
  | _ => none

def parseModule (s : String) : Option (Name × List (Name × Handler)) :=
  match s.splitOn "=" with
  | [m, attrs] =>
    match parseName m with
    | none => none
    | some m =>
      if attrs = "" then some (m, [])
      else ((attrs.splitOn "+").mapM fun (a : String) =>
        match a.splitOn ":" with
        | [k, o] => match parseName k, parseObj o with
          | some k, some o => some (k, o)
          | _, _ => none
        | _ => none).map fun l => (m, l)
  | _ => none

def parseWorld (s : String) : Option (List (Name × List (Name × Handler))) :=
  if s = "-" then some [] else (s.splitOn ";").mapM parseModule

def parseOp (s : String) : Option Op :=
  match s.splitOn ":" with
  | ["reg", o, f, a] =>
    match parseObj o, parseBool f, (if a = "N" then some none else (parseName a).map some) with
    | some o, some f, some a => some (.register o f a)
    | _, _, _ => none
  | ["path", n, p] => match parseName n, parseName p with
    | some n, some p => some (.registerPath n p)
    | _, _ => none
  | ["get", n, d] => match parseName n, parseBool d with
    | some n, some d => some (.get n d)
    | _, _ => none
  | ["list", lo] => (parseBool lo).map .list
  | ["has", n, lo] => match parseName n, parseBool lo with
    | some n, some lo => some (.has n lo)
    | _, _ => none
  | ["unload", n, l] => match parseName n, parseBool l with
    | some n, some l => some (.unload n l)
    | _, _ => none
  | ["pget", a] => (parseName a).map .proxyGet
  | ["pset", a, o] => match parseName a, parseObj o with
    | some a, some o => some (.proxySet a o)
    | _, _ => none
  | ["pdir"] => some .proxyDir
  | _ => none

def showErr : Err → String
  | .typeError => "TypeError:handler"
  | .assertion => "AssertionError:bool"
  | .nameEmpty => "ValueError:empty"
  | .nameCase => "ValueError:case"
  | .nameRe => "ValueError:re"
  | .nameDunder => "ValueError:dunder"
  | .nameForbidden => "ValueError:forbidden"
  | .attrMismatch => "ValueError:attr"
  | .attributeError => "AttributeError:attr"
  | .pathDot => "ValueError:pathdot"
  | .pathColons => "ValueError:colons"
  | .pathDotAfterColon => "ValueError:dotcolon"
  | .taken => "KeyError:taken"
  | .invalidName => "KeyError:invalid"
  | .notFound => "KeyError:notfound"
  | .importError => "ImportError:import"
  | .emptyModule => "ValueError:emptymod"
  | .unpack => "ValueError:unpack"
  | .proxyMissing => "AttributeError:pmissing"
  | .proxyUnknown => "AttributeError:punknown"

def showVal : Val → String
  | .none => "None"
  | .handler h => s!"H{h.id}"
  | .default => "default"
  | .bool b => if b then "True" else "False"
  | .names l => "[" ++ "+".intercalate (l.map showName) ++ "]"

def showAns (a : Bool × Except Err Val) : String :=
  (match a.2 with | .ok v => "ok " ++ showVal v | .error e => "err " ++ showErr e) ++ (if a.1 then " W" else "")

def handle (args : List String) : String :=
  match args with
  | [ini, world, ops] =>
    let s0 : Option State := match ini with
      | "empty" => some ⟨[], []⟩ | "shipped" => some init | _ => none
    match s0, parseWorld world, (ops.splitOn ";").mapM parseOp with
    | some s0, some wl, some ops =>
      let w : World := fun m => get? wl m
      let r := run w s0 ops
      " | ".intercalate (r.1.map showAns ++
        ["H " ++ "+".intercalate (r.2.handlers.map fun p => showName p.1 ++ ">" ++ toString p.2.id),
         "L " ++ "+".intercalate (r.2.locations.map fun p => showName p.1 ++ ">" ++ showName p.2)])
    | _, _, _ => bad
  | _ => bad

end Driver.Registry
