/-
  Line protocol for C04 at string level (Model/ContextStr.lean): the policy model over the atoms the hasher models compute.

    cstr <schemes> <defaults> <deprecated> <options> <query> …          (configuration encoded as for the `ctx` suite)
      over                                          -> "ok 1|0"   every scheme is a modelled hasher with the registry's class attributes
      saltok:<name>:<salt cps>                      -> "ok 1|0"
      identify:<hash cps>                           -> "ok <scheme>" | "err <kind>"
      needs:<cat>:<hash cps>                        -> "ok 1|0" | "err <kind>"
      verify:<secret>:<hash cps>                    -> "ok True|False" | "err <kind>"
      hash:<cat>:<draw>:<fv>:<salt cps>:<secret>    -> "ok <hash cps>" | "err <kind>"
      vau:<cat>:<draw>:<fv>:<salt cps>:<secret>:<hash cps>  -> "ok F N" | "ok T N" | "ok T <new hash cps>" | "err <kind>"
      secret : b=<hex> (bytes) | t=<code points> (text);  cat : "-" = default category
    answers of the queries are joined by " | "
-/
import PasslibVerif.Model.ContextStr
import Driver.Context
import Driver.Digest
import Driver.Util

namespace Driver.ContextStr
open Py Driver Driver.Digest Driver.Context Model.Handler Model.Verify Model.Context Model.ContextStr

def parseSecret (s : String) : Option Secret :=
  if s.startsWith "b=" then (unhex (s.drop 2).toString).map Secret.bytes
  else if s.startsWith "t=" then (natList (s.drop 2).toString).map Secret.text
  else none

def tf (b : Bool) : String := if b then "1" else "0"

def runQuery (c : Cfg) (q : String) : String :=
  match q.splitOn ":" with
  | ["over"] => "ok " ++ tf (cfgOver c)
  | ["saltok", name, salt] => match natList salt with
    | some s => "ok " ++ tf (saltOK name s) | none => bad
  | ["identify", hs] => match natList hs with
    | some hs => showRes id (identifyStr c hs) | none => bad
  | ["needs", cat, hs] => match natList hs with
    | some hs => showRes tf (needsUpdateStr c hs (catOf cat)) | none => bad
  | ["verify", sec, hs] => match parseSecret sec, natList hs with
    | some s, some hs => showRes (fun b => if b then "True" else "False") (verifyStr c s hs) | _, _ => bad
  | ["hash", cat, draw, fv, salt, sec] => match draw.toNat?, fv.toInt?, natList salt, parseSecret sec with
    | some d, some f, some salt, some s => showRes showNatList (hashWith c (catOf cat) d f salt s) | _, _, _, _ => bad
  | ["vau", cat, draw, fv, salt, sec, hs] => match draw.toNat?, fv.toInt?, natList salt, parseSecret sec, natList hs with
    | some d, some f, some salt, some s, some hs =>
      showRes (fun o => match o with
        | (false, _) => "F N" | (true, none) => "T N" | (true, some new) => "T " ++ showNatList new)
        (vauStr c (catOf cat) d f salt s hs)
    | _, _, _, _, _ => bad
  | _ => bad

def handle (args : List String) : String :=
  match args with
  | schemes :: defaults :: deps :: opts :: queries =>
    match (if schemes = "-" then some [] else (schemes.splitOn ";").mapM schemeOf), defaultsOf defaults, depsOf deps, optsOf opts with
    | some ss, some ds, some dp, some os =>
      let c : Cfg := ⟨ss, ds, dp, os⟩
      " | ".intercalate (queries.map (runQuery c))
    | _, _, _, _ => bad
  | _ => bad

end Driver.ContextStr
