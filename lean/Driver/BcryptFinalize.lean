/-
  Line protocol for bcrypt's backend capability detection (C03, Model/BcryptFinalize.lean), suite `bfin`:

    bfin vectors                                   the 16 probes in source order:  <name>=<secret>/<hash>;…   (t:<code points> | b:<hex>)
    bfin run   <os_crypt 0|1> <attrs> <answers>    _finalize_backend_mixin on a class with the given attributes
    bfin first <os_crypt 0|1> <answers>            the same on the declared attributes (`finalize`): "ok <flags>" | "err <how>"
    bfin builtin                                   the 16 answers (letters, as below) of the MODELLED bcrypt hasher on the builtin backend
                                                   (`Model.VerifyFmt.DesBcrypt.bcVerify (bcryptHasher false)`, compiled evaluation) and what
                                                   `finalize` makes of them:  <answers> <ok flags | err how>

      attrs   : <initialized><wraparound><lacks20><lacks2y><lacks2b>:<fallback ident cps>      e.g. 00000:36,50,97,36
      answers : 16 characters, what verify() does on probe k (source order t20 t2a bug8a ok8a bugWa okWa t2y bug8y ok8y bugWy okWy
                t2b bug8b ok8b bugWb okWb):  T F (truth value returned) | V ValueError | M MissingBackendError | I InternalBackendError
                | N NotImplementedError | Y TypeError | R RuntimeError | O any other exception
      answer of run : "<ret> <attrs> <warned 0|1>",  ret = True | Security:<ident cps> | Runtime:<why> | Through:<exception>
-/
import PasslibVerif.Model.BcryptFinalize
import PasslibVerif.Model.VerifyFmt.DesBcrypt
import Driver.Util

namespace Driver.BcryptFinalize
open Py Driver Model.BcryptFinalize
open Model.Verify (Secret)
open Model.Code.Wrap (Flags)

def bit (b : Bool) : String := if b then "1" else "0"

def parseBool (s : String) : Option Bool :=
  if s = "1" then some true else if s = "0" then some false else none

def showAttrs (a : Attrs) : String :=
  bit a.initialized ++ bit a.flags.has2aWraparoundBug ++ bit a.flags.lacks20Support ++ bit a.flags.lacks2ySupport ++ bit a.flags.lacks2bSupport
    ++ ":" ++ showNatList a.flags.fallbackIdent

def parseAttrs (s : String) : Option Attrs :=
  match s.splitOn ":" with
  | [bits, fb] =>
    match bits.toList.map (fun c => parseBool (String.singleton c)), natList fb with
    | [some i, some a, some b, some c, some d], some fb => some ⟨i, ⟨a, b, c, d, fb⟩⟩
    | _, _ => none
  | _ => none

def parseAnswer (c : Char) : Option (Except Exc Bool) :=
  match c with
  | 'T' => some (.ok true) | 'F' => some (.ok false)
  | 'V' => some (.error .valueError) | 'M' => some (.error .missingBackend) | 'I' => some (.error .internalBackend)
  | 'N' => some (.error .notImplemented) | 'Y' => some (.error .typeError) | 'R' => some (.error .runtimeError)
  | 'O' => some (.error (.other 7))
  | _ => none

def parseBackend (s : String) : Option Backend :=
  match s.toList.mapM parseAnswer with
  | some l => if l.length = 16 then some (tableBackend (Probe.all.zip l)) else none
  | none => none

def showWhy : Why → String
  | .rejected20 => "rejected20" | .lacks2a => "lacks2a" | .rejected2a => "rejected2a" | .rejected2y => "rejected2y"
  | .rejected2b => "rejected2b" | .failed8bit i => "failed8bit:" ++ showNatList i | .failedWrap i => "failedWrap:" ++ showNatList i
  | .unexpectedWrap i => "unexpectedWrap:" ++ showNatList i

def showFail : Fail → String
  | .security i => "Security:" ++ showNatList i
  | .runtime w => "Runtime:" ++ showWhy w
  | .through e => "Through:" ++ e.name

def showSecret : Secret → String
  | .text t => "t:" ++ showNatList t
  | .bytes b => "b:" ++ showHex b

def probeName : Probe → String
  | .t20 => "t20" | .t2a => "t2a" | .bug8a => "bug8a" | .ok8a => "ok8a" | .bugWa => "bugWa" | .okWa => "okWa"
  | .t2y => "t2y" | .bug8y => "bug8y" | .ok8y => "ok8y" | .bugWy => "bugWy" | .okWy => "okWy"
  | .t2b => "t2b" | .bug8b => "bug8b" | .ok8b => "ok8b" | .bugWb => "bugWb" | .okWb => "okWb"

/-- the modelled bcrypt hasher (builtin backend) as a backend under test -/
def modelBuiltin : Backend := fun s h =>
  let hs : List Nat := match h with | .text t => t | .bytes b => b
  match Model.VerifyFmt.DesBcrypt.bcVerify (Model.VerifyFmt.DesBcrypt.bcryptHasher false) s hs with
  | .ok r => .ok r
  | .error .valueError | .error .sizeError | .error .truncateError | .error .nullError | .error .unknownHash => .error .valueError
  | .error .missingBackend => .error .missingBackend
  | .error .runtimeError => .error .runtimeError
  | .error .notImplemented => .error .notImplemented
  | .error .typeError => .error .typeError
  | .error _ => .error (.other 7)

def showAnswer : Except Exc Bool → String
  | .ok true => "T" | .ok false => "F"
  | .error .valueError => "V" | .error .missingBackend => "M" | .error .internalBackend => "I"
  | .error .notImplemented => "N" | .error .typeError => "Y" | .error .runtimeError => "R" | .error (.other _) => "O"

def showFirst (r : Except Fail Flags) : String :=
  match r with
  | .ok fl => "ok " ++ showAttrs ⟨true, fl⟩
  | .error f => "err " ++ showFail f

def handle (args : List String) : String :=
  match args with
  | ["builtin"] =>
    let answers := Probe.all.map fun p => (p, ask modelBuiltin p)
    "".intercalate (answers.map fun a => showAnswer a.2) ++ " " ++ showFirst (finalize (tableBackend answers) false)
  | ["vectors"] => ";".intercalate (Probe.all.map fun p => probeName p ++ "=" ++ showSecret p.secret ++ "/" ++ showSecret p.hash)
  | ["run", os, attrs, ans] => match parseBool os, parseAttrs attrs, parseBackend ans with
    | some os, some a, some B =>
      let o := finalizeFrom B os false a
      (match o.raised with | none => "True" | some f => showFail f) ++ " " ++ showAttrs o.attrs ++ " " ++ bit o.warned
    | _, _, _ => bad
  | ["first", os, ans] => match parseBool os, parseBackend ans with
    | some os, some B =>
      (match finalize B os with
       | .ok fl => "ok " ++ showAttrs ⟨true, fl⟩
       | .error f => "err " ++ showFail f)
    | _, _ => bad
  | _ => bad

end Driver.BcryptFinalize
