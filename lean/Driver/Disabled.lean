import Driver.Util
import PasslibVerif.Model.Disabled
namespace Driver.Disabled
open Py Driver Model.Disabled

def schemeOf (s : String) : Option Scheme :=
  match s.splitOn "." with
  | ["unix", m] => (natList m).map unixScheme
  | ["django"] => some djangoScheme
  | ["plain", name] => some ⟨name, .normal, fun _ => true, fun _ _ => .error .notImplemented⟩
  | ["id", name, pfx] => (natList pfx).map fun p => ⟨name, .normal, fun h => p.isPrefixOf h, fun _ _ => .error .notImplemented⟩
  | _ => none

def ctxOf (s : String) : Option (List Scheme) := (s.splitOn "+").mapM schemeOf

def optStr (s : String) : Option (Option Str) := if s = "none" then some none else (natList s).map some

def handle (args : List String) : String :=
  match args with
  | ["identify", c, h] => match ctxOf c, natList h with
    | some c, some h => showRes (·.name) (identifyRecord c h) | _, _ => bad
  | ["isenabled", c, h] => match ctxOf c, natList h with
    | some c, some h => showRes (fun b => if b then "1" else "0") (isEnabled c h) | _, _ => bad
  | ["disable", c, sfx, h] => match ctxOf c, natList sfx, optStr h with
    | some c, some sfx, some h => showRes showNatList (ctxDisable c sfx h) | _, _, _ => bad
  | ["enable", c, h] => match ctxOf c, natList h with
    | some c, some h => showRes showNatList (ctxEnable c h) | _, _ => bad
  | ["verify", c, p, h] => match ctxOf c, natList p, optStr h with
    | some c, some p, some h =>
      (match ctxVerify c p h with
        | .ok (b, ev) => "ok " ++ (if b then "1" else "0") ++ " dummy=" ++ toString ev.length
        | .error .notImplemented => "unmodelled"
        | .error e => "err " ++ e.name)
    | _, _, _ => bad
  | _ => bad

end Driver.Disabled
