import Driver.Util
import PasslibVerif.Model.Saslprep
import PasslibVerif.Spec.Saslprep
/-
suite `sasl` (texts are comma separated decimal code points, "-" = empty):
  sasl prep <source> <NFKC(mapped source), computed by the harness>   -> ok <cps> | err <kind>     Model.Saslprep.saslprep
  sasl spec <source> <NFKC(mapped source)>                            -> …                         Spec.Saslprep.saslprep
  sasl specalt <source> <NFKC(alt-mapped source)>                     -> …                         Spec.Saslprep.saslprepAlt
  sasl map <source>        -> ok <cps>    the model's mapping stage alone
  sasl specmap <source>    -> ok <cps>    the spec's mapping step alone
  sasl intable <name> <cp> -> ok True|False   (name = attribute of `stringprep`)
The external `unicodedata.normalize` is the constant function returning the supplied text.
-/
namespace Driver.Saslprep
open Py Driver

open Model.Saslprep (rfcTables)

def showCps : Res (List Nat) → String := showRes showNatList

def handle (args : List String) : String :=
  match args with
  | ["prep", s, n] => match natList s, natList n with
      | some s, some n => showCps (Model.Saslprep.saslprep (fun _ => n) s) | _, _ => bad
  | ["spec", s, n] => match natList s, natList n with
      | some s, some n => showCps (Spec.Saslprep.saslprep rfcTables (fun _ => n) s) | _, _ => bad
  | ["specalt", s, n] => match natList s, natList n with
      | some s, some n => showCps (Spec.Saslprep.saslprepAlt rfcTables (fun _ => n) s) | _, _ => bad
  | ["map", s] => match natList s with
      | some s => "ok " ++ showNatList (Model.Saslprep.mapStage s) | none => bad
  | ["specmap", s] => match natList s with
      | some s => "ok " ++ showNatList (s.flatMap (Spec.Saslprep.mapChar rfcTables)) | none => bad
  | ["intable", name, c] => match c.toNat? with
      | some c =>
        if (Gen.Saslprep.tables.lookup name).isSome then
          "ok " ++ (if Model.Saslprep.inTable (Model.Saslprep.tableOf name) c then "True" else "False")
        else "err AttributeError"
      | none => bad
  | _ => bad

end Driver.Saslprep
