/-
  Line protocol for md5-crypt / sha256-crypt / sha512-crypt:

    ["model", variant, hexpwd, hexsalt, rounds]  -> passlib's optimised code (Model.ShaCrypt) over the Spec digests
    ["spec",  variant, hexpwd, hexsalt, rounds]  -> the published algorithm (Spec.ShaCrypt / Spec.Md5Crypt)
    ["repeat", hexsrc, n]                        -> repeat_string

  variant ∈ sha256 sha512 lp256 lp512 md5 apr; the answer is "ok <hex of the checksum characters>".
-/
import PasslibVerif.Model.ShaCrypt
import PasslibVerif.Spec.ShaCrypt
import PasslibVerif.Spec.SHA256
import PasslibVerif.Spec.SHA512
import PasslibVerif.Spec.MD5
import Driver.Digest
import Driver.Util

namespace Driver.ShaCrypt
open Py Driver.Digest

def model (v : String) (pwd salt : List Nat) (rounds : Nat) : Option (Res Bytes) :=
  match v with
  | "sha256" => some (Model.ShaCrypt.rawSha256 Spec.SHA256.sha256 pwd salt rounds)
  | "sha512" => some (Model.ShaCrypt.rawSha512 Spec.SHA512.sha512 pwd salt rounds)
  | "lp256" => some (Model.ShaCrypt.lpSha256 Spec.SHA256.sha256 pwd salt rounds)
  | "lp512" => some (Model.ShaCrypt.lpSha512 Spec.SHA512.sha512 pwd salt rounds)
  | "md5" => some (Model.ShaCrypt.rawMd5 Spec.MD5.md5 false pwd salt)
  | "apr" => some (Model.ShaCrypt.rawMd5 Spec.MD5.md5 true pwd salt)
  | _ => none

def spec (v : String) (pwd salt : List Nat) (rounds : Nat) : Option (List Nat) :=
  match v with
  | "sha256" | "lp256" => some (Spec.ShaCrypt.sha256Crypt Spec.SHA256.sha256 pwd salt rounds)
  | "sha512" | "lp512" => some (Spec.ShaCrypt.sha512Crypt Spec.SHA512.sha512 pwd salt rounds)
  | "md5" => some (Spec.Md5Crypt.md5Crypt Spec.MD5.md5 [36, 49, 36] pwd salt)
  | "apr" => some (Spec.Md5Crypt.md5Crypt Spec.MD5.md5 [36, 97, 112, 114, 49, 36] pwd salt)
  | _ => none

def handle (args : List String) : String :=
  match args with
  | ["model", v, p, s, r] =>
    match unhex p, unhex s, r.toNat? with
    | some p, some s, some r => match model v p s r with
      | some res => showRes hex res
      | none => bad
    | _, _, _ => bad
  | ["spec", v, p, s, r] =>
    match unhex p, unhex s, r.toNat? with
    | some p, some s, some r => match spec v p s r with
      | some res => "ok " ++ hex res
      | none => bad
    | _, _, _ => bad
  | ["repeat", src, n] =>
    match unhex src, n.toNat? with
    | some src, some n => if src.isEmpty then "err ZeroDivisionError" else "ok " ++ hex (Model.ShaCrypt.repeatString src n)
    | _, _ => bad
  | _ => bad

end Driver.ShaCrypt
