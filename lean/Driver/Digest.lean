/-
  Line-protocol front end for the executable digest specifications.

    [alg, hexmsg]                                     -> "ok <hex digest>"
    ["hmac",   alg, hexkey, hexmsg]                   -> "ok <hex mac>"
    ["pbkdf2", alg, hexpwd, hexsalt, rounds, keylen]  -> "ok <hex key>"
    ["pbkdf1", alg, hexpwd, hexsalt, rounds, keylen]  -> "ok <hex key>"
    anything else                                     -> "bad-op"

  alg ∈ md4 md5 sha1 sha224 sha256 sha384 sha512; hex is lower-case, "-" is the empty string.
-/
import PasslibVerif.Spec.MD4
import PasslibVerif.Spec.MD5
import PasslibVerif.Spec.SHA1
import PasslibVerif.Spec.SHA256
import PasslibVerif.Spec.SHA512
import PasslibVerif.Spec.Hmac
import PasslibVerif.Spec.Pbkdf

namespace Driver.Digest

/-- Value of one lower-case hex digit (given as its ASCII code); 0xff if it is not one. -/
def hexVal (c : UInt8) : UInt8 :=
  if 0x30 ≤ c && c ≤ 0x39 then c - 0x30            -- '0' … '9'
  else if 0x61 ≤ c && c ≤ 0x66 then c - 0x61 + 10  -- 'a' … 'f'
  else 0xff

/-- Decode the first `2 * j` hex digits of `bs` (from the back, so the list comes out in order). -/
def unhexAux (bs : ByteArray) : Nat → List Nat → Option (List Nat)
  | 0, acc => some acc
  | j + 1, acc =>
      let h := hexVal (bs.get! (2 * j))
      let l := hexVal (bs.get! (2 * j + 1))
      if h < 16 && l < 16 then unhexAux bs j ((16 * h.toNat + l.toNat) :: acc) else none

/-- Decode a lower-case hex string; "-" denotes the empty byte string. -/
def unhex (s : String) : Option (List Nat) :=
  if s = "-" then some [] else
  let bs := s.toUTF8
  if bs.size = 0 || bs.size % 2 ≠ 0 then none else unhexAux bs (bs.size / 2) []

def hexDigit (n : Nat) : Char :=
  if n < 10 then Char.ofNat (0x30 + n) else Char.ofNat (0x61 + (n - 10))

/-- Lower-case hex encoding. -/
def hex (bs : List Nat) : String :=
  bs.foldl (fun s b => (s.push (hexDigit (b / 16 % 16))).push (hexDigit (b % 16))) ""

/-- A hash algorithm: the function, its block size B and its output size hLen (bytes). -/
structure Alg where
  H : List Nat → List Nat
  blockSize : Nat
  hLen : Nat

def lookup : String → Option Alg
  | "md4"    => some ⟨Spec.MD4.md4, 64, 16⟩
  | "md5"    => some ⟨Spec.MD5.md5, 64, 16⟩
  | "sha1"   => some ⟨Spec.SHA1.sha1, 64, 20⟩
  | "sha224" => some ⟨Spec.SHA256.sha224, 64, 28⟩
  | "sha256" => some ⟨Spec.SHA256.sha256, 64, 32⟩
  | "sha384" => some ⟨Spec.SHA512.sha384, 128, 48⟩
  | "sha512" => some ⟨Spec.SHA512.sha512, 128, 64⟩
  | _ => none

def ok (bs : List Nat) : String := "ok " ++ hex bs

def handle (args : List String) : String :=
  let r : Option String :=
    match args with
    | ["hmac", alg, k, m] => do
        let a ← lookup alg
        let k ← unhex k
        let m ← unhex m
        pure (ok (Spec.Hmac.hmac a.H a.blockSize k m))
    | ["pbkdf2", alg, p, s, rounds, keylen] => do
        let a ← lookup alg
        let p ← unhex p
        let s ← unhex s
        let c ← rounds.toNat?
        let n ← keylen.toNat?
        pure (ok (Spec.Pbkdf.pbkdf2 a.H a.blockSize a.hLen p s c n))
    | ["pbkdf1", alg, p, s, rounds, keylen] => do
        let a ← lookup alg
        let p ← unhex p
        let s ← unhex s
        let c ← rounds.toNat?
        let n ← keylen.toNat?
        pure (ok (Spec.Pbkdf.pbkdf1 a.H p s c n))
    | [alg, m] => do
        let a ← lookup alg
        let m ← unhex m
        pure (ok (a.H m))
    | _ => none
  r.getD "bad-op"

#guard handle ["sha256", "616263"] = "ok ba7816bf8f01cfea414140de5dae2223b00361a396177a9cb410ff61f20015ad"
#guard handle ["md5", "-"] = "ok d41d8cd98f00b204e9800998ecf8427e"
#guard handle ["hmac", "md5", "4a656665", "7768617420646f2079612077616e7420666f72206e6f7468696e673f"] =
  "ok 750c783e6ab0b503eaa86e310a5db738"
#guard handle ["pbkdf2", "sha1", "70617373776f7264", "73616c74", "2", "20"] =
  "ok ea6c014dc72d6f8ccd1ed92ace1d41f0d8de8957"
#guard handle ["sha256", "6162F3"] = "bad-op"
#guard handle ["sha256", "616"] = "bad-op"
#guard handle ["sha3", "61"] = "bad-op"
#guard handle ["sha256"] = "bad-op"

end Driver.Digest
