import Driver.Util
import PasslibVerif.Model.Context
namespace Driver.Context
open Py Driver Model.Rounds Model.Context

def catOf (s : String) : Cat := if s = "-" then none else some s

def optI (s : String) : Option (Option Int) := if s = "N" then some none else s.toInt?.map some

def schemeOf (s : String) : Option SchemeInfo :=
  match s.splitOn "/" with
  | [name, base, allowed, dis] =>
    let al := if allowed = "-" then [] else allowed.splitOn ","
    if base = "N" then some ⟨name, none, al, dis = "1"⟩
    else match base.splitOn "," with
      | [hm, hx, df, odd] => do
        let hm ← hm.toInt?
        let hx ← optI hx
        let df ← optI df
        pure ⟨name, some ⟨hm, hx, none, none, df, .none, odd = "1"⟩, al, dis = "1"⟩
      | _ => none
  | _ => none

def valOf (s : String) : Option OptVal :=
  if s = "o" then some .other
  else if s = "vf" then some (.vary .float)
  else if s.startsWith "v" then (s.drop 1).toString.toInt?.map (fun v => .vary (.int v))
  else if s.startsWith "i" then (s.drop 1).toString.toInt?.map (fun v => .rounds (.int v))
  else if s.startsWith "s:" then (natList ((s.drop 2).toString.replace "." ",")).map (fun l => .rounds (.str l))
  else none

def kvOf (s : String) : Option (String × OptVal) :=
  match s.splitOn "=" with
  | [k, v] => (valOf v).map (fun v => (k, v))
  | _ => none

def optsOf (s : String) : Option (List ((String × Cat) × List (String × OptVal))) :=
  if s = "-" then some [] else
  (s.splitOn ";").mapM fun e =>
    match e.splitOn ":" with
    | [sc, kvs] => match sc.splitOn "@" with
      | [scheme, cat] => ((kvs.splitOn ",").mapM kvOf).map (fun l => ((scheme, catOf cat), l))
      | _ => none
    | _ => none

def defaultsOf (s : String) : Option (List (Cat × String)) :=
  if s = "-" then some [] else
  (s.splitOn ",").mapM fun e => match e.splitOn "=" with | [c, v] => some (catOf c, v) | _ => none

def depsOf (s : String) : Option (List (Cat × List String)) :=
  if s = "-" then some [] else
  (s.splitOn ";").mapM fun e => match e.splitOn "=" with
    | [c, v] => some (catOf c, if v = "" then [] else v.splitOn "+") | _ => none

def showO : Option Int → String | none => "N" | some v => toString v
def showV : Vary → String | .none => "N" | .int v => toString v | .float => "f"

def showRec (r : Record) : String :=
  (match r.cls with
    | none => "norounds"
    | some c => s!"{showO c.minDesired} {showO c.maxDesired} {showO c.defaultRounds} {showV c.vary}") ++
  (if r.deprecated then " dep" else " nodep")

def factsOf (claims rounds flag ver : String) : Option HashFacts := do
  let r ← optI rounds
  let cl := if claims = "-" then [] else claims.splitOn "+"
  pure ⟨fun s => cl.contains s, r, flag = "1", if ver = "E" then .error .valueError else .ok (ver = "1")⟩

def findScheme (c : Cfg) (n : String) : Option SchemeInfo := c.schemes.find? (·.name = n)

def runQuery (c : Cfg) (q : String) : String :=
  match q.splitOn ":" with
  | ["validate"] => showRes (fun _ => "valid") (validate c)
  | ["cats"] => "ok " ++ ",".intercalate (categories c)
  | ["default", cat] => showRes id (defaultScheme c (catOf cat))
  | ["dep", s, cat] => "ok " ++ (if (isDeprecatedWithFlag c s (catOf cat)).1 then "1" else "0")
  | ["rec", s, cat] => match findScheme c s with
    | some si => showRes showRec (getRecord c si (catOf cat))
    | none => "err KeyError"
  | ["identify", claims] => match factsOf claims "N" "0" "0" with
    | some h => showRes (·.name) (identify c h) | none => bad
  | ["needs", cat, claims, rounds, flag] => match factsOf claims rounds flag "0" with
    | some h => showRes (fun b => if b then "1" else "0") (needsUpdateCtx c h (catOf cat)) | none => bad
  | ["hash", cat, draw, fv] => match draw.toNat?, fv.toInt? with
    | some d, some f => showRes (fun p => p.1 ++ " " ++ showO p.2) (hashCtx c (catOf cat) d f) | _, _ => bad
  | ["vau", cat, claims, rounds, flag, ver, draw, fv] =>
    match factsOf claims rounds flag ver, draw.toNat?, fv.toInt? with
    | some h, some d, some f => showRes (fun o => match o with
        | .fail => "F N" | .ok => "T N" | .rehash s r => "T " ++ s ++ " " ++ showO r) (verifyAndUpdate c h (catOf cat) d f)
    | _, _, _ => bad
  | _ => bad

def handle (args : List String) : String :=
  match args with
  | schemes :: defaults :: deps :: opts :: queries =>
    match (if schemes = "-" then some [] else (schemes.splitOn ";").mapM schemeOf), defaultsOf defaults, depsOf deps, optsOf opts with
    | some ss, some ds, some dp, some os =>
      let c : Cfg := ⟨ss, ds, dp, os⟩
      " | ".intercalate (queries.map (runQuery c))
    | _, _, _, _ => bad
  | _ => bad

end Driver.Context
