import Driver.Util
import PasslibVerif.Model.Totp
import PasslibVerif.Model.TotpKey
import PasslibVerif.Model.Hmac
import PasslibVerif.Spec.SHA1
import PasslibVerif.Spec.SHA256
import PasslibVerif.Spec.SHA512
namespace Driver.Totp
open Py Driver Model.Totp Model.TotpKey

def intOf (s : String) : Option Int := s.toInt?

def tokOf (s : String) : Option TokIn :=
  if s.startsWith "i:" then (intOf (s.drop 2).toString).map TokIn.int
  else if s.startsWith "t:" then (natList (s.drop 2).toString).map TokIn.text
  else none

def lastOf (s : String) : Option (Option Int) :=
  if s = "none" then some none else (intOf s).map some

/-- table-driven generator: token of counter c is table[c % len] (code points) -/
def tableGen (table : List (List Nat)) (c : Nat) : List Nat :=
  if table.isEmpty then [] else table.getD (c % table.length) []

def tableOf (s : String) : Option (List (List Nat)) :=
  (s.splitOn "|").mapM fun t => if t = "" then some [] else some (t.toList.map Char.toNat)

def showMatch (m : MatchOut) : String :=
  s!"{m.counter} {m.time} {m.expectedCounter} {m.skipped} {m.expireTime} {m.cacheSeconds} {m.cacheTime}"

def attemptOf (s : String) : Option Attempt :=
  match s.splitOn "/" with
  | [tok, t, w, sk] => do
      let tok ← tokOf tok
      let t ← intOf t
      let w ← intOf w
      let sk ← intOf sk
      pure ⟨tok, t, w, sk⟩
  | _ => none

def handle (args : List String) : String :=
  match args with
  | ["match", digits, period, table, tok, time, window, skew, last] =>
    match digits.toNat?, intOf period, tableOf table, tokOf tok, intOf time, intOf window, intOf skew, lastOf last with
    | some d, some p, some tb, some tk, some t, some w, some s, some l =>
        showRes showMatch (matchTok (tableGen tb) d p tk t w s l)
    | _, _, _, _, _, _, _, _ => bad
  | ["norm", digits, tok] =>
    match digits.toNat?, tokOf tok with
    | some d, some tk => showRes showNatList (normalizeToken d tk)
    | _, _ => bad
  | ["hist", digits, period, table, attempts] =>
    match digits.toNat?, intOf period, tableOf table, (attempts.splitOn ";").mapM attemptOf with
    | some d, some p, some tb, some as =>
        let r := runHistory (tableGen tb) d p as none
        "ok " ++ (if r.isEmpty then "-" else ",".intercalate (r.map toString))
    | _, _, _, _ => bad
  | ["dt", digest, digits] =>
    match ofHex digest, digits.toNat? with
    | some dg, some d =>
      (match hotpValue dg with
        | some v => "ok " ++ String.ofList ((renderToken d v).map fun x => Char.ofNat (48 + x))
        | none => "err struct.error")
    | _, _ => bad
  | ["counter", time, period] =>
    match intOf time, intOf period with
    | some t, some p => s!"ok {Gen.Totp.timeToCounter t p} {Gen.Totp.tokenStartTime (Gen.Totp.timeToCounter t p) p} {Gen.Totp.tokenExpireTime (Gen.Totp.timeToCounter t p) p}"
    | _, _ => bad
  | ["pack64", c] => match c.toNat? with | some c => "ok " ++ showHex (packUint64 c) | none => bad
  | ["fmt", w, n] => match w.toNat?, intOf n with
    | some w, some n => "ok " ++ String.ofList ((fmtZeroPad w n).map Char.ofNat) | _, _ => bad
  | ["key", fmt, cps] =>
    match (match fmt with | "hex" => some Fmt.hex | "base32" => some Fmt.base32 | _ => none), natList cps with
    | some f, some k => showBytesRes (decodeKey f k)
    | _, _ => bad
  | ["hexkey", h] => match ofHex h with
    | some k => "ok " ++ String.ofList ((hexKey k).map Char.ofNat) | none => bad
  | ["b32key", h] => match ofHex h with
    | some k => "ok " ++ String.ofList ((base32Key k).map Char.ofNat) | none => bad
  | ["token", alg, key, digits, counter] =>
    match ofHex key, digits.toNat?, counter.toNat? with
    | some k, some d, some c =>
      let mac : Option (Bytes → Bytes) := match alg with
        | "sha1" => some (Model.Hmac.compileHmac Spec.SHA1.sha1 64 20 k)
        | "sha256" => some (Model.Hmac.compileHmac Spec.SHA256.sha256 64 32 k)
        | "sha512" => some (Model.Hmac.compileHmac Spec.SHA512.sha512 128 64 k)
        | _ => none
      (match mac with
        | none => bad
        | some m => match generate m d c with
          | some t => "ok " ++ String.ofList (t.map Char.ofNat)
          | none => "err struct.error")
    | _, _, _ => bad
  | _ => bad

end Driver.Totp
