import PasslibVerif.Spec.Bcrypt
import PasslibVerif.Model.Blowfish
import PasslibVerif.Py.Basic
/-
Line-protocol handler for the Blowfish / bcrypt suite (word `bf` of the compiled `modeldrv`).
  raw     hexpwd ident salt22 logrounds -> ok <31-char checksum> | err <message>   Model.Blowfish.rawBcrypt, unrolled engine
  rawbase hexpwd ident salt22 logrounds -> same with base.py's loop `encipher` / `expand`
  spec    hexpwd ident salt22 logrounds -> ok <31-char checksum>   Spec.Bcrypt.bcrypt (salt/ident decoded here)
  enc     l r                           -> ok <l'> <r'>            unrolled `encipher` on a fresh engine
  encbase l r / encspec l r             -> same via base.py loop / Spec.Bcrypt.encipher
  words   hexdata                       -> ok <18 words, comma separated>  key_to_words
`hexpwd` is hex ("-" = empty); `salt22` is bcrypt-base64 text; integers are decimal.
-/
namespace Driver.Blowfish
open Py

def bad : String := "bad-op"

def asciiOf (bs : List Nat) : String := String.ofList (bs.map Char.ofNat)

def showE (r : Except String (List Nat)) : String :=
  match r with
  | .ok bs => "ok " ++ asciiOf bs
  | .error e => "err " ++ e

def specHash (pwd : List Nat) (ident : String) (salt : List Nat) (cost : Nat) : String :=
  match Model.B64.decodeBytes Model.B64.bcrypt64 salt with
  | .error _ => bad
  | .ok raw =>
    if raw.length < 16 ∨ cost < 4 ∨ cost > 31 then bad
    else if ident = "2" ∨ ident = "2a" ∨ ident = "2b" ∨ ident = "2y" then
      let d := Spec.Bcrypt.bcrypt (ident != "2") cost (raw.take 16) pwd
      "ok " ++ asciiOf (Model.B64.encodeBytes Model.B64.bcrypt64 d)
    else bad

def handle (args : List String) : String :=
  match args with
  | ["raw", p, ident, salt, lr] =>
    match ofHex p, lr.toNat? with
    | some p, some lr => showE (Model.Blowfish.rawBcrypt .unrolled p ident (salt.toList.map Char.toNat) lr)
    | _, _ => bad
  | ["rawbase", p, ident, salt, lr] =>
    match ofHex p, lr.toNat? with
    | some p, some lr => showE (Model.Blowfish.rawBcrypt .base p ident (salt.toList.map Char.toNat) lr)
    | _, _ => bad
  | ["spec", p, ident, salt, lr] =>
    match ofHex p, lr.toNat? with
    | some p, some lr => specHash p ident (salt.toList.map Char.toNat) lr
    | _, _ => bad
  | ["enc", l, r] =>
    match l.toNat?, r.toNat? with
    | some l, some r => let c := Model.Blowfish.encipher .unrolled Model.Blowfish.Engine.init l r; s!"ok {c.1} {c.2}"
    | _, _ => bad
  | ["encbase", l, r] =>
    match l.toNat?, r.toNat? with
    | some l, some r => let c := Model.Blowfish.encipher .base Model.Blowfish.Engine.init l r; s!"ok {c.1} {c.2}"
    | _, _ => bad
  | ["encspec", l, r] =>
    match l.toNat?, r.toNat? with
    | some l, some r => let c := Spec.Bcrypt.encipher Spec.Bcrypt.initState (l, r); s!"ok {c.1} {c.2}"
    | _, _ => bad
  | ["words", d] =>
    match ofHex d with
    | some d => "ok " ++ ",".intercalate ((Model.Blowfish.keyToWords d).map toString)
    | none => bad
  | _ => bad

end Driver.Blowfish
