import Driver.Util
import PasslibVerif.Model.Formats.Md5Sha2
import PasslibVerif.Model.Formats.Static
import PasslibVerif.Model.Formats.DesBcrypt
import PasslibVerif.Model.Formats.Pbkdf
namespace Driver.Formats
open Py Driver Model.Handler Model.Formats

def showOptStr : Option Str → String | none => "N" | some s => showNatList s
def showOptInt : Option Int → String | none => "N" | some v => toString v

/-- canonical dump: `ident rounds salt checksum k=v,…` -/
def showParsed (p : Parsed) : String :=
  s!"{showNatList p.ident} {showOptInt p.rounds} {showOptStr p.salt} {showOptStr p.checksum} " ++
  (if p.extra.isEmpty then "-" else ";".intercalate (p.extra.map fun kv => kv.1 ++ "=" ++ showNatList kv.2))

def formats : List Format := Model.Formats.all ++ Model.Formats.staticAll ++ Model.Formats.desBcryptAll ++ Model.Formats.pbkdfAll

/-- formats modelled with exact error classes (TypeError of `b64s_decode` / of rendering without checksum) -/
def formatsX : List FormatX := Model.Formats.pbkdfAllX

def handle (args : List String) : String :=
  match args with
  | ["parse", name, h] => match formatsX.find? (·.name = name), natList h with
    | some f, some h => showRes showParsed (f.parseX h)
    | _, _ => match formats.find? (·.name = name), natList h with
    | some f, some h => showRes showParsed (toRes (f.parse h)) | _, _ => bad
  | ["reparse", name, h] => match formatsX.find? (·.name = name), natList h with
    | some f, some h => showRes showNatList ((f.parseX h).bind f.renderX)
    | _, _ => match formats.find? (·.name = name), natList h with
    | some f, some h => showRes (fun p => showNatList (f.render p)) (toRes (f.parse h)) | _, _ => bad
  | ["identify", name, h] => match formats.find? (·.name = name), natList h with
    | some f, some h => "ok " ++ (if f.identify h then "1" else "0") | _, _ => bad
  | _ => bad

end Driver.Formats
