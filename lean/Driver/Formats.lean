import Driver.Util
import PasslibVerif.Model.Formats.Md5Sha2
import PasslibVerif.Model.Formats.Static
import PasslibVerif.Model.Formats.DesBcrypt
import PasslibVerif.Model.Formats.Pbkdf
import PasslibVerif.Model.Formats.Misc
namespace Driver.Formats
open Py Driver Model.Handler Model.Formats

def showOptStr : Option Str → String | none => "N" | some s => showNatList s
def showOptInt : Option Int → String | none => "N" | some v => toString v

/-- canonical dump: `ident rounds salt checksum k=v,…` -/
def showParsed (p : Parsed) : String :=
  s!"{showNatList p.ident} {showOptInt p.rounds} {showOptStr p.salt} {showOptStr p.checksum} " ++
  (if p.extra.isEmpty then "-" else ";".intercalate (p.extra.map fun kv => kv.1 ++ "=" ++ showNatList kv.2))

def formats : List Format := Model.Formats.all ++ Model.Formats.staticAll ++ Model.Formats.desBcryptAll ++ Model.Formats.pbkdfAll ++ Model.Formats.miscAll

/-- formats modelled with exact error classes (TypeError of `b64s_decode` / of rendering without checksum) -/
def formatsX : List FormatX := Model.Formats.pbkdfAllX

/-- formats with error kinds / a `None` outcome (Misc family) -/
def formatsE : List FormatE := Model.Formats.miscAllE

def inDomain (name : String) (h : Str) : Bool :=
  match miscDomain.find? (·.1 = name) with | some (_, p) => p h | none => true

def showOptParsed : Option Parsed → String | some p => showParsed p | none => "None"

def handleE (f : FormatE) (op : String) (h : Str) : String :=
  if !inDomain f.name h then "unmodelled"
  else match op with
  | "parse" => showRes showOptParsed (f.parseE h)
  | "reparse" => match f.parseE h with
    | .ok (some p) => showRes showNatList (f.renderE p)
    | .ok none => "ok None"
    | .error e => "err " ++ e.name
  | "identify" => "ok " ++ (if f.identify h then "1" else "0")
  | _ => bad

def handleX (f : FormatX) (op : String) (h : Str) : String :=
  match op with
  | "parse" => showRes showParsed (f.parseX h)
  | "reparse" => showRes showNatList ((f.parseX h).bind f.renderX)
  | "identify" => "ok " ++ (if f.identify h then "1" else "0")
  | _ => bad

def handle (args : List String) : String :=
  match args with
  | ["a2b", h] => match natList h with
    | some h => (match a2b h with | some b => "ok " ++ showNatList b | none => "err ValueError") | none => bad
  | [op, name, h] =>
    match natList h with
    | none => bad
    | some h =>
      match formatsE.find? (·.name = name) with
      | some f => handleE f op h
      | none =>
        match formatsX.find? (·.name = name) with
        | some f => handleX f op h
        | none =>
          match formats.find? (·.name = name) with
          | none => bad
          | some f =>
            match op with
            | "parse" => showRes showParsed (toRes (f.parse h))
            | "reparse" => showRes (fun p => showNatList (f.render p)) (toRes (f.parse h))
            | "identify" => "ok " ++ (if f.identify h then "1" else "0")
            | _ => bad
  | _ => bad

end Driver.Formats
