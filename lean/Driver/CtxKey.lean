import Driver.Util
import PasslibVerif.Model.CtxKey
namespace Driver.CtxKey
open Py Driver Model.CtxKey

def showOpt : Option Str → String | none => "N" | some s => showNatList s

def handle (args : List String) : String :=
  match args with
  | ["parse", k] => match natList k with
    | some k => showRes (fun (x : Key) => s!"{showOpt x.cat} {showOpt x.scheme} {showNatList x.option}") (parseKey k)
    | none => bad
  | ["render", c, s, o] =>
    let opt (x : String) : Option (Option Str) := if x = "N" then some none else (natList x).map some
    match opt c, opt s, natList o with
    | some c, some s, some o => "ok " ++ showNatList (renderKey ⟨c, s, o⟩)
    | _, _, _ => bad
  | _ => bad

end Driver.CtxKey
