import Driver.Util
import Driver.Apache
import PasslibVerif.Model.ApacheFile
/-
suite `afile`:  `afile run <digest 0|1> <vau table> <fs> <now> <ctor> <op>…`
  fs    : `-` or `path/hexcontent/mtime,…`
  ctor  : `N:<path|~>:<new 0|1>:<autosave 0|1>`
  ops   : S:u:r:h  D:u:r  R:r  C:u:p  LS:data  L:<path|~>  LC  N:<path|~>:new:autosave  SV:<path|~>  P:<path|~>  M  T
          EW:path:content:mtime  ER:path  ET:delta
answer : the answers of ctor and ops joined by " | ", then the final export, `_mtime`, and the final file system.
If the constructor raises, the history is not run (there is no object).
-/
namespace Driver.ApacheFile
open Py Driver Model.Apache Model.ApacheFile

def optPath (s : String) : Option (Option Path) := if s = "~" then some none else s.toNat?.map some
def flag (s : String) : Option Bool := if s = "1" then some true else if s = "0" then some false else none

def parseFS (s : String) : Option FS :=
  if s = "-" then some [] else
  (s.splitOn ",").mapM fun e =>
    match e.splitOn "/" with
    | [p, c, m] => do
      let p ← p.toNat?
      let c ← ofHex c
      let m ← m.toInt?
      pure (p, (⟨c, m⟩ : File))
    | _ => none

def parseOp (op : String) : Option Model.ApacheFile.Op :=
  match op.splitOn ":" with
  | ["S", u, r, h] => do pure (.setHash (← ofHex u) (← Driver.Apache.optHex r) (← ofHex h))
  | ["D", u, r] => do pure (.delete (← ofHex u) (← Driver.Apache.optHex r))
  | ["R", r] => do pure (.deleteRealm (← ofHex r))
  | ["C", u, p] => do pure (.check (← ofHex u) (← ofHex p))
  | ["LS", d] => do pure (.loadString (← ofHex d))
  | ["L", p] => do pure (.load (← optPath p))
  | ["LC"] => some .loadIfChanged
  | ["N", p, n, a] => do pure (.reopen (← optPath p) (← flag n) (← flag a))
  | ["SV", p] => do pure (.save (← optPath p))
  | ["P", p] => do pure (.setPath (← optPath p))
  | ["M"] => some .getMtime
  | ["T"] => some .export
  | ["EW", p, c, m] => do pure (.envWrite (← p.toNat?) (← ofHex c) (← m.toInt?))
  | ["ER", p] => do pure (.envRemove (← p.toNat?))
  | ["ET", d] => do pure (.envTick (← d.toInt?))
  | _ => none

def showAns : Ans → String
  | .unit => "ok"
  | .bool b => if b then "ok 1" else "ok 0"
  | .nat n => s!"ok {n}"
  | .obool none => "ok none"
  | .obool (some b) => if b then "ok 1" else "ok 0"
  | .int i => s!"ok {i}"
  | .bytes b => "ok " ++ showHex b
  | .err e => "err " ++ e.name

def showFS (fs : FS) : String :=
  let ps := (fs.map (·.1)).eraseDups
  let ps := ps.toArray.qsort (· < ·) |>.toList
  let items := ps.filterMap fun p => (FS.get p fs).map fun f => s!"{p}/{showHex f.content}/{f.mtime}"
  if items.isEmpty then "fs -" else "fs " ++ ",".intercalate items

def handle (args : List String) : String :=
  match args with
  | "run" :: d :: vau :: fs :: now :: ctor :: ops =>
    match flag d, Driver.Apache.parseVau vau, parseFS fs, now.toInt?, parseOp ctor, ops.mapM parseOp with
    | some digest, some t, some fs, some now, some (.reopen p n a), some ops =>
      let w : World := ⟨fs, now⟩
      match construct digest w p n a with
      | .error e => "err " ++ e.name
      | .ok o =>
        let s0 : Sys := ⟨w, o⟩
        let vauF := Driver.Apache.vauOf t
        let answers := runAns digest vauF s0 ops
        let s := run digest vauF s0 ops
        " | ".intercalate (["ok"] ++ answers.map showAns ++
          ["ok " ++ showHex (toString s.o.st), s!"ok {s.o.mtime}", showFS s.w.fs])
    | _, _, _, _, _, _ => bad
  | _ => bad

end Driver.ApacheFile
