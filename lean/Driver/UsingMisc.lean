/-
  Line protocol for the remaining settings of `using()` (C09, `Model.UsingMisc`):

    umisc variant      <parent int> <N | i:<int> | s:<cps> | b:<cps> | o>          -> "ok <variant>" | "err <kind>"
    umisc variant-init <default int>                                               -> "ok <variant>" | "err <kind>"
    umisc scrypt       <par>;<bs>;<default_rounds> <relaxed 0|1> <parallelism arg> <block_size arg>
                       arg = N | i:<int> | s:<cps> | o                             -> "ok <parallelism> <block_size>" | "err <kind>"
    umisc scrypt-init  <par>;<bs>;<default_rounds>                                 -> "ok <block_size> <parallelism>" | "err <kind>"
    umisc scrypt-nu    <par>;<bs>;<default_rounds> <own bs> <own par> <rounds answer 0|1>   -> "ok True|False"
    umisc bs           <default ident cps> <version> <default_ident cps|N> <ident cps|N> <N | i:<int> | s:<cps> | f:<int> | o | u>
                                                                                    -> "ok <default ident cps> <version>" | "err <kind>"
    umisc bs-nu        <configured> <own> <super 0|1>                              -> "ok True|False"
    umisc algs         <parent names> <default_algs arg> <algs arg>
                       names = E | <cps>;<cps>…   arg = N | l:<names> | t:<cps> | o  -> "ok <names>" | "err <kind>" | "unmodelled"
    umisc algs-init    <names>                                                      -> "ok <names>" | "err <kind>"
    umisc algs-nu      <configured names> <own names> <rounds answer 0|1>          -> "ok True|False"
    umisc marker       <parent s:<cps>|b:<cps>> <N | s:<cps> | b:<cps> | o>          -> "ok s:<cps>|b:<cps>" | "err <kind>"
    umisc marker-hash  <s:<cps>|b:<cps>>                                            -> "ok <cps>" | "err <kind>" | "unmodelled"
-/
import Driver.Util
import PasslibVerif.Model.UsingMisc
namespace Driver.UsingMisc
open Py Driver Model.UsingMisc Model.Handler

def showBool (b : Bool) : String := if b then "True" else "False"

def variantArg (a : String) : Option VariantArg :=
  if a = "N" then some .none
  else if a = "o" then some .other
  else if a.startsWith "i:" then (a.drop 2).toString.toInt?.map VariantArg.int
  else if a.startsWith "s:" then (natList (a.drop 2).toString).map VariantArg.str
  else if a.startsWith "b:" then (natList (a.drop 2).toString).map VariantArg.bytes
  else none

def intArg (a : String) : Option IntArg :=
  if a = "N" then some .none
  else if a = "o" then some .other
  else if a.startsWith "i:" then (a.drop 2).toString.toInt?.map IntArg.int
  else if a.startsWith "s:" then (natList (a.drop 2).toString).map IntArg.str
  else none

def verArg (a : String) : Option VerArg :=
  if a = "N" then some .none
  else if a = "o" then some .other
  else if a = "u" then some .unhashable
  else if a.startsWith "i:" then (a.drop 2).toString.toInt?.map VerArg.int
  else if a.startsWith "f:" then (a.drop 2).toString.toInt?.map VerArg.floatInt
  else if a.startsWith "s:" then (natList (a.drop 2).toString).map VerArg.str
  else none

def scryptCls (s : String) : Option ScryptCls :=
  match s.splitOn ";" with
  | [p, b, r] => do pure ⟨← p.toInt?, ← b.toInt?, ← r.toNat?⟩
  | _ => none

def names (s : String) : Option (List Str) := if s = "E" then some [] else (s.splitOn ";").mapM natList
def showNames (l : List Str) : String := if l.isEmpty then "E" else ";".intercalate (l.map showNatList)

def algsArg (a : String) : Option AlgsArg :=
  if a = "N" then some .none
  else if a = "o" then some .other
  else if a.startsWith "l:" then (names (a.drop 2).toString).map AlgsArg.list
  else if a.startsWith "t:" then (natList (a.drop 2).toString).map AlgsArg.text
  else none

def optStr (s : String) : Option (Option Str) := if s = "N" then some none else (natList s).map some

def marker (a : String) : Option Marker :=
  if a.startsWith "s:" then (natList (a.drop 2).toString).map Marker.str
  else if a.startsWith "b:" then (natList (a.drop 2).toString).map Marker.bytes
  else none

def markerArg (a : String) : Option MarkerArg :=
  if a = "N" then some .none
  else if a = "o" then some .other
  else if a.startsWith "s:" then (natList (a.drop 2).toString).map MarkerArg.str
  else if a.startsWith "b:" then (natList (a.drop 2).toString).map MarkerArg.bytes
  else none

def showMarker : Marker → String
  | .str s => "s:" ++ showNatList s
  | .bytes b => "b:" ++ showNatList b

def handle (args : List String) : String :=
  match args with
  | ["variant", parent, a] => match parent.toInt?, variantArg a with
    | some p, some a => showRes toString (usingVariant p a)
    | _, _ => bad
  | ["variant-init", d] => match d.toInt? with
    | some d => showRes toString (initVariant d)
    | none => bad
  | ["scrypt", cls, rl, p, b] => match scryptCls cls, intArg p, intArg b with
    | some c, some p, some b => showRes (fun c' => s!"{c'.parallelism} {c'.blockSize}") (usingScrypt c (rl = "1") p b)
    | _, _, _ => bad
  | ["scrypt-init", cls] => match scryptCls cls with
    | some c => showRes (fun (b, p) => s!"{b} {p}") (initScrypt c)
    | none => bad
  | ["scrypt-nu", cls, ob, op, ra] => match scryptCls cls, ob.toInt?, op.toInt? with
    | some c, some ob, some op => showRes showBool (scryptNeedsUpdate c ob op (ra = "1"))
    | _, _, _ => bad
  | ["bs", dflt, ver, di, i, a] => match natList dflt, ver.toInt?, optStr di, optStr i, verArg a with
    | some dflt, some ver, some di, some i, some a =>
      showRes (fun c => s!"{showNatList c.ident.default} {c.version}") (usingBs { bsBase with ident := { bsBase.ident with default := dflt }, version := ver } di i a)
    | _, _, _, _, _ => bad
  | ["bs-nu", cfg, own, sup] => match cfg.toInt?, own.toInt? with
    | some cfg, some own => showRes showBool (bsNeedsUpdate { bsBase with version := cfg } own (sup = "1"))
    | _, _ => bad
  | ["algs", parent, d, a] => match names parent, algsArg d, algsArg a with
    | some parent, some d, some a =>
      if algsModelled d && algsModelled a then showRes showNames (usingAlgs parent d a) else "unmodelled"
    | _, _, _ => bad
  | ["algs-init", d] => match names d with
    | some d => if d.all Model.Formats.scramModelled then showRes showNames (initAlgs d) else "unmodelled"
    | none => bad
  | ["algs-nu", cfg, own, ra] => match names cfg, names own with
    | some cfg, some own => "ok " ++ showBool (scramNeedsUpdate cfg own (ra = "1"))
    | _, _ => bad
  | ["marker", parent, a] => match marker parent, markerArg a with
    | some p, some a => showRes showMarker (usingMarker p a)
    | _, _ => bad
  | ["marker-hash", m] => match marker m with
    | some m => if markerModelled m then showRes showNatList (hashOut m) else "unmodelled"
    | none => bad
  | _ => bad

end Driver.UsingMisc
