/-
  Line protocol for the hash / verify model instantiated with the hashers of the PBKDF family (C01 end to end):

    vfyP <name> hash   <secret> <salt> <rounds>    -> "ok <hash cps>" | "err <kind>"
    vfyP <name> verify <secret> <hash cps>         -> "ok True|False" | "err <kind>"
    vfyP <name> identify <hash cps>                -> "ok True|False"

      name   : sha1_crypt | pbkdf2_sha1 | pbkdf2_sha256 | pbkdf2_sha512 | ldap_pbkdf2_sha1 | ldap_pbkdf2_sha256 | ldap_pbkdf2_sha512 |
               cta_pbkdf2_sha1 | dlitz_pbkdf2_sha1 | atlassian_pbkdf2_sha1 | grub_pbkdf2_sha512 |
               django_pbkdf2_sha1 | django_pbkdf2_sha256 | django_salted_md5 | django_salted_sha1
      secret : b:<hex>  (bytes)   |   t:<code points>  (text)
      salt   : comma separated numbers ("-" = empty): code points of a text salt, byte values of a raw salt
      rounds : decimal (ignored by the formats without a cost: atlassian_pbkdf2_sha1, django_salted_*)
-/
import PasslibVerif.Model.VerifyFmt.Pbkdf
import Driver.Verify
import Driver.Util

namespace Driver.VerifyFmtPbkdf
open Py Driver Model.Handler Model.Formats Model.Verify Model.VerifyFmt.Pbkdf

/-- hasher, settings builder, identify -/
def plain : String → Option (Hasher × (Str → Nat → Parsed) × (Str → Bool))
  | "sha1_crypt" => some (sha1CryptHasher, mc3Settings SHA1C_IDENT, identByPrefix SHA1C_IDENT)
  | "pbkdf2_sha1" => some (pbkdf2_sha1Hasher, mc3Settings PBKDF2_SHA1_IDENT, identByPrefix PBKDF2_SHA1_IDENT)
  | "pbkdf2_sha256" => some (pbkdf2_sha256Hasher, mc3Settings PBKDF2_SHA256_IDENT, identByPrefix PBKDF2_SHA256_IDENT)
  | "pbkdf2_sha512" => some (pbkdf2_sha512Hasher, mc3Settings PBKDF2_SHA512_IDENT, identByPrefix PBKDF2_SHA512_IDENT)
  | "cta_pbkdf2_sha1" => some (ctaHasher, mc3Settings P5K2_IDENT, identByPrefix P5K2_IDENT)
  | "dlitz_pbkdf2_sha1" => some (dlitzHasher, mc3Settings P5K2_IDENT, identByPrefix P5K2_IDENT)
  | "atlassian_pbkdf2_sha1" => some (atlassianHasher, fun s _ => atlassianSettings s, identByPrefix ATLASSIAN_IDENT)
  | "grub_pbkdf2_sha512" => some (grubHasher, mc3Settings GRUB_IDENT, identByPrefix GRUB_IDENT)
  | "django_pbkdf2_sha1" => some (django_pbkdf2_sha1Hasher, mc3Settings DJANGO_PBKDF2_SHA1_IDENT, identByPrefix DJANGO_PBKDF2_SHA1_IDENT)
  | "django_pbkdf2_sha256" => some (django_pbkdf2_sha256Hasher, mc3Settings DJANGO_PBKDF2_SHA256_IDENT, identByPrefix DJANGO_PBKDF2_SHA256_IDENT)
  | "django_salted_md5" => some (django_salted_md5Hasher, fun s _ => djSaltedSettings DJANGO_MD5_IDENT s, identByPrefix DJANGO_MD5_IDENT)
  | "django_salted_sha1" => some (django_salted_sha1Hasher, fun s _ => djSaltedSettings DJANGO_SHA1_IDENT s, identByPrefix DJANGO_SHA1_IDENT)
  | _ => none

def wrapped : String → Option Wrapped
  | "ldap_pbkdf2_sha1" => some ldap_pbkdf2_sha1W
  | "ldap_pbkdf2_sha256" => some ldap_pbkdf2_sha256W
  | "ldap_pbkdf2_sha512" => some ldap_pbkdf2_sha512W
  | _ => none

def showBool (b : Bool) : String := if b then "True" else "False"

def handle (args : List String) : String :=
  match args with
  | [name, "hash", sec, salt, rounds] =>
    match Driver.Verify.parseSecret sec, natList salt, rounds.toNat? with
    | some s, some salt, some r =>
      (match plain name, wrapped name with
       | some (h, mk, _), _ => showRes showNatList (hashSecret h s (mk salt r))
       | none, some w => showRes showNatList (w.hash s (mc3Settings w.orig salt r))
       | none, none => bad)
    | _, _, _ => bad
  | [name, "verify", sec, hs] =>
    match Driver.Verify.parseSecret sec, natList hs with
    | some s, some hs =>
      (match plain name, wrapped name with
       | some (h, _, _), _ => showRes showBool (verify h s hs)
       | none, some w => showRes showBool (w.verify s hs)
       | none, none => bad)
    | _, _ => bad
  | [name, "identify", hs] =>
    match natList hs with
    | some hs =>
      (match plain name, wrapped name with
       | some (_, _, idf), _ => "ok " ++ showBool (idf hs)
       | none, some w => "ok " ++ showBool (w.identify hs)
       | none, none => bad)
    | none => bad
  | _ => bad

end Driver.VerifyFmtPbkdf
