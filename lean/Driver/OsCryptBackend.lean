/-
  Line protocol for the os_crypt back ends of the crypt-family hashers (C03, Model/OsCryptBackend.lean), suite `ocp`:

    ocp probe <cls> <dryrun 0|1> <cret>
        cls._load_backend_os_crypt() under set_backend(dryrun)   -> <calls> ok True|False calc=<stub|os_crypt> / <calls> err <kind>
    ocp calc <cls> <salt cps> <rounds int> <implicit 0|1> <checksum cps|N> <secret arg> <cret> <bret>
        self._calc_checksum_os_crypt(secret)                     -> <calls> ok <cps> / <calls> err <kind>
    ocp vector <cls>                                             -> t:<secret cps> t:<hash cps>

      cret : what crypt() does when called (as in suite `putil`):  N | t:<cps> | b:<hex> | O | E:<kind>
      bret : what self._calc_checksum_builtin(secret) does:        t:<cps> | E:<kind>
      calls: "calls=-" or "calls=<secret cps>/<config cps>"
-/
import PasslibVerif.Model.OsCryptBackend
import Driver.PyUtil

namespace Driver.OsCryptBackend
open Py Driver Driver.Digest Driver.PyUtil Model.PyUtil Model.OsCryptBackend

def parseCls (s : String) : Option Cls := Cls.all.find? (·.name == s)

def parseBret (s : String) : Option (PRes Str) :=
  if s.startsWith "E:" then (parseErr (s.drop 2).toString).map Except.error
  else match parseArg s with
    | some (.text t) => some (.ok t)
    | _ => none

def parseBool (s : String) : Option Bool := if s = "1" then some true else if s = "0" then some false else none

def parseChk (s : String) : Option (Option Str) := if s = "N" then some none else (natList s).map some

def showO : ORes Str → String
  | .ok a => "ok " ++ showNatList a
  | .error e => "err " ++ e.name

def handle (args : List String) : String :=
  match args with
  | ["probe", cls, dry, cr] => match parseCls cls, parseBool dry, parseCret cr with
    | some c, some d, some cr =>
      let r := loadOsCryptT (fun _ _ => cr) c d .stub
      showCalls r.1 ++ " " ++ showP (fun (b, sel) => (if b then "True" else "False") ++ " calc=" ++ (match sel with | .stub => "stub" | .osCrypt => "os_crypt" | .builtin => "builtin")) r.2
    | _, _, _ => bad
  | ["calc", cls, salt, rounds, impl, chk, sec, cr, br] =>
    match parseCls cls, natList salt, rounds.toInt?, parseBool impl, parseChk chk, parseArg sec, parseCret cr, parseBret br with
    | some c, some salt, some rounds, some impl, some chk, some sec, some cr, some br =>
      let r := calcChecksumOsCryptT (fun _ _ => cr) (fun _ => br) c { salt := salt, rounds := rounds, implicitRounds := impl, checksum := chk } sec
      showCalls r.1 ++ " " ++ showO r.2
    | _, _, _, _, _, _, _, _ => bad
  | ["vector", cls] => match parseCls cls with
    | some c => "t:" ++ showNatList (probeVector c).1 ++ " t:" ++ showNatList (probeVector c).2
    | none => bad
  | _ => bad

end Driver.OsCryptBackend
