/-
  Line protocol for the models of the byte/text helpers under the crypt() back ends (C03 / C05, Model/PyUtil.lean), suite `putil`:

    putil repeat  <arg> <int>                      repeat_string(source, size)          -> ok <arg of the same kind> | err <kind>
    putil urepeat <arg> <int>                      utf8_repeat_string(source, size)     -> ok <hex> | err <kind>
    putil trunc   <arg> <int>                      utf8_truncate(source, index)         -> ok <hex> | err <kind>
    putil scrypt  <secret arg> <hash arg> <cret>   safe_crypt(secret, hash)             -> <calls> ok None|<cps> / <calls> err <kind>
    putil tcrypt  <secret arg> <hash arg> <cret>   test_crypt(secret, hash)             -> <calls> ok True|False / <calls> err <kind>

      arg   : b:<hex> (bytes) | t:<code points> (text)          ("-" = empty)
      cret  : what the recorded / fake crypt() does when called:  N (returns None) | t:<cps> | b:<hex> | O (raises OSError) | E:<kind>
      calls : "calls=-" or "calls=<secret cps>/<hash cps>[;…]"   the arguments crypt() was called with
-/
import PasslibVerif.Model.PyUtil
import Driver.Digest
import Driver.Util

namespace Driver.PyUtil
open Py Driver Driver.Digest Model.PyUtil

def parseArg (s : String) : Option Arg :=
  if s.startsWith "b:" then
    let r := (s.drop 2).toString
    if r = "-" then some (.bytes []) else (unhex r).map Arg.bytes
  else if s.startsWith "t:" then (natList (s.drop 2).toString).map Arg.text
  else none

def parseErr (s : String) : Option Err :=
  if s = "ValueError" then some .valueError
  else if s = "TypeError" then some .typeError
  else if s = "ZeroDivisionError" then some .zeroDivisionError
  else if s = "AssertionError" then some .assertionError
  else if s = "UnicodeDecodeError" then some .unicodeDecodeError
  else if s = "UnicodeEncodeError" then some .unicodeEncodeError
  else if s.startsWith "Other" then ((s.drop 5).toString.toNat?).map Err.other
  else none

def parseCret (s : String) : Option CryptRet :=
  if s = "N" then some .null
  else if s = "O" then some .osError
  else if s.startsWith "E:" then (parseErr (s.drop 2).toString).map CryptRet.raises
  else match parseArg s with
    | some (.text t) => some (.text t)
    | some (.bytes b) => some (.bytes b)
    | none => none

def showP {α} (f : α → String) : PRes α → String
  | .ok a => "ok " ++ f a
  | .error e => "err " ++ e.name

def showCalls (cs : List (Str × Str)) : String :=
  "calls=" ++ (if cs.isEmpty then "-" else ";".intercalate (cs.map fun c => showNatList c.1 ++ "/" ++ showNatList c.2))

def showOpt : Option Str → String
  | none => "None"
  | some s => showNatList s

def handle (args : List String) : String :=
  match args with
  | ["repeat", src, size] => match parseArg src, size.toInt? with
    | some (.text s), some n => showP (fun r => "t:" ++ showNatList r) (repeatString s n)
    | some (.bytes s), some n => showP (fun r => "b:" ++ showHex r) (repeatString s n)
    | _, _ => bad
  | ["urepeat", src, size] => match parseArg src, size.toInt? with
    | some a, some n => showP showHex (utf8RepeatString a n)
    | _, _ => bad
  | ["trunc", src, idx] => match parseArg src, idx.toInt? with
    | some a, some n => showP showHex (utf8Truncate a n)
    | _, _ => bad
  | ["scrypt", sec, h, cr] => match parseArg sec, parseArg h, parseCret cr with
    | some sec, some h, some cr =>
      let r := safeCryptT (fun _ _ => cr) sec h
      showCalls r.1 ++ " " ++ showP showOpt r.2
    | _, _, _ => bad
  | ["tcrypt", sec, h, cr] => match parseArg sec, parseArg h, parseCret cr with
    | some sec, some h, some cr =>
      let r := testCryptT (fun _ _ => cr) sec h
      showCalls r.1 ++ " " ++ showP (fun b => if b then "True" else "False") r.2
    | _, _, _ => bad
  | _ => bad

end Driver.PyUtil
