/-
  Line protocol for the libpass bcrypt hashers' string assembly (C20, suite `lpbs`).  The `bcrypt` package is a parameter of the model:
  the line carries the ONE call the real side made to it (arguments and answer); the model's `Lib` answers that call and refuses any
  other (`err AssertionError`), so agreement also checks the ARGUMENTS the model hands to the package.

    <secret>  = t:<cps> | b:<hex>          (text / bytes secret; "-" = empty)
    <call>    = <hex arg1> <hex arg2> <answer>     answer: for hashpw `h:<hex>` | `E:<ErrName>`; for checkpw `1` | `0` | `E:<ErrName>`;
                `- - N` = the package was not called

    lpbs bc   hash <secret> <hexsalt> <call>        -> "ok <cps>" | "err …"
    lpbs bc   verify <hash cps> <secret> <call>     -> "ok True|False"
    lpbs bc   identify <hash cps>
    lpbs bc   needs <R> <hash cps>
    lpbs bsha prep <secret> <hexsalt>               -> "ok <hex>"      (`_prepare_secret`)
    lpbs bsha hash <secret> <hexsalt> <call>
    lpbs bsha verify <hash cps> <secret> <call>
    lpbs bsha identify <hash cps>
    lpbs bsha needs <R> <hash cps>
-/
import PasslibVerif.Model.LibpassBcryptStr
import Driver.Digest
import Driver.Util

namespace Driver.LibpassBcryptStr
open Py Driver Driver.Digest Model.LibpassBcryptStr
open Model.Verify (Secret)

def secretOf (s : String) : Option Secret :=
  if s.startsWith "t:" then (natList (s.drop 2).toString).map Secret.text
  else if s.startsWith "b:" then (unhex (s.drop 2).toString).map Secret.bytes
  else none

def hexArg (s : String) : Option Bytes := if s = "-" then some [] else unhex s

def errOf (n : String) : ErrKind :=
  match n with
  | "ValueError" => .valueError | "TypeError" => .typeError | "KeyError" => .keyError
  | "IndexError" => .indexError | "RuntimeError" => .runtimeError
  | _ => .notImplemented

/-- the recorded call as a `Lib` -/
def libOf (a1 a2 ans : String) : Option Lib :=
  if ans = "N" then some ⟨fun _ _ => .error .assertionError, fun _ _ => .error .assertionError⟩
  else match hexArg a1, hexArg a2 with
    | some x, some y =>
      let hp : Option (Res Bytes) :=
        if ans.startsWith "h:" then (hexArg (ans.drop 2).toString).map .ok
        else if ans.startsWith "E:" then some (.error (errOf (ans.drop 2).toString)) else none
      let ck : Option (Res Bool) :=
        if ans = "1" then some (.ok true) else if ans = "0" then some (.ok false)
        else if ans.startsWith "E:" then some (.error (errOf (ans.drop 2).toString)) else none
      some ⟨fun p s => if p = x ∧ s = y then (match hp with | some r => r | none => .error .assertionError) else .error .assertionError,
            fun p h => if p = x ∧ h = y then (match ck with | some r => r | none => .error .assertionError) else .error .assertionError⟩
    | _, _ => none

def showB : Res Bool → String := showRes (fun b => if b then "True" else "False")
def showS : Res (List Nat) → String := showRes showNatList

def handle (args : List String) : String :=
  match args with
  | ["bc", "hash", sec, salt, a1, a2, ans] => match secretOf sec, hexArg salt, libOf a1 a2 ans with
    | some s, some sl, some L => showS (bcHash L s sl) | _, _, _ => bad
  | ["bc", "verify", hs, sec, a1, a2, ans] => match natList hs, secretOf sec, libOf a1 a2 ans with
    | some hs, some s, some L => showB (bcVerify L hs s) | _, _, _ => bad
  | ["bc", "identify", hs] => match natList hs with | some hs => showB (bcIdentify hs) | _ => bad
  | ["bc", "needs", r, hs] => match r.toNat?, natList hs with | some R, some hs => showB (bcNeedsUpdate R hs) | _, _ => bad
  | ["bsha", "prep", sec, salt] => match secretOf sec, hexArg salt with
    | some s, some sl => showBytesRes (prepareSecret s sl) | _, _ => bad
  | ["bsha", "hash", sec, salt, a1, a2, ans] => match secretOf sec, hexArg salt, libOf a1 a2 ans with
    | some s, some sl, some L => showS (bshaHash L s sl) | _, _, _ => bad
  | ["bsha", "verify", hs, sec, a1, a2, ans] => match natList hs, secretOf sec, libOf a1 a2 ans with
    | some hs, some s, some L => showB (bshaVerify L hs s) | _, _, _ => bad
  | ["bsha", "identify", hs] => match natList hs with | some hs => showB (bshaIdentify hs) | _ => bad
  | ["bsha", "needs", r, hs] => match r.toNat?, natList hs with | some R, some hs => showB (bshaNeedsUpdate R hs) | _, _ => bad
  | _ => bad

end Driver.LibpassBcryptStr
