/-
  Line protocol for the interleaving model (C19):

    threads run   <prog> <n> <sched>      micro-step schedule (comma separated thread ids, "-" = empty)
                                           -> outcomes of threads 0..n-1 joined by "|"   (ok:<v> / exc:<kind> / -)
    threads qrun  <prog> <n> <sched>      quantum schedule: each entry lets the thread run from its current preemption point
                                           (a source line that carries a shared access) to the next one; when the schedule is
                                           used up the unfinished threads are run to completion, lowest id first
                                           -> "<trace> => <outcomes>", trace = thread:startline,… of the quanta actually run
    threads enum  <prog> <n> <k>          all complete quantum schedules with at most k preemptions -> joined by ";"
    threads witness <prog> <n> <want> <sel>  (sel = any | ok | <exception name>)  breadth-first search for a micro-step schedule after which some thread has finished
                                           with something else than ok:<want>     -> the schedule or "none"
    threads lines <prog>                  the preemption lines (file*100000+line) of the program

  <prog> is a name from Gen.Threads.all (current source) or Model.ThreadsOld.all (the pre-fix texts).
  The driver keeps the locals of the n threads in a list; one step is `lstep` on the thread's view, written back exactly as
  `Model.Threads.step` does.
-/
import PasslibVerif.Model.Threads
import PasslibVerif.Model.ThreadsOld
import PasslibVerif.Gen.Threads
import PasslibVerif.Gen.ThreadsLines
import Driver.Util

namespace Driver.Threads
open Model.Threads

/-- a program together with the source position (file number * 100000 + line) of every instruction -/
structure TProg where
  prog : Prog
  tags : List Nat

structure CW where
  sh : Nat
  lock : Option Nat
  locs : List Local
  last : List Nat          -- per thread: tag of the last executed instruction that had one
  started : List Bool      -- per thread: has it been scheduled at all
deriving DecidableEq, Repr

def cinit (p : TProg) (n : Nat) : CW := ⟨p.prog.sh0, none, List.replicate n Local.start, List.replicate n 0, List.replicate n false⟩

def cview (w : CW) (t : Nat) : View := ⟨w.sh, lockView w.lock t, w.locs.getD t Local.start⟩

def tagAt (p : TProg) (pc : Nat) : Nat := p.tags.getD pc 0

def cstep (p : TProg) (w : CW) (t : Nat) : CW :=
  let v := cview w t
  let v' := lstep p.prog v
  let tg := if v.loc.out.isSome then 0 else tagAt p v.loc.pc
  let moved := decide (v' ≠ v)
  { sh := v'.sh,
    lock := match v'.lk with
      | .mine => some t
      | .free => none
      | .other => w.lock,
    locs := w.locs.set t v'.loc,
    last := if moved && tg != 0 then w.last.set t tg else w.last,
    started := w.started }

def finished (w : CW) (t : Nat) : Bool := ((w.locs.getD t Local.start).out).isSome

def blocked (p : TProg) (w : CW) (t : Nat) : Bool :=
  !finished w t && lstep p.prog (cview w t) == cview w t

def runnable (p : TProg) (w : CW) (t : Nat) : Bool := !finished w t && !blocked p w t

def interesting (p : TProg) : List Nat :=
  ((p.prog.code.zip p.tags).filterMap fun (i, tg) => if i.shared && tg != 0 then some tg else none).eraseDups

/-- is the thread standing at a preemption point (about to execute the first instruction of a line with a shared access) -/
def atYield (p : TProg) (intr : List Nat) (w : CW) (t : Nat) : Bool :=
  let l := w.locs.getD t Local.start
  let tg := tagAt p l.pc
  l.out.isNone && tg != 0 && intr.elem tg && tg != w.last.getD t 0

def quantumLoop (p : TProg) (intr : List Nat) (t : Nat) : Nat → CW → CW
  | 0, w => w
  | fuel + 1, w =>
    if finished w t || blocked p w t || atYield p intr w t then w
    else quantumLoop p intr t fuel (cstep p w t)

/-- one quantum of thread t; returns the new world and the line the quantum started at (0 = thread start) -/
def quantum (p : TProg) (intr : List Nat) (w : CW) (t : Nat) : CW × Nat :=
  if finished w t then (w, 0) else
  -- a thread that starts right at a preemption point: its first quantum is the code before the modelled function
  if !(w.started.getD t true) && atYield p intr w t then ({ w with started := w.started.set t true }, 0) else
  let w := { w with started := w.started.set t true }
  let l := w.locs.getD t Local.start
  let tg := tagAt p l.pc
  let start := if intr.elem tg then tg else w.last.getD t 0
  let w1 := cstep p w t
  if blocked p w t then (w1, start) else (quantumLoop p intr t 4000 w1, start)

def showKind : Kind → String
  | .attributeError => "AttributeError" | .typeError => "TypeError" | .assertionError => "AssertionError"
  | .keyError => "KeyError" | .runtimeError => "RuntimeError" | .missingBackendError => "MissingBackendError"
  | .valueError => "ValueError"

def showOut : Option Outcome → String
  | none => "-"
  | some (.ok v) => s!"ok:{v}"
  | some (.exc k) => "exc:" ++ showKind k

def outcomes (w : CW) : String := "|".intercalate (w.locs.map fun l => showOut l.out)

def lookup (name : String) : Option (TProg × Outcome) :=
  match (Gen.Threads.all ++ Model.ThreadsOld.all).find? fun x => x.1 == name with
  | none => none
  | some (_, p, want) =>
    let tags := (((Gen.ThreadsLines.all ++ Model.ThreadsOld.allTags).find? fun x => x.1 == name).map (·.2)).getD []
    some (⟨p, tags⟩, want)

def runMicro (p : TProg) : CW → List Nat → CW
  | w, [] => w
  | w, t :: ts => runMicro p (cstep p w t) ts

/-- quantum schedule, then completion (lowest unfinished runnable thread first) -/
def finishAll (p : TProg) (intr : List Nat) (n : Nat) : Nat → CW → List (Nat × Nat) → CW × List (Nat × Nat)
  | 0, w, tr => (w, tr)
  | fuel + 1, w, tr =>
    match (List.range n).find? (runnable p w) with
    | none => (w, tr)
    | some t =>
      let (w', s) := quantum p intr w t
      finishAll p intr n fuel w' ((t, s) :: tr)

def runQ (p : TProg) (intr : List Nat) : CW → List Nat → List (Nat × Nat) → CW × List (Nat × Nat)
  | w, [], tr => (w, tr)
  | w, t :: ts, tr =>
    if finished w t then runQ p intr w ts tr
    else
      let (w', s) := quantum p intr w t
      runQ p intr w' ts ((t, s) :: tr)

def showTrace (tr : List (Nat × Nat)) : String :=
  if tr.isEmpty then "-" else ",".intercalate (tr.reverse.map fun (t, s) => s!"{t}:{s}")

/-- all complete quantum schedules with at most k preemptions -/
def enumLoop (p : TProg) (intr : List Nat) (n : Nat) : Nat → CW → Option Nat → Nat → List Nat → List (List Nat)
  | 0, _, _, _, acc => [acc.reverse]
  | fuel + 1, w, cur, k, acc =>
    let rs := (List.range n).filter (runnable p w)
    if rs.isEmpty then [acc.reverse] else
    let go (t : Nat) (k' : Nat) := enumLoop p intr n fuel (quantum p intr w t).1 (some t) k' (t :: acc)
    match cur with
    | some c =>
      if rs.elem c then
        go c k ++ (if k = 0 then [] else (rs.filter (· != c)).flatMap fun t => go t (k - 1))
      else rs.flatMap fun t => go t k
    | none => rs.flatMap fun t => go t k

/-- breadth first search over worlds (micro-steps) for a finished thread whose outcome differs from `want` -/
def isBad (sel : String) (want : Outcome) (w : CW) : Bool := w.locs.any fun l => match l.out with
  | some o => o != want && (sel == "any" || (match o with
      | .ok _ => sel == "ok"
      | .exc k => sel == showKind k))
  | none => false

def bfs (p : TProg) (n : Nat) (sel : String) (want : Outcome) : Nat → List (CW × List Nat) → List CW → Option (List Nat)
  | 0, _, _ => none
  | _ + 1, [], _ => none
  | fuel + 1, frontier, seen =>
    match frontier.find? fun x => isBad sel want x.1 with
    | some x => some x.2.reverse
    | none =>
      let (next, seen') := frontier.foldl (init := (([] : List (CW × List Nat)), seen)) fun (acc, sn) (w, path) =>
        (List.range n).foldl (init := (acc, sn)) fun (acc, sn) t =>
          let w' := { cstep p w t with last := [], started := [] }
          if sn.elem w' then (acc, sn) else ((w', t :: path) :: acc, w' :: sn)
      bfs p n sel want fuel next.reverse seen'

def handle (args : List String) : String :=
  match args with
  | ["run", name, n, sched] =>
    match lookup name, n.toNat?, natList sched with
    | some (p, _), some n, some s => outcomes (runMicro p (cinit p n) s)
    | _, _, _ => Driver.bad
  | ["qrun", name, n, sched] =>
    match lookup name, n.toNat?, natList sched with
    | some (p, _), some n, some s =>
      let intr := interesting p
      let (w1, tr1) := runQ p intr (cinit p n) s []
      let (w2, tr2) := finishAll p intr n 4000 w1 tr1
      showTrace tr2 ++ " => " ++ outcomes w2
    | _, _, _ => Driver.bad
  | ["enum", name, n, k] =>
    match lookup name, n.toNat?, k.toNat? with
    | some (p, _), some n, some k =>
      ";".intercalate ((enumLoop p (interesting p) n 400 (cinit p n) none k []).map showNatList)
    | _, _, _ => Driver.bad
  | ["witness", name, n, want, sel] =>
    match lookup name, n.toNat?, want.toNat? with
    | some (p, _), some n, some wv =>
      match bfs p n sel (.ok wv) 400 [({ cinit p n with last := [], started := [] }, [])] [] with
      | some s => showNatList s
      | none => "none"
    | _, _, _ => Driver.bad
  | ["lines", name] =>
    match lookup name with
    | some (p, _) => showNatList (interesting p)
    | none => Driver.bad
  | _ => Driver.bad

end Driver.Threads
