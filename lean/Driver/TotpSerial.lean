import Driver.Util
import PasslibVerif.Model.TotpSerial
/-
`tser <op> …` — TOTP (de)serialisation model.
wire: text = comma separated code points ("-" = empty), optional text "~" = None, bytes = hex ("-" = empty),
  cls    = <alg>;<digits>;<period>;<issuer?>;<wallet>          wallet = "~" | W/<cost>/<defaultTag?>/<tag>:<secrethex>|…  ("." = no secrets)
  config = <keyhex>;<alg>;<digits>;<period>;<label?>;<issuer?>  (answers append ;<changed 0|1>)
  dict   = <key>=<jval>;…  ("." = {})    jval = n | t | f | i<int> | s<text> | o | e<key>:<jval>|…  ("e." = {})
-/
namespace Driver.TotpSerial
open Py Driver Model.TotpSerial Model.Handler

def optText (s : String) : Option (Option Str) :=
  if s = "~" then some none else (natList s).map some

def showOptText : Option Str → String
  | none => "~"
  | some s => showNatList s

/-- stand-in for PBKDF2+AES-CTR (the harness patches the same function into the real AppWallet): XOR with a
    keystream depending on secret, salt, cost and position -/
def stubCipher : Cipher := fun secret salt cost data =>
  let base := secret.foldl (· + ·) 0 + 3 * salt.foldl (· + ·) 0 + 7 * cost.toNat + 5
  (List.range data.length).zipWith (fun i b => b ^^^ ((base + 31 * i) % 256)) data

def jval0 (s : String) : Option (JVal Unit) :=
  if s = "n" then some .null else if s = "t" then some (.bool true) else if s = "f" then some (.bool false)
  else if s = "o" then some .other
  else if s.startsWith "i" then ((s.drop 1).toString.toInt?).map .int
  else if s.startsWith "s" then (natList (s.drop 1).toString).map .str
  else none

def splitFirst (sep : Char) (s : String) : Option (String × String) :=
  match s.splitOn (String.singleton sep) with
  | a :: b :: rest => some (a, (String.singleton sep).intercalate (b :: rest))
  | _ => none

def encDict (s : String) : Option EncDict :=
  if s = "." then some [] else
  (s.splitOn "|").mapM fun ent => do
    let (k, v) ← splitFirst ':' ent
    let k ← natList k
    let v ← jval0 v
    pure (k, v)

def jval (s : String) : Option (JVal EncDict) :=
  if s.startsWith "e" then (encDict (s.drop 1).toString).map .enc
  else (jval0 s).map fun v => match v with
    | .null => .null | .bool b => .bool b | .int i => .int i | .str t => .str t | .enc _ => .other | .other => .other

def dictOf (s : String) : Option (Dict EncDict) :=
  if s = "." then some [] else
  (s.splitOn ";").mapM fun ent => do
    let (k, v) ← splitFirst '=' ent
    let k ← natList k
    let v ← jval v
    pure (k, v)

def showJ0 : JVal Unit → String
  | .null => "n" | .bool true => "t" | .bool false => "f" | .int i => s!"i{i}" | .str s => "s" ++ showNatList s
  | .enc _ => "o" | .other => "o"

def showEnc (e : EncDict) : String :=
  if e.isEmpty then "." else "|".intercalate (e.map fun p => showNatList p.1 ++ ":" ++ showJ0 p.2)

def showJ : JVal EncDict → String
  | .null => "n" | .bool true => "t" | .bool false => "f" | .int i => s!"i{i}" | .str s => "s" ++ showNatList s
  | .enc e => "e" ++ showEnc e | .other => "o"

def showDict (d : Dict EncDict) : String :=
  if d.isEmpty then "." else ";".intercalate (d.map fun p => showNatList p.1 ++ "=" ++ showJ p.2)

def walletOf (s : String) : Option (Option AppWallet) :=
  if s = "~" then some none else
  match s.splitOn "/" with
  | ["W", cost, dt, secrets] => do
    let cost ← cost.toInt?
    let dt ← optText dt
    let secs ← if secrets = "." then some [] else (secrets.splitOn "|").mapM fun ent => do
      let (t, h) ← splitFirst ':' ent
      let t ← natList t
      let h ← ofHex h
      pure (t, h)
    pure (some { secrets := secs, defaultTag := dt, cost := cost })
  | _ => none

def mkWallet (w : AppWallet) (salt : Bytes) : Wallet EncDict := w.toWallet stubCipher (fun _ => salt)

def clsOf (s : String) (salt : Bytes := []) : Option (Cls EncDict) :=
  match s.splitOn ";" with
  | [alg, digits, period, issuer, wallet] => do
    let alg ← natList alg
    let digits ← digits.toInt?
    let period ← period.toInt?
    let issuer ← optText issuer
    let w ← walletOf wallet
    pure { clsAlg := alg, clsDigits := digits, clsPeriod := period, clsIssuer := issuer, wallet := w.map (mkWallet · salt) }
  | _ => none

def configOf (s : String) : Option Config :=
  match s.splitOn ";" with
  | [key, alg, digits, period, label, issuer] => do
    let key ← ofHex key
    let alg ← natList alg
    let digits ← digits.toInt?
    let period ← period.toInt?
    let label ← optText label
    let issuer ← optText issuer
    pure { key := key, alg := alg, digits := digits, period := period, label := label, issuer := issuer }
  | _ => none

def showConfig (c : Config) : String :=
  s!"{showHex c.key};{showNatList c.alg};{c.digits};{c.period};{showOptText c.label};{showOptText c.issuer};{if c.changed then 1 else 0}"

def showOut {α} (f : α → String) : Out α → String
  | .ok a => "ok " ++ f a
  | .error e => "err " ++ e.name
  | .unmodelled => "unmodelled"

def docOf (s : String) : Option (JDoc EncDict) :=
  if s = "!invalid" then some .invalid else if s = "!nondict" then some .nonDict else (dictOf s).map .dict

def handle (args : List String) : String :=
  match args with
  | ["quote", s, safe] =>
    match natList s, natList safe with
    | some s, some safe => showOut showNatList (quote s safe)
    | _, _ => bad
  | ["unquote", s] =>
    match natList s with
    | some s => showOut showNatList (unquote s)
    | _ => bad
  | ["utf8enc", s] =>
    match natList s with
    | some s => if s.all isScalar then "ok " ++ showHex (utf8Encode s) else "err ValueError"
    | _ => bad
  | ["utf8dec", h] =>
    match ofHex h with
    | some bs => (match utf8Decode bs with | some s => "ok " ++ showNatList s | none => "err ValueError")
    | _ => bad
  | ["urlsplit", s] =>
    match natList s with
    | some s => let r := urlsplit s
      s!"ok {showNatList r.scheme} {showNatList r.netloc} {showNatList r.path} {showNatList r.query} {showNatList r.fragment}"
    | _ => bad
  | ["qsl", s] =>
    match natList s with
    | some s => showOut (fun ps => if ps.isEmpty then "." else ";".intercalate (ps.map fun p => showNatList p.1 ++ "=" ++ showNatList p.2)) (parseQsl s)
    | _ => bad
  | ["strip", s] =>
    match natList s with
    | some s => "ok " ++ showNatList (pyStrip s)
    | _ => bad
  | ["touri", cfg] =>
    match configOf cfg with
    | some c => showOut showNatList (toUri c)
    | _ => bad
  | ["fromuri", cls, uri] =>
    match clsOf cls, natList uri with
    | some cls, some uri => showOut showConfig (fromUri cls uri)
    | _, _ => bad
  | ["todict", cls, cfg, enc, salt] =>
    match ofHex salt with
    | some salt =>
      (match clsOf cls salt, configOf cfg, (match enc with | "n" => some none | "t" => some (some true) | "f" => some (some false) | _ => none) with
      | some cls, some c, some enc => showOut showDict (toDict cls c enc 0)
      | _, _, _ => bad)
    | none => bad
  | ["tojson", cls, cfg, enc, salt] =>
    match ofHex salt with
    | some salt =>
      (match clsOf cls salt, configOf cfg, (match enc with | "n" => some none | "t" => some (some true) | "f" => some (some false) | _ => none) with
      | some cls, some c, some enc => showOut (fun d => match d with | .dict d => showDict d | _ => "?") (toJson cls c enc 0)
      | _, _, _ => bad)
    | none => bad
  | ["fromdict", cls, d] =>
    match clsOf cls, dictOf d with
    | some cls, some d => showOut showConfig (fromDict cls d)
    | _, _ => bad
  | ["fromjson", cls, d] =>
    match clsOf cls, docOf d with
    | some cls, some d => showOut showConfig (fromJson cls d)
    | _, _ => bad
  | ["fromsource", cls, "dict", d] =>
    match clsOf cls, dictOf d with
    | some cls, some d => showOut showConfig (fromSource cls (.dict d))
    | _, _ => bad
  | ["fromsource", cls, "text", s, d] =>
    match clsOf cls, natList s, docOf d with
    | some cls, some s, some d => showOut showConfig (fromSource cls (.text s d))
    | _, _, _ => bad
  | ["defaulttag", tags] =>
    match (if tags = "." then some [] else (tags.splitOn "|").mapM natList) with
    | some ts => "ok " ++ showOptText (pickDefaultTag ts)
    | none => bad
  | ["wenc", w, salt, key] =>
    match walletOf w, ofHex salt, ofHex key with
    | some (some w), some salt, some key => showOut showEnc (walletEncrypt stubCipher w salt key)
    | _, _, _ => bad
  | ["wdec", w, e] =>
    match walletOf w, encDict e with
    | some (some w), some e => showOut (fun r => s!"{showHex r.1} {if r.2 then 1 else 0}") (walletDecrypt stubCipher w e)
    | _, _ => bad
  | _ => bad

end Driver.TotpSerial
