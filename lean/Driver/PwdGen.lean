import Driver.Util
import PasslibVerif.Model.PwdGen
/-
suite `pgen`: the generators of passlib/pwd.py (Model.PwdGen) with the exact integer `exactMinLen` for the length parameter.
 strings: code points joined by "." ("=" empty string, "N" None); word lists: words joined by "," ("=" empty list, "-" empty word)
-/
namespace Driver.PwdGen
open Py Driver Model.PwdGen

def parseStr (s : String) : Option (List Nat) :=
  if s = "=" || s = "-" then some [] else (s.splitOn ".").mapM String.toNat?

def showStr (l : List Nat) : String :=
  if l.isEmpty then "=" else ".".intercalate (l.map toString)

def parseWords (s : String) : Option (List Word) :=
  if s = "=" then some [] else (s.splitOn ",").mapM parseStr

def parseOptStr (s : String) : Option (Option (List Nat)) :=
  if s = "N" then some none else (parseStr s).map some

def parseInt (s : String) : Option Int :=
  if s.startsWith "-" then (s.drop 1).toNat?.map (fun n => - (n : Int)) else s.toNat?.map (fun n => (n : Int))

def parseEntropy (s : String) : Option EntropyArg :=
  if s = "N" then some .none
  else if s = "s" then some .otherStr
  else if s.startsWith "a:" then (Alias.ofName (s.drop 2).toString).map .alias
  else (parseInt s).map .int

def parseLength (s : String) : Option (Option Int) :=
  if s = "N" then some none else (parseInt s).map some

def parseReturns (s : String) : Option Returns :=
  if s = "N" then some .none else if s = "iter" then some .iter else if s = "other" then some .other
  else (parseInt s).map .int

def parseCharset (s : String) : Option CharsetArg :=
  if s = "N" then none else if s = "E" then some .empty
  else match Charset.ofName s with | some c => some (.named c) | none => some .unknown

def parseWordset (s : String) : Option WordsetArg :=
  if s = "N" then none
  else match Wordset.ofName s with | some c => some (.named c) | none => some .unknown

def mkSrc (l : List Nat) : Src := { draw := fun i => l.getD i 0, pos := 0 }

def showReq : Option Nat → String | none => "None" | some e => toString e

def showCharsetAttr : Option CharsetArg → String
  | none => "None" | some .empty => "E" | some .unknown => "?" | some (.named c) => c.name

def showWordsetAttr : Option WordsetArg → String
  | none => "None" | some .unknown => "?" | some (.named c) => c.name

def showResult (r : CallResult (List Nat)) : String :=
  match r with
  | .one a => "one:" ++ showStr a
  | .many l => "many:" ++ (if l.isEmpty then "[]" else ";".intercalate (l.map showStr))
  | .self => "self"

/-- how many times `__next__` ran for this result -/
def nexts : CallResult (List Nat) → Nat
  | .one _ => 1 | .many l => l.length | .self => 0

def showAsked (l : List Nat) : String := "asked=" ++ showNatList l

def showP {α} (f : α → String) : PRes α → String
  | .ok a => "ok " ++ f a
  | .error e => "err " ++ e.name

def seqOpts (e l x : String) : Option SeqOpts := do
  let entropy ← parseEntropy e
  let length ← parseLength l
  pure { entropy, length, extraKwds := x = "1" }

def word (chars charset e l x ret draws : String) : String :=
  match parseOptStr chars, seqOpts e l x, parseReturns ret, natList draws with
  | some chars, some seq, some ret, some draws =>
    let o : WordOpts := { chars, charset := parseCharset charset, seq }
    match wordInit exactMinLen o with
    | .error e => "err " ++ e.name
    | .ok g =>
      let attrs := s!"len={g.length} req={showReq g.requestedEntropy} charset={showCharsetAttr g.charset} chars={showStr g.chars}"
      match call (wordNextS g) ret (mkSrc draws) with
      | .error e => attrs ++ " | err " ++ e.name
      | .ok (r, s) =>
        let asked := (List.replicate (nexts r) (wordDemand g)).filterMap id
        s!"{attrs} | {showAsked asked} used={s.pos} | {showResult r}"
  | _, _, _, _ => bad

def phrase (wordset words sep e l x ret draws table : String) : String :=
  match (if words = "N" then some none else (parseWords words).map some), parseOptStr sep, seqOpts e l x, parseReturns ret, natList draws,
        (if table = "N" then some [] else parseWords table) with
  | some words, some sep, some seq, some ret, some draws, some table =>
    let o : PhraseOpts := { wordset := parseWordset wordset, words, sep, seq }
    match phraseInit exactMinLen (fun _ => table) o with
    | .error e => "err " ++ e.name
    | .ok g =>
      let attrs := s!"len={g.length} req={showReq g.requestedEntropy} wordset={showWordsetAttr g.wordset} nwords={g.words.length} first={showStr (g.words.headD [])} last={showStr (g.words.getLastD [])} sep={showStr g.sep}"
      match call (phraseNextS g) ret (mkSrc draws) with
      | .error e => attrs ++ " | err " ++ e.name
      | .ok (r, s) =>
        let asked := (List.replicate (nexts r) (phraseDemand g)).flatten
        s!"{attrs} | {showAsked asked} used={s.pos} | {showResult r}"
  | _, _, _, _, _, _ => bad

/-- `sep` occurs in no word (as a substring) -/
def occursIn (sep : Word) : Word → Bool
  | [] => sep.isEmpty
  | c :: w => sep.isPrefixOf (c :: w) || occursIn sep w

def sepFree (sep : Word) (ws : List Word) : Bool := ws.all (fun w => !(occursIn sep w))

def handle (args : List String) : String :=
  match args with
  | ["alias", nm] => match Alias.ofName nm with | some a => "ok " ++ toString a.bits | none => "none"
  | ["charset", nm] => match Charset.ofName nm with | some c => "ok " ++ showStr c.chars | none => "none"
  | ["defaults"] => s!"ok entropy={defaultEntropy.bits} charset={defaultCharset.name} wordset={defaultWordset.name} sep={showStr defaultSep}"
  | ["unique", ws] => match parseWords ws with
      | some ws => showP (fun _ => "True") (ensureUnique ws) | none => bad
  | ["wsok", sep, ws] => match parseStr sep, parseWords ws with
      | some sep, some ws => s!"ok n={ws.length} unique={decide ((toSet ws).length = ws.length)} sepfree={sepFree sep ws}"
      | _, _ => bad
  | ["minlen", N, e] => match N.toNat?, e.toNat? with
      | some N, some e => "ok " ++ toString (exactMinLen N e) | _, _ => bad
  | ["word", chars, charset, e, l, x, ret, draws] => word chars charset e l x ret draws
  | ["phrase", wordset, words, sep, e, l, x, ret, draws, table] => phrase wordset words sep e l x ret draws table
  | _ => bad

end Driver.PwdGen
