/-
  Line-protocol front end for the model of passlib.crypto._md4.

    ["oneshot", hex]            -> "ok <hexdigest>"   md4(msg).digest()
    ["split", hex1, hex2, …]    -> "ok <hexdigest>"   h = md4(); h.update(p1); h.update(p2); …; h.digest()
    ["fork", hexA, hexB, hexC]  -> "ok <d1> <d2> <d0>" h = md4(A); g = h.copy(); h.update(B); g.update(C);
                                                      digests of h, g, and of a second copy taken before the updates
    ["state", hex1, …]          -> "ok <count> <reg0,…,reg3> <hexbuf>"  internal state after the updates
    ["spec", hex]               -> "ok <hexdigest>"   Spec.MD4.md4 (RFC 1320 transcription)
  hex is lower/upper-case hex, "-" is the empty byte string.
-/
import Driver.Util
import PasslibVerif.Model.Md4
import PasslibVerif.Spec.MD4
namespace Driver.Md4
open Py Driver Model.Md4

def hexd (bs : Bytes) : String := toHex bs

def handle (args : List String) : String :=
  match args with
  | ["oneshot", m] => match ofHex m with
      | some m => "ok " ++ hexd (md4OneShot m) | none => bad
  | "split" :: parts => match parts.mapM ofHex with
      | some ps => "ok " ++ hexd (digest (ps.foldl update init)) | none => bad
  | ["fork", a, b, c] => match ofHex a, ofHex b, ofHex c with
      | some a, some b, some c =>
          let h := update init a
          let g := copy h
          let k := copy h
          let h := update h b
          let g := update g c
          "ok " ++ hexd (digest h) ++ " " ++ hexd (digest g) ++ " " ++ hexd (digest k)
      | _, _, _ => bad
  | "state" :: parts => match parts.mapM ofHex with
      | some ps =>
          let st := ps.foldl update init
          "ok " ++ toString st.count ++ " " ++ showNatList st.regs ++ " " ++ showHex st.buf
      | none => bad
  | ["spec", m] => match ofHex m with
      | some m => "ok " ++ hexd (Spec.MD4.md4 m) | none => bad
  | _ => bad

#guard handle ["oneshot", "616263"] = "ok a448017aaf21d8525fc10ae87aa6729d"
#guard handle ["split", "61", "-", "6263"] = "ok a448017aaf21d8525fc10ae87aa6729d"
#guard handle ["spec", "616263"] = "ok a448017aaf21d8525fc10ae87aa6729d"
#guard handle ["oneshot", "-"] = "ok 31d6cfe0d16ae931b73c59d7e0c089c0"
#guard handle ["oneshot", "6"] = "bad-op"

end Driver.Md4
