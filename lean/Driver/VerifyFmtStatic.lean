/-
  Line protocol for the hash / verify models of the `Static` family (C01):

    vfyS <name> hash     <secret> <setting / context args…>   -> "ok <hash cps>" | "err <kind>"
    vfyS <name> verify   <secret> <hash cps> <context args…>  -> "ok True|False" | "err <kind>"
    vfyS <name> identify <hash cps>                            -> "ok True|False"

      secret : b:<hex> (bytes) | t:<code points> (text)
      user / realm : none | b:<hex> | t:<code points>   (text is UTF-8 encoded; "none" = keyword not given)

    args after the secret (hash) / after the hash (verify):
      hex_md4 hex_md5 hex_sha1 hex_sha256 hex_sha512 nthash bsd_nthash mysql323 mysql41 ldap_md5 ldap_sha1
        ldap_hex_md5 ldap_hex_sha1                                   hash: -            verify: -
      lmhash                                                          hash: truncate_error(0|1)   verify: -
      msdcc msdcc2 postgres_md5 oracle10 cisco_pix cisco_asa          hash: user         verify: user
      htdigest                                                        hash: user realm   verify: user realm
      ldap_salted_md5 ldap_salted_sha1 ldap_salted_sha256 ldap_salted_sha512 mssql2000 mssql2005 (salt = byte values)
        oracle11 (salt = code points)                                 hash: salt         verify: -
      ldap_md5_crypt                                                  hash: salt(cps)    verify: -
      ldap_sha256_crypt ldap_sha512_crypt                             hash: salt(cps) rounds   verify: -
-/
import PasslibVerif.Model.VerifyFmt.Static
import Driver.Verify
import Driver.Util

namespace Driver.VerifyFmtStatic
open Py Driver Driver.Verify Model.Handler Model.Formats Model.Verify Model.VerifyCrypt Model.VerifyFmt.Static

def parseUser (s : String) : Option (Option Bytes) :=
  if s = "none" then some none
  else match parseSecret s with
    | some sec => match sec.toBytes with
      | .ok b => some (some b)
      | .error _ => none
    | none => none

structure Entry where
  hash : Secret → List String → Option (Res Str)
  verify : Secret → Str → List String → Option (Res Bool)
  identify : Str → Bool

/-- no settings, no context -/
def plain (h : Hasher) (f : Format) (ident : Str := []) : Entry where
  hash := fun s a => match a with | [] => some (hashSecret h s (noSettings ident)) | _ => none
  verify := fun s hs a => match a with | [] => some (verify h s hs) | _ => none
  identify := f.identify

/-- `user` context -/
def withUser (h : Option Bytes → Hasher) (f : Format) : Entry where
  hash := fun s a => match a with
    | [u] => (parseUser u).map fun u => hashSecret (h u) s noSettings
    | _ => none
  verify := fun s hs a => match a with
    | [u] => (parseUser u).map fun u => verify (h u) s hs
    | _ => none
  identify := f.identify

/-- raw / text salt -/
def salted (h : Hasher) (f : Format) (ident : Str) : Entry where
  hash := fun s a => match a with
    | [salt] => (natList salt).map fun salt => hashSecret h s (saltSettings ident salt)
    | _ => none
  verify := fun s hs a => match a with | [] => some (verify h s hs) | _ => none
  identify := f.identify

/-- PrefixWrapper around a hasher without settings -/
def wrapped (pfx : Str) (h : Hasher) (f : Format) : Entry where
  hash := fun s a => match a with | [] => some (wrapHashSecret pfx h s noSettings) | _ => none
  verify := fun s hs a => match a with | [] => some (wrapVerify pfx h s hs) | _ => none
  identify := f.identify

def entry : String → Option Entry
  | "hex_md4" => some (plain hex_md4Hasher hex_md4)
  | "hex_md5" => some (plain hex_md5Hasher hex_md5)
  | "hex_sha1" => some (plain hex_sha1Hasher hex_sha1)
  | "hex_sha256" => some (plain hex_sha256Hasher hex_sha256)
  | "hex_sha512" => some (plain hex_sha512Hasher hex_sha512)
  | "nthash" => some (plain nthashHasher nthash)
  | "mysql323" => some (plain mysql323Hasher mysql323)
  | "mysql41" => some (plain mysql41Hasher mysql41)
  | "ldap_md5" => some (plain ldap_md5Hasher ldap_md5 LDAP_MD5)
  | "ldap_sha1" => some (plain ldap_sha1Hasher ldap_sha1 LDAP_SHA)
  | "bsd_nthash" => some (wrapped BSD_NT nthashHasher bsd_nthash)
  | "ldap_hex_md5" => some (wrapped LDAP_MD5 hex_md5Hasher ldap_hex_md5)
  | "ldap_hex_sha1" => some (wrapped LDAP_SHA hex_sha1Hasher ldap_hex_sha1)
  | "lmhash" => some
      { hash := fun s a => match a with
          | ["0"] => some (hashSecret (lmhashHasher false) s noSettings)
          | ["1"] => some (hashSecret (lmhashHasher true) s noSettings)
          | _ => none
        verify := fun s hs a => match a with | [] => some (verify (lmhashHasher false) s hs) | _ => none
        identify := lmhash.identify }
  | "msdcc" => some (withUser msdccHasher msdcc)
  | "msdcc2" => some (withUser msdcc2Hasher msdcc2)
  | "postgres_md5" => some (withUser postgres_md5Hasher postgres_md5)
  | "oracle10" => some (withUser oracle10Hasher oracle10)
  | "cisco_pix" => some
      { (withUser (ciscoHasher false) cisco_pix) with
        hash := fun s a => match a with | [u] => (parseUser u).map fun u => ciscoHashSecret false u s | _ => none }
  | "cisco_asa" => some
      { (withUser (ciscoHasher true) cisco_asa) with
        hash := fun s a => match a with | [u] => (parseUser u).map fun u => ciscoHashSecret true u s | _ => none }
  | "ldap_salted_md5" => some (salted ldap_salted_md5Hasher ldap_salted_md5 (ofString "{SMD5}"))
  | "ldap_salted_sha1" => some (salted ldap_salted_sha1Hasher ldap_salted_sha1 (ofString "{SSHA}"))
  | "ldap_salted_sha256" => some (salted ldap_salted_sha256Hasher ldap_salted_sha256 (ofString "{SSHA256}"))
  | "ldap_salted_sha512" => some (salted ldap_salted_sha512Hasher ldap_salted_sha512 (ofString "{SSHA512}"))
  | "oracle11" => some (salted oracle11Hasher oracle11 [])
  | "mssql2005" => some (salted mssql2005Hasher mssql2005 [])
  | "mssql2000" => some
      { (salted mssql2000Hasher mssql2000 []) with
        verify := fun s hs a => match a with | [] => some (mssql2000Verify s hs) | _ => none }
  | "htdigest" => some
      { hash := fun s a => match a with
          | [u, r] => match parseUser u, parseUser r with
            | some (some u), some (some r) => some (htdigestHash u r s)
            | _, _ => none
          | _ => none
        verify := fun s hs a => match a with
          | [u, r] => match parseUser u, parseUser r with
            | some (some u), some (some r) => some (htdigestVerify u r s hs)
            | _, _ => none
          | _ => none
        identify := htdigest.identify }
  | "ldap_md5_crypt" => some
      { hash := fun s a => match a with
          | [salt] => (natList salt).map fun salt => wrapHashSecret CRYPT (md5Hasher false) s { ident := md5Ident false, salt := some salt }
          | _ => none
        verify := fun s hs a => match a with | [] => some (wrapVerify CRYPT (md5Hasher false) s hs) | _ => none
        identify := ldap_md5_crypt.identify }
  | "ldap_sha256_crypt" => some
      { hash := fun s a => match a with
          | [salt, r] => match natList salt, r.toNat? with
            | some salt, some r => some (wrapHashSecret CRYPT sha256Hasher s (sha2Settings (ofString "$5$") salt r))
            | _, _ => none
          | _ => none
        verify := fun s hs a => match a with | [] => some (wrapVerify CRYPT sha256Hasher s hs) | _ => none
        identify := ldap_sha256_crypt.identify }
  | "ldap_sha512_crypt" => some
      { hash := fun s a => match a with
          | [salt, r] => match natList salt, r.toNat? with
            | some salt, some r => some (wrapHashSecret CRYPT sha512Hasher s (sha2Settings (ofString "$6$") salt r))
            | _, _ => none
          | _ => none
        verify := fun s hs a => match a with | [] => some (wrapVerify CRYPT sha512Hasher s hs) | _ => none
        identify := ldap_sha512_crypt.identify }
  | _ => none

def showBool (b : Bool) : String := if b then "True" else "False"

def handle (args : List String) : String :=
  match args with
  | name :: "hash" :: sec :: rest => match entry name, parseSecret sec with
    | some e, some s => match e.hash s rest with
      | some r => showRes showNatList r
      | none => bad
    | _, _ => bad
  | name :: "verify" :: sec :: hs :: rest => match entry name, parseSecret sec, natList hs with
    | some e, some s, some hs => match e.verify s hs rest with
      | some r => showRes showBool r
      | none => bad
    | _, _, _ => bad
  | [name, "identify", hs] => match entry name, natList hs with
    | some e, some hs => "ok " ++ showBool (e.identify hs)
    | _, _ => bad
  | _ => bad

end Driver.VerifyFmtStatic
