import PasslibVerif.Py.Basic
namespace Driver
open Py

def natList (s : String) : Option (List Nat) :=
  if s = "-" then some [] else (s.splitOn ",").mapM String.toNat?

def showNatList (l : List Nat) : String :=
  if l.isEmpty then "-" else ",".intercalate (l.map toString)

def showBytesRes : Res Bytes → String := showRes showHex
def showNatRes : Res Nat → String := showRes toString

def bad : String := "bad-op"

end Driver
