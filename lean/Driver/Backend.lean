/-
  Line protocol for the backend state machine (C03):

    backend <stub> <host> <ops>
      stub : "src" (what the source says: Gen.Backend.bcryptStub) | "super" | "self"
      host : comma separated  owner.backend=ok|missing|security   ("-" = nothing loads)
      ops  : ";"-separated   set:<owner>:<name>:<0|1> | get:<owner> | has:<owner>:<name> | calc:<owner>:<layers> |
                              scset:<name>:<0|1> | scget
    answer: the outputs joined by " | ".  Owners and their declared backends come from Gen.Backend.hashers
    (bcrypt_sha256 / django_bcrypt_sha256 share the owner `bcrypt`).
-/
import PasslibVerif.Model.Backend
import Driver.Util

namespace Driver.Backend
open Model.Backend Gen.Backend

def owners : List Owner :=
  (hashers.filter fun x => x.2.1 ≠ "scrypt" ∧ x.1 ≠ "bcrypt_sha256" ∧ x.1 ≠ "django_bcrypt_sha256").map fun x => ⟨x.1, x.2.2⟩

def scryptBackends : List String := ((hashers.find? fun x => x.1 = "scrypt").map (·.2.2)).getD []

def parseLoad : String → Option Load
  | "ok" => some .ok | "missing" => some .missing | "security" => some .security | _ => none

def parseHost (s : String) : Option (List (String × String × Load)) :=
  if s = "-" then some [] else
  (s.splitOn ",").mapM fun item =>
    match item.splitOn "=" with
    | [k, v] => match k.splitOn ".", parseLoad v with
      | [o, b], some l => some (o, b, l)
      | _, _ => none
    | _ => none

def mkHosts (tbl : List (String × String × Load)) (o : String) : Host :=
  ⟨fun b => ((tbl.find? fun x => x.1 = o ∧ x.2.1 = b).map (·.2.2)).getD .missing⟩

def showErr : Err → String
  | .unknownBackend => "err ValueError"
  | .missingBackend => "err MissingBackendError"
  | .securityError => "err PasslibSecurityError"
  | .assertion => "err AssertionError"

def showOut : Out → String
  | .name (.ok n) => "ok " ++ n
  | .name (.error e) => showErr e
  | .bool (.ok b) => if b then "ok True" else "ok False"
  | .bool (.error e) => showErr e
  | .checksum (.ok c) => s!"ok {c.backend} {c.prehashes}"
  | .checksum (.error e) => showErr e

inductive AnyOp
  | core (op : Op)
  | scset (name : String) (dry : Bool)
  | scget

def parseOp (s : String) : Option AnyOp :=
  match s.splitOn ":" with
  | ["set", o, n, d] => if d = "0" ∨ d = "1" then some (.core (.set o n (d = "1"))) else none
  | ["get", o] => some (.core (.get o))
  | ["has", o, n] => some (.core (.has o n))
  | ["calc", o, l] => l.toNat?.map fun k => .core (.checksum o k)
  | ["scset", n, d] => if d = "0" ∨ d = "1" then some (.scset n (d = "1")) else none
  | ["scget"] => some .scget
  | _ => none

def runAll (stub : StubKind) (hs : String → Host) : World → String → List AnyOp → List String
  | _, _, [] => []
  | w, sc, .core op :: rest =>
    let r := step stub hs owners w op
    showOut r.1 :: runAll stub hs r.2 sc rest
  | w, sc, .scset n d :: rest =>
    let r := scryptSet (hs "scrypt") scryptBackends sc n d
    (match r.1 with | .ok _ => "ok None" | .error e => showErr e) :: runAll stub hs w r.2 rest
  | w, sc, .scget :: rest => ("ok " ++ sc) :: runAll stub hs w sc rest

def handle (args : List String) : String :=
  match args with
  | [stub, host, ops] =>
    let st : Option StubKind := match stub with
      | "src" => some bcryptStub | "super" => some .superOfOwner | "self" => some .selfDispatch | _ => none
    match st, parseHost host, (ops.splitOn ";").mapM parseOp with
    | some st, some tbl, some ops =>
      let hs := mkHosts tbl
      -- scrypt is initialised at import: `_set_backend("default")`
      let sc0 := (scryptBackends.find? fun b => (hs "scrypt").load b = .ok).getD "?"
      " | ".intercalate (runAll st hs [] sc0 ops)
    | _, _, _ => bad
  | _ => bad

end Driver.Backend
