/-
  Line protocol for the per-format checksum specifications (`Spec.Formats`):

      sfmt <format> <hexpwd> <args…>   ->   ok <hex of the checksum characters>

  Byte-string arguments are lower-case hex ("-" = empty), numbers are decimal.  Arguments after the password:

      des_crypt bigcrypt crypt16 django_des_crypt      salt
      bsdi_crypt                                        salt rounds
      lmhash nthash bsd_nthash mysql323 mysql41 hex_md4 hex_md5 hex_sha1 hex_sha256 hex_sha512 ldap_md5 ldap_sha1   (none)
      oracle10 msdcc msdcc2 postgres_md5 cisco_pix cisco_asa   user
      bcrypt bcrypt_sha256_v1 bcrypt_sha256_v2 django_bcrypt django_bcrypt_sha256    ident salt22 cost
      sha1_crypt                                        salt rounds
      sun_md5_crypt                                     salt rounds bare(0|1)
      phpass                                            salt log2rounds
      fshp                                              salt rounds variant
      pbkdf2_sha1 pbkdf2_sha256 pbkdf2_sha512 (= ldap_pbkdf2_*) cta_pbkdf2_sha1 dlitz_pbkdf2_sha1 grub_pbkdf2_sha512
        django_pbkdf2_sha1 django_pbkdf2_sha256         salt rounds
      atlassian_pbkdf2_sha1 oracle11 mssql2000 mssql2005 ldap_salted_md5 ldap_salted_sha1 ldap_salted_sha256
        ldap_salted_sha512 django_salted_md5 django_salted_sha1    salt
      scram                                             salt rounds alg  (alg ∈ md5 sha-1 sha-224 sha-256 sha-384 sha-512)
      scrypt scrypt7                                    salt logN r p
      cisco_type7                                       salt(number)
      htdigest                                          user realm

  Anything malformed -> bad-op.
-/
import PasslibVerif.Spec.Formats
import Driver.Digest

namespace Driver.SpecFmt
open Driver.Digest (unhex hex)
open Spec.Formats

def ok (bs : List Nat) : String := "ok " ++ hex bs

def scramAlg : String → Option HashAlg
  | "md5" => some algMd5
  | "sha-1" => some algSha1
  | "sha-224" => some algSha224
  | "sha-256" => some algSha256
  | "sha-384" => some algSha384
  | "sha-512" => some algSha512
  | _ => none

def handle (args : List String) : String :=
  let r : Option String :=
    match args with
    | [f, p] => do
        let p ← unhex p
        match f with
        | "lmhash" => pure (ok (lmhash p))
        | "nthash" | "bsd_nthash" => pure (ok (nthash p))
        | "mysql323" => pure (ok (mysql323 p))
        | "mysql41" => pure (ok (mysql41 p))
        | "hex_md4" => pure (ok (hexDigest Spec.MD4.md4 p))
        | "hex_md5" => pure (ok (hexDigest Spec.MD5.md5 p))
        | "hex_sha1" => pure (ok (hexDigest Spec.SHA1.sha1 p))
        | "hex_sha256" => pure (ok (hexDigest Spec.SHA256.sha256 p))
        | "hex_sha512" => pure (ok (hexDigest Spec.SHA512.sha512 p))
        | "ldap_md5" => pure (ok (ldapDigest Spec.MD5.md5 p))
        | "ldap_sha1" => pure (ok (ldapDigest Spec.SHA1.sha1 p))
        | _ => none
    | [f, p, a] => do
        let p ← unhex p
        if f = "cisco_type7" then
          let n ← a.toNat?
          if n < 100 then pure (ok (ciscoType7 p n)) else none
        else
        let a ← unhex a
        match f with
        | "des_crypt" | "django_des_crypt" => if a.length = 2 then pure (ok (desCrypt p a)) else none
        | "bigcrypt" => if a.length = 2 then pure (ok (bigcrypt p a)) else none
        | "crypt16" => if a.length = 2 then pure (ok (crypt16 p a)) else none
        | "oracle10" => pure (ok (oracle10 p a))
        | "msdcc" => pure (ok (msdcc p a))
        | "msdcc2" => pure (ok (msdcc2 p a))
        | "postgres_md5" => pure (ok (postgresMd5 p a))
        | "cisco_pix" => pure (ok (ciscoPix p a))
        | "cisco_asa" => pure (ok (ciscoAsa p a))
        | "atlassian_pbkdf2_sha1" => pure (ok (atlassianPbkdf2Sha1 p a))
        | "oracle11" => pure (ok (oracle11 p a))
        | "mssql2000" => pure (ok (mssql2000 p a))
        | "mssql2005" => pure (ok (mssql2005 p a))
        | "ldap_salted_md5" => pure (ok (ldapSalted Spec.MD5.md5 p a))
        | "ldap_salted_sha1" => pure (ok (ldapSalted Spec.SHA1.sha1 p a))
        | "ldap_salted_sha256" => pure (ok (ldapSalted Spec.SHA256.sha256 p a))
        | "ldap_salted_sha512" => pure (ok (ldapSalted Spec.SHA512.sha512 p a))
        | "django_salted_md5" => pure (ok (djangoSalted Spec.MD5.md5 p a))
        | "django_salted_sha1" => pure (ok (djangoSalted Spec.SHA1.sha1 p a))
        | _ => none
    | ["htdigest", p, u, realm] => do
        let p ← unhex p
        let u ← unhex u
        let realm ← unhex realm
        pure (ok (htdigest p u realm))
    | [f, p, s, n] => do
        let p ← unhex p
        let s ← unhex s
        let n ← n.toNat?
        match f with
        | "bsdi_crypt" => if s.length = 4 then pure (ok (bsdiCrypt p s n)) else none
        | "sha1_crypt" => pure (ok (sha1Crypt p s n))
        | "phpass" => pure (ok (phpass p s n))
        | "pbkdf2_sha1" | "ldap_pbkdf2_sha1" => pure (ok (pbkdf2Digest algSha1 p s n))
        | "pbkdf2_sha256" | "ldap_pbkdf2_sha256" => pure (ok (pbkdf2Digest algSha256 p s n))
        | "pbkdf2_sha512" | "ldap_pbkdf2_sha512" => pure (ok (pbkdf2Digest algSha512 p s n))
        | "cta_pbkdf2_sha1" => pure (ok (ctaPbkdf2Sha1 p s n))
        | "dlitz_pbkdf2_sha1" => pure (ok (dlitzPbkdf2Sha1 p s n))
        | "grub_pbkdf2_sha512" => pure (ok (grubPbkdf2Sha512 p s n))
        | "django_pbkdf2_sha1" => pure (ok (djangoPbkdf2 algSha1 p s n))
        | "django_pbkdf2_sha256" => pure (ok (djangoPbkdf2 algSha256 p s n))
        | _ => none
    | ["scram", p, s, n, alg] => do
        let p ← unhex p
        let s ← unhex s
        let n ← n.toNat?
        let a ← scramAlg alg
        pure (ok (scramDigest a p s n))
    | ["sun_md5_crypt", p, s, n, bare] => do
        let p ← unhex p
        let s ← unhex s
        let n ← n.toNat?
        let b ← (if bare = "1" then some true else if bare = "0" then some false else none)
        pure (ok (sunMd5Crypt p s n b))
    | ["fshp", p, s, n, v] => do
        let p ← unhex p
        let s ← unhex s
        let n ← n.toNat?
        let v ← v.toNat?
        (fshp v p s n).map ok
    | [f, p, ident, salt, cost] => do
        let p ← unhex p
        let ident ← unhex ident
        let salt ← unhex salt
        let cost ← cost.toNat?
        let r ← (match f with
          | "bcrypt" | "django_bcrypt" => bcrypt ident cost salt p
          | "bcrypt_sha256_v1" => bcryptSha256V1 ident cost salt p
          | "bcrypt_sha256_v2" => bcryptSha256V2 ident cost salt p
          | "django_bcrypt_sha256" => djangoBcryptSha256 ident cost salt p
          | _ => none)
        pure (ok r)
    | [f, p, s, ln, r, pp] => do
        let p ← unhex p
        let s ← unhex s
        let ln ← ln.toNat?
        let r ← r.toNat?
        let pp ← pp.toNat?
        if ln = 0 ∨ ln > 24 ∨ r = 0 ∨ pp = 0 then none else
        match f with
        | "scrypt" => pure (ok (scryptPhc p s ln r pp))
        | "scrypt7" => pure (ok (scrypt7 p s ln r pp))
        | _ => none
    | _ => none
  r.getD "bad-op"

end Driver.SpecFmt
