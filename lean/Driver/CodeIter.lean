/-
  Line protocol for the models of passlib's own iterated-digest checksum code (C02, group `Iter`, Model/Code/Iter.lean):

    citer phpass     <secret> <salt cps> <rounds>                     phpass._calc_checksum
    citer mysql323   <secret>                                         mysql323._calc_checksum
    citer mysql41    <secret>                                         mysql41._calc_checksum
    citer sha1_crypt <secret> <salt cps> <rounds>                     sha1_crypt._calc_checksum_builtin
    citer fshp       <secret> <variant> <salt hex> <rounds>           fshp._calc_checksum            (raw key)
    citer fshpstr    <secret> <variant> <salt hex> <rounds>           the data part of fshp.to_string on that key
    citer cisco      <pix|asa> <use_defaults 0|1> <user> <secret>     cisco_pix._calc_checksum / cisco_asa
    citer type7cipher <data hex> <salt>                               cisco_type7._cipher
    citer type7      <secret> <salt>                                  cisco_type7._calc_checksum
    citer type7str   <secret> <salt>                                  cisco_type7.to_string on that checksum
    citer sunraw     <secret hex> <rounds> <salt hex>                 raw_sun_md5_crypt
    citer sunconfig  <salt cps> <rounds> <bare 0|1>                   sun_md5_crypt.to_string(_withchk=False)
    citer sun        <secret> <salt cps> <rounds> <bare 0|1>          sun_md5_crypt._calc_checksum
    citer rpad       <hex> <size>                                     right_pad_string
    citer fmt08x     <n>                                              f"{n:08x}"

      secret : b:<hex> (bytes) | t:<code points> (text);  user : none | b:<hex> | t:<code points>
      answers: "ok <hex of the returned bytes / ASCII characters>" | "err <kind>"
-/
import PasslibVerif.Model.Code.Iter
import PasslibVerif.Spec.MD5
import PasslibVerif.Spec.SHA1
import PasslibVerif.Spec.SHA256
import PasslibVerif.Spec.SHA512
import Driver.Digest
import Driver.Util

namespace Driver.CodeIter
open Py Driver Driver.Digest Model.Code.Iter
open Model.Verify (Secret)

def parseSecret (s : String) : Option Secret :=
  if s.startsWith "b:" then (unhex (s.drop 2).toString).map Secret.bytes
  else if s.startsWith "t:" then (natList (s.drop 2).toString).map Secret.text
  else none

def parseUser (s : String) : Option (Option Secret) :=
  if s = "none" then some none else (parseSecret s).map some

def parseBool (s : String) : Option Bool :=
  if s = "1" then some true else if s = "0" then some false else none

def out (r : Res Bytes) : String := showRes showHex r

def md5 := Spec.MD5.md5
def sha1 := Spec.SHA1.sha1

def handle (args : List String) : String :=
  match args with
  | ["phpass", sec, salt, r] => match parseSecret sec, natList salt, r.toNat? with
    | some s, some salt, some r => out (phpassCalcChecksum md5 salt r s)
    | _, _, _ => bad
  | ["mysql323", sec] => match parseSecret sec with
    | some s => out (mysql323CalcChecksum s)
    | _ => bad
  | ["mysql41", sec] => match parseSecret sec with
    | some s => out (mysql41CalcChecksum sha1 s)
    | _ => bad
  | ["sha1_crypt", sec, salt, r] => match parseSecret sec, natList salt, r.toNat? with
    | some s, some salt, some r => out (sha1CryptCalcChecksumBuiltin sha1 salt r s)
    | _, _, _ => bad
  | ["fshp", sec, v, salt, r] => match parseSecret sec, v.toNat?, unhex salt, r.toNat? with
    | some s, some v, some salt, some r =>
      out (fshpCalcChecksum sha1 Spec.SHA256.sha256 Spec.SHA512.sha384 Spec.SHA512.sha512 v salt r s)
    | _, _, _, _ => bad
  | ["fshpstr", sec, v, salt, r] => match parseSecret sec, v.toNat?, unhex salt, r.toNat? with
    | some s, some v, some salt, some r =>
      out ((fshpCalcChecksum sha1 Spec.SHA256.sha256 Spec.SHA512.sha384 Spec.SHA512.sha512 v salt r s).map (fshpData salt))
    | _, _, _, _ => bad
  | ["cisco", kind, ud, user, sec] => match parseBool ud, parseUser user, parseSecret sec with
    | some ud, some user, some s =>
      if kind = "pix" then out (ciscoCalcChecksum md5 false 16 ud user s)
      else if kind = "asa" then out (ciscoCalcChecksum md5 true 32 ud user s)
      else bad
    | _, _, _ => bad
  | ["type7cipher", data, salt] => match unhex data, salt.toNat? with
    | some d, some salt => out (.ok (type7Cipher d salt))
    | _, _ => bad
  | ["type7", sec, salt] => match parseSecret sec, salt.toNat? with
    | some s, some salt => out (type7CalcChecksum salt s)
    | _, _ => bad
  | ["type7str", sec, salt] => match parseSecret sec, salt.toNat? with
    | some s, some salt => out ((type7CalcChecksum salt s).map (type7ToString salt))
    | _, _ => bad
  | ["sunraw", sec, r, salt] => match unhex sec, r.toNat?, unhex salt with
    | some s, some r, some salt => out (rawSunMd5Crypt md5 s r salt)
    | _, _, _ => bad
  | ["sunconfig", salt, r, bare] => match natList salt, r.toNat?, parseBool bare with
    | some salt, some r, some bare => out (encodeAscii (sunToStringNoChk salt r bare))
    | _, _, _ => bad
  | ["sun", sec, salt, r, bare] => match parseSecret sec, natList salt, r.toNat?, parseBool bare with
    | some s, some salt, some r, some bare => out (sunMd5CalcChecksum md5 salt r bare s)
    | _, _, _, _ => bad
  | ["rpad", src, n] => match unhex src, n.toNat? with
    | some src, some n => out (.ok (rightPadString src n))
    | _, _ => bad
  | ["fmt08x", n] => match n.toNat? with
    | some n => out (.ok (fmtHex08 n))
    | _ => bad
  | _ => bad

end Driver.CodeIter
