import Driver.B64
import Driver.Rng
import Driver.Totp
import Driver.Apache
import Driver.Digest
import Driver.Disabled
import Driver.Rounds
import Driver.Des
import Driver.Context
import Driver.ContextStr
import Driver.CtxKey
import Driver.Formats
import Driver.Blowfish
import Driver.Scrypt
import Driver.ShaCrypt
import Driver.Backend
import Driver.Libpass
import Driver.LibpassBcryptStr
import Driver.Verify
import Driver.Md4
import Driver.TotpSerial
import Driver.Shapes
import Driver.SpecFmt
import Driver.Threads
import Driver.UsingSalt
import Driver.UsingMisc
import Driver.Saslprep
import Driver.VerifyFmtPbkdf
import Driver.VerifyFmtMisc
import Driver.VerifyFmtStatic
import Driver.VerifyFmtDesBcrypt
import Driver.VerifyFmtWrap
import Driver.TotpTime
import Driver.CtxIni
import Driver.CodeDes
import Driver.CodeDigest
import Driver.CodeIter
import Driver.CodeWrap
import Driver.ApacheFile
import Driver.PyUtil
import Driver.Registry
import Driver.BcryptFinalize
import Driver.OsCryptBackend
import Driver.ContextKwds
import Driver.PwdGen
/-
Line protocol driver: `<suite> <op> <args…>` per input line, one result line out.
Compiled (`lean_exe modeldrv`); nothing imported here touches Mathlib.
-/
def dispatch (line : String) : String :=
  match (line.trimAscii.toString.splitOn " ").filter (· ≠ "") with
  | "b64" :: rest => Driver.B64.handle rest
  | "rng" :: rest => Driver.Rng.handle rest
  | "totp" :: rest => Driver.Totp.handle rest
  | "apache" :: rest => Driver.Apache.handle rest
  | "digest" :: rest => Driver.Digest.handle rest
  | "dis" :: rest => Driver.Disabled.handle rest
  | "rounds" :: rest => Driver.Rounds.handle rest
  | "des" :: rest => Driver.Des.handle rest
  | "ctx" :: rest => Driver.Context.handle rest
  | "cstr" :: rest => Driver.ContextStr.handle rest
  | "ctxkey" :: rest => Driver.CtxKey.handle rest
  | "fmt" :: rest => Driver.Formats.handle rest
  | "bf" :: rest => Driver.Blowfish.handle rest
  | "scrypt" :: rest => Driver.Scrypt.handle rest
  | "shac" :: rest => Driver.ShaCrypt.handle rest
  | "backend" :: rest => Driver.Backend.handle rest
  | "lp" :: rest => Driver.Libpass.handle rest
  | "lpbs" :: rest => Driver.LibpassBcryptStr.handle rest
  | "vfy" :: rest => Driver.Verify.handle rest
  | "md4" :: rest => Driver.Md4.handle rest
  | "tser" :: rest => Driver.TotpSerial.handle rest
  | "shape" :: rest => Driver.Shapes.handle rest
  | "sfmt" :: rest => Driver.SpecFmt.handle rest
  | "threads" :: rest => Driver.Threads.handle rest
  | "usalt" :: rest => Driver.UsingSalt.handle rest
  | "umisc" :: rest => Driver.UsingMisc.handle rest
  | "sasl" :: rest => Driver.Saslprep.handle rest
  | "vfyP" :: rest => Driver.VerifyFmtPbkdf.handle rest
  | "vfyM" :: rest => Driver.VerifyFmtMisc.handle rest
  | "vfyS" :: rest => Driver.VerifyFmtStatic.handle rest
  | "vfyD" :: rest => Driver.VerifyFmtDesBcrypt.handle rest
  | "vfyW" :: rest => Driver.VerifyFmtWrap.handle rest
  | "ttime" :: rest => Driver.TotpTime.handle rest
  | "cini" :: rest => Driver.CtxIni.handle rest
  | "cdes" :: rest => Driver.CodeDes.handle rest
  | "cdig" :: rest => Driver.CodeDigest.handle rest
  | "citer" :: rest => Driver.CodeIter.handle rest
  | "cwrap" :: rest => Driver.CodeWrap.handle rest
  | "afile" :: rest => Driver.ApacheFile.handle rest
  | "putil" :: rest => Driver.PyUtil.handle rest
  | "preg" :: rest => Driver.Registry.handle rest
  | "bfin" :: rest => Driver.BcryptFinalize.handle rest
  | "ocp" :: rest => Driver.OsCryptBackend.handle rest
  | "ckw" :: rest => Driver.ContextKwds.handle rest
  | "pgen" :: rest => Driver.PwdGen.handle rest
  | _ => Driver.bad

partial def loop (h : IO.FS.Stream) (out : IO.FS.Stream) : IO Unit := do
  let line ← h.getLine
  if line.isEmpty then return ()
  out.putStrLn (dispatch line)
  loop h out

def main : IO Unit := do
  let out ← IO.getStdout
  loop (← IO.getStdin) out
  out.flush
