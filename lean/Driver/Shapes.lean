import Driver.Util
import PasslibVerif.Model.Shapes
/-
C17 driver: the identify functions of every registered name as modelled, the identify and output shapes, and the
first-claimer attribution over a scheme list.
  shape identify <name> <cps>            → ok 0|1
  shape id <name> <cps>                  → ok 0|1      (idShape membership)
  shape out <name> <ident cps|-> <cps>   → ok 0|1      (outShape membership, restricted to a configured ident)
  shape ctx <name,name,…> <cps>          → ok <first claiming name> | ok none
-/
namespace Driver.Shapes
open Py Driver Model.Handler Model.Formats Model.Shapes Gen.Contexts

def nameOf (s : String) : Option Name := allNames.find? (·.str == s)

def bit (b : Bool) : String := if b then "ok 1" else "ok 0"

def handle (args : List String) : String :=
  match args with
  | ["identify", name, h] => match nameOf name, natList h with
    | some n, some h => bit ((scheme n).fmt.identify h) | _, _ => bad
  | ["id", name, h] => match nameOf name, natList h with
    | some n, some h => bit ((scheme n).idShape.accepts h) | _, _ => bad
  | ["out", name, ident, h] => match nameOf name, natList ident, natList h with
    | some n, some i, some h =>
      bit ((if i.isEmpty then (scheme n).outShape else (scheme n).outShape.under i).accepts h)
    | _, _, _ => bad
  | ["ctx", names, h] => match (names.splitOn ",").mapM nameOf, natList h with
    | some ns, some h => match ns.find? (fun n => (scheme n).fmt.identify h) with
      | some n => "ok " ++ n.str
      | none => "ok none"
    | _, _ => bad
  | _ => bad

end Driver.Shapes
