/-
  Line protocol for the statement-level model of passlib's digest-composition `_calc_checksum` routines (C02, code level, group Digest):

    cdig hex          <alg> <secret>                       HexDigestHash._calc_checksum             alg: md4 md5 sha1 sha256 sha512
    cdig htdigest     <secret> <user> <realm>              htdigest.hash (encoding utf-8)           user / realm: none | b:… | t:…
    cdig ldap         <alg> <secret>                       _Base64DigestHelper._calc_checksum
    cdig ldapsalted   <alg> <secret> <salt hex>            _SaltedBase64DigestHelper._calc_checksum (raw)
    cdig ldapsaltedstr <alg> <secret> <salt hex>           … followed by to_string (after the ident)
    cdig mysql41      <secret>
    cdig postgres     <secret> <user>
    cdig oracle11     <secret> <salt cps>
    cdig rawmssql     <enc hex> <salt hex>                 _raw_mssql from secret.encode("utf-16-le") on
    cdig mssql2000    <enc hex> <encUpper hex> <salt hex>  mssql2000._calc_checksum (raw)
    cdig mssql2000str <salt hex> <chk hex>                 mssql2000.to_string
    cdig mssql2005    <enc hex> <salt hex>
    cdig mssql2005str <salt hex> <chk hex>
    cdig ntraw / ntcalc        <enc hex>                   nthash.raw / _calc_checksum from the UTF-16-LE secret on
    cdig msdccraw / msdcccalc  <enc hex> <userEnc hex>
    cdig msdcc2raw / msdcc2calc <enc hex> <userEnc hex> <rounds>
    cdig pbkdf2       <alg> <secret> <salt hex> <rounds>   Pbkdf2DigestHandler._calc_checksum (raw)
    cdig ab64field    <hex>                                ab64_encode(checksum).decode("ascii")
    cdig cta          <secret> <salt hex> <rounds>   ;  cdig ctafield <hex>
    cdig dlitzconfig  <salt cps> <rounds>            ;  cdig dlitz <secret> <salt cps> <rounds>
    cdig atlassian    <secret> <salt hex> <rounds>   ;  cdig atlassianfield <salt hex> <chk hex>
    cdig grub         <secret> <salt hex> <rounds>   ;  cdig grubfield <hex>
    cdig djsalted     <alg> <secret> <salt cps>
    cdig djpbkdf2     <alg> <secret> <salt cps> <rounds>
    cdig scramderive  <alg> <prepared hex | !> <salt hex> <rounds>     scram.derive_digest from saslprep(password) (UTF-8) on; `!`: saslprep raised
    cdig scram        <alg,alg,…> <prepared hex | !> <salt hex> <rounds>  scram._calc_checksum -> "ok <hex>,<hex>,…"
    cdig scrypt       <secret> <salt hex> <rounds> <r> <p>
    cdig scryptphcfield / scrypt7field <hex>

      -> "ok <hex>" | "err <kind>";  secret : b:<hex> | t:<code points>;  "-" is the empty string; text results as hex of their code points
-/
import PasslibVerif.Model.Code.Digest
import Driver.Util

namespace Driver.CodeDigest
open Py Driver Model.Verify Model.Code.Digest

def parseSecret (s : String) : Option Secret :=
  if s.startsWith "b:" then (ofHex (s.drop 2).toString).map Secret.bytes
  else if s.startsWith "t:" then (natList (s.drop 2).toString).map Secret.text
  else none

def parseOptSecret (s : String) : Option (Option Secret) :=
  if s = "none" then some none else (parseSecret s).map some

def hashOf : String → Option (Bytes → Bytes)
  | "md4" => some Spec.MD4.md4
  | "md5" => some Spec.MD5.md5
  | "sha1" => some Spec.SHA1.sha1
  | "sha256" => some Spec.SHA256.sha256
  | "sha512" => some Spec.SHA512.sha512
  | _ => none

def algOf : String → Option Spec.Formats.HashAlg
  | "md5" => some Spec.Formats.algMd5
  | "sha1" | "sha-1" => some Spec.Formats.algSha1
  | "sha224" | "sha-224" => some Spec.Formats.algSha224
  | "sha256" | "sha-256" => some Spec.Formats.algSha256
  | "sha384" | "sha-384" => some Spec.Formats.algSha384
  | "sha512" | "sha-512" => some Spec.Formats.algSha512
  | _ => none

def prepOf (s : String) : Option (Secret → Res Bytes) :=
  if s = "!" then some (fun _ => .error .valueError) else (ofHex s).map fun b => fun _ => .ok b

def showList (r : Res (List Bytes)) : String :=
  match r with
  | .ok l => "ok " ++ ",".intercalate (l.map showHex)
  | .error e => "err " ++ e.name

def handle (args : List String) : String :=
  match args with
  | ["hex", a, s] => match hashOf a, parseSecret s with
    | some H, some s => showBytesRes (hexCalc H s)
    | _, _ => bad
  | ["htdigest", s, u, r] => match parseSecret s, parseOptSecret u, parseOptSecret r with
    | some s, some u, some r => showBytesRes (htdigestHash s u r)
    | _, _, _ => bad
  | ["ldap", a, s] => match hashOf a, parseSecret s with
    | some H, some s => showBytesRes (ldapCalc H s)
    | _, _ => bad
  | ["ldapsalted", a, s, salt] => match hashOf a, parseSecret s, ofHex salt with
    | some H, some s, some salt => showBytesRes (ldapSaltedCalc H s salt)
    | _, _, _ => bad
  | ["ldapsaltedstr", a, s, salt] => match hashOf a, parseSecret s, ofHex salt with
    | some H, some s, some salt => showBytesRes (ldapSaltedString H s salt)
    | _, _, _ => bad
  | ["mysql41", s] => match parseSecret s with
    | some s => showBytesRes (mysql41Calc s)
    | none => bad
  | ["postgres", s, u] => match parseSecret s, parseOptSecret u with
    | some s, some u => showBytesRes (postgresCalc s u)
    | _, _ => bad
  | ["oracle11", s, salt] => match parseSecret s, natList salt with
    | some s, some salt => showBytesRes (oracle11Calc s salt)
    | _, _ => bad
  | ["rawmssql", e, salt] => match ofHex e, ofHex salt with
    | some e, some salt => "ok " ++ showHex (rawMssqlEnc e salt)
    | _, _ => bad
  | ["mssql2000", e, eu, salt] => match ofHex e, ofHex eu, ofHex salt with
    | some e, some eu, some salt => "ok " ++ showHex (mssql2000CalcEnc e eu salt)
    | _, _, _ => bad
  | ["mssql2000str", salt, chk] => match ofHex salt, ofHex chk with
    | some salt, some chk => showBytesRes (mssql2000ToString salt chk)
    | _, _ => bad
  | ["mssql2005", e, salt] => match ofHex e, ofHex salt with
    | some e, some salt => "ok " ++ showHex (mssql2005CalcEnc e salt)
    | _, _ => bad
  | ["mssql2005str", salt, chk] => match ofHex salt, ofHex chk with
    | some salt, some chk => showBytesRes (mssql2005ToString salt chk)
    | _, _ => bad
  | ["ntraw", e] => match ofHex e with
    | some e => "ok " ++ showHex (nthashRawEnc e)
    | none => bad
  | ["ntcalc", e] => match ofHex e with
    | some e => showBytesRes (nthashCalcEnc e)
    | none => bad
  | ["msdccraw", e, u] => match ofHex e, ofHex u with
    | some e, some u => "ok " ++ showHex (msdccRawEnc e u)
    | _, _ => bad
  | ["msdcccalc", e, u] => match ofHex e, ofHex u with
    | some e, some u => showBytesRes (msdccCalcEnc e u)
    | _, _ => bad
  | ["msdcc2raw", e, u, r] => match ofHex e, ofHex u, r.toNat? with
    | some e, some u, some r => showBytesRes (msdcc2RawEnc e u r)
    | _, _, _ => bad
  | ["msdcc2calc", e, u, r] => match ofHex e, ofHex u, r.toNat? with
    | some e, some u, some r => showBytesRes (msdcc2CalcEnc e u r)
    | _, _, _ => bad
  | ["pbkdf2", a, s, salt, r] => match algOf a, parseSecret s, ofHex salt, r.toNat? with
    | some a, some s, some salt, some r => showBytesRes (pbkdf2DigestCalc a s salt r)
    | _, _, _, _ => bad
  | ["ab64field", c] => match ofHex c with
    | some c => showBytesRes (ab64Field c)
    | none => bad
  | ["cta", s, salt, r] => match parseSecret s, ofHex salt, r.toNat? with
    | some s, some salt, some r => showBytesRes (ctaCalc s salt r)
    | _, _, _ => bad
  | ["ctafield", c] => match ofHex c with
    | some c => showBytesRes (ctaField c)
    | none => bad
  | ["dlitzconfig", salt, r] => match natList salt, r.toNat? with
    | some salt, some r => "ok " ++ showHex (dlitzGetConfig salt r)
    | _, _ => bad
  | ["dlitz", s, salt, r] => match parseSecret s, natList salt, r.toNat? with
    | some s, some salt, some r => showBytesRes (dlitzCalc s salt r)
    | _, _, _ => bad
  | ["atlassian", s, salt, r] => match parseSecret s, ofHex salt, r.toNat? with
    | some s, some salt, some r => showBytesRes (atlassianCalc s salt r)
    | _, _, _ => bad
  | ["atlassianfield", salt, c] => match ofHex salt, ofHex c with
    | some salt, some c => showBytesRes (atlassianField salt c)
    | _, _ => bad
  | ["grub", s, salt, r] => match parseSecret s, ofHex salt, r.toNat? with
    | some s, some salt, some r => showBytesRes (grubCalc s salt r)
    | _, _, _ => bad
  | ["grubfield", c] => match ofHex c with
    | some c => showBytesRes (grubField c)
    | none => bad
  | ["djsalted", a, s, salt] => match hashOf a, parseSecret s, natList salt with
    | some H, some s, some salt => showBytesRes (djangoSaltedCalc H s salt)
    | _, _, _ => bad
  | ["djpbkdf2", a, s, salt, r] => match algOf a, parseSecret s, natList salt, r.toNat? with
    | some a, some s, some salt, some r => showBytesRes (djangoPbkdf2Calc a s salt r)
    | _, _, _, _ => bad
  | ["scramderive", a, p, salt, r] => match algOf a, prepOf p, ofHex salt, r.toNat? with
    | some a, some prep, some salt, some r => showBytesRes (scramDeriveDigest prep a (.bytes []) salt r)
    | _, _, _, _ => bad
  | ["scram", as, p, salt, r] => match (as.splitOn ",").mapM algOf, prepOf p, ofHex salt, r.toNat? with
    | some as, some prep, some salt, some r => showList (scramCalc prep as (.bytes []) salt r)
    | _, _, _, _ => bad
  | ["scrypt", s, salt, n, r, p] => match parseSecret s, ofHex salt, n.toNat?, r.toNat?, p.toNat? with
    | some s, some salt, some n, some r, some p => showBytesRes (scryptCalc s salt n r p)
    | _, _, _, _, _ => bad
  | ["scryptphcfield", c] => match ofHex c with
    | some c => showBytesRes (scryptPhcField c)
    | none => bad
  | ["scrypt7field", c] => match ofHex c with
    | some c => showBytesRes (scrypt7Field c)
    | none => bad
  | _ => bad

end Driver.CodeDigest
