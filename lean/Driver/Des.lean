import PasslibVerif.Spec.Des
import PasslibVerif.Model.Des
/-
Line-protocol handler for the DES suite (used by the compiled `drv` executable).
  spec   key input salt rounds   -> ok <Spec.Des.desCryptCore …>
  model  key input salt rounds   -> ok <n> | err <message>      (Model.Des.desEncryptIntBlock)
  expand key56                   -> ok <n> | err <message>      (expand_des_key, int form)
  shrink key64                   -> ok <n> | err <message>      (shrink_des_key, int form)
  block  keyhex inputhex salt rounds -> ok <hex> | err <message> (des_encrypt_block, bytes form)
  expandb keyhex / shrinkb keyhex    -> ok <hex> | err <message> (bytes forms)
All integers are decimal.
-/
namespace Driver.Des

def bad : String := "bad request"

def showE (r : Except String Nat) : String :=
  match r with
  | .ok n => s!"ok {n}"
  | .error e => s!"err {e}"

def hexDigit (c : Char) : Option Nat :=
  if '0' ≤ c ∧ c ≤ '9' then some (c.toNat - '0'.toNat)
  else if 'a' ≤ c ∧ c ≤ 'f' then some (c.toNat - 'a'.toNat + 10)
  else if 'A' ≤ c ∧ c ≤ 'F' then some (c.toNat - 'A'.toNat + 10)
  else none

def parseHex : List Char → Option (List Nat)
  | [] => some []
  | a :: b :: rest => do
    let x ← hexDigit a
    let y ← hexDigit b
    let t ← parseHex rest
    pure ((16 * x + y) :: t)
  | _ => none

/-- "-" stands for the empty byte string -/
def parseBytes (s : String) : Option (List Nat) :=
  if s = "-" then some [] else parseHex s.toList

def toHex (bs : List Nat) : String :=
  let d (n : Nat) : Char := if n < 10 then Char.ofNat (48 + n) else Char.ofNat (87 + n)
  if bs.isEmpty then "-" else String.ofList (bs.flatMap (fun b => [d (b / 16), d (b % 16)]))

def showB (r : Except String (List Nat)) : String :=
  match r with
  | .ok bs => s!"ok {toHex bs}"
  | .error e => s!"err {e}"

def handle (args : List String) : String :=
  match args with
  | ["spec", k, i, s, r] =>
    match k.toNat?, i.toNat?, s.toNat?, r.toNat? with
    | some k, some i, some s, some r => s!"ok {Spec.Des.desCryptCore k i s r}"
    | _, _, _, _ => bad
  | ["specplain", k, i] =>
    match k.toNat?, i.toNat? with
    | some k, some i => s!"ok {Spec.Des.desEncrypt k i}"
    | _, _ => bad
  | ["model", k, i, s, r] =>
    match k.toNat?, i.toNat?, s.toNat?, r.toNat? with
    | some k, some i, some s, some r => showE (Model.Des.desEncryptIntBlock k i s r)
    | _, _, _, _ => bad
  | ["expand", k] =>
    match k.toNat? with
    | some k => showE (Model.Des.expandDesKeyInt k)
    | none => bad
  | ["shrink", k] =>
    match k.toNat? with
    | some k => showE (Model.Des.shrinkDesKeyInt k)
    | none => bad
  | ["block", k, i, s, r] =>
    match parseBytes k, parseBytes i, s.toNat?, r.toNat? with
    | some k, some i, some s, some r => showB (Model.Des.desEncryptBlock k i s r)
    | _, _, _, _ => bad
  | ["expandb", k] =>
    match parseBytes k with
    | some k => showB (Model.Des.expandDesKeyBytes k)
    | none => bad
  | ["shrinkb", k] =>
    match parseBytes k with
    | some k => showB (Model.Des.shrinkDesKeyBytes k)
    | none => bad
  | _ => bad

end Driver.Des
