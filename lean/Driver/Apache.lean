import Driver.Util
import PasslibVerif.Model.Apache
namespace Driver.Apache
open Py Driver Model.Apache

def optHex (s : String) : Option (Option Bytes) := if s = "~" then some none else (ofHex s).map some

abbrev VauTable := List ((Bytes × Bytes) × (Bool × Option Bytes))

def parseVau (s : String) : Option VauTable :=
  if s = "-" then some [] else
  (s.splitOn ";").mapM fun e =>
    match e.splitOn "," with
    | [p, h, ok, new] => do
      let p ← ofHex p
      let h ← ofHex h
      let n ← optHex new
      pure ((p, h), (ok = "1", n))
    | _ => none

def vauOf (t : VauTable) (p h : Bytes) : Bool × Option Bytes :=
  match t.lookup (p, h) with
  | some r => r
  | none => (false, none)

def runOp (digest : Bool) (t : VauTable) (s : St) (op : String) : St × String :=
  match op.splitOn ":" with
  | ["L", d] => match ofHex d with
    | some d => (match loadString digest d with
        | .ok s' => (s', "ok")
        | .error e => (s, "err " ++ e.name))
    | none => (s, bad)
  | ["S", u, r, h] => match ofHex u, optHex r, ofHex h with
    | some u, some r, some h => (match setHash s u r h with
        | .ok (s', ex) => (s', if ex then "ok 1" else "ok 0")
        | .error e => (s, "err " ++ e.name))
    | _, _, _ => (s, bad)
  | ["D", u, r] => match ofHex u, optHex r with
    | some u, some r => (match delete s u r with
        | .ok (s', ex) => (s', if ex then "ok 1" else "ok 0")
        | .error e => (s, "err " ++ e.name))
    | _, _ => (s, bad)
  | ["R", r] => match ofHex r with
    | some r => (match deleteRealm s r with
        | .ok (s', n) => (s', s!"ok {n}")
        | .error e => (s, "err " ++ e.name))
    | none => (s, bad)
  | ["G", u, r] => match ofHex u, optHex r with
    | some u, some r => (match getHash s u r with
        | .ok none => (s, "ok none")
        | .ok (some h) => (s, "ok " ++ showHex h)
        | .error e => (s, "err " ++ e.name))
    | _, _ => (s, bad)
  | ["U", r] => match optHex r with
    | some r => (match users s r with
        | .ok us => (s, "ok " ++ ",".intercalate (us.map showHex))
        | .error e => (s, "err " ++ e.name))
    | none => (s, bad)
  | ["C", u, p] => match ofHex u, ofHex p with
    | some u, some p => (match checkPassword (vauOf t) s u p with
        | .ok (s', none) => (s', "ok none")
        | .ok (s', some b) => (s', if b then "ok 1" else "ok 0")
        | .error e => (s, "err " ++ e.name))
    | _, _ => (s, bad)
  | ["T"] => (s, "ok " ++ showHex (toString s))
  | _ => (s, bad)

def handle (args : List String) : String :=
  match args with
  | "run" :: d :: vau :: ops =>
    match parseVau vau with
    | none => bad
    | some t =>
      let (_, outs) := ops.foldl (fun (acc : St × List String) op =>
        let (s', o) := runOp (d = "1") t acc.1 op
        (s', acc.2 ++ [o])) (St.empty, [])
      " | ".intercalate outs
  | ["lines", d] => match ofHex d with
    | some d => "ok " ++ ",".intercalate ((splitLines d).map showHex) | none => bad
  | ["split", d] => match ofHex d with
    | some d => "ok " ++ ",".intercalate ((splitOn 58 d).map showHex) | none => bad
  | ["strip", d] => match ofHex d with
    | some d => "ok " ++ showHex (lstrip d) ++ " " ++ showHex (rstrip d) | none => bad
  | _ => bad

end Driver.Apache
