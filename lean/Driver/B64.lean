import Driver.Util
import PasslibVerif.Model.B64
namespace Driver.B64
open Py Driver Model.B64

def engine (s : String) : Option Engine :=
  match s with
  | "h64" => some h64 | "h64big" => some h64big | "bcrypt64" => some bcrypt64
  | "lp_h64" => some lpH64
  | _ => none

def handle (args : List String) : String :=
  match args with
  | ["enc", e, h] => match engine e, ofHex h with
      | some e, some bs => "ok " ++ showHex (encodeBytes e bs) | _, _ => bad
  | ["lpenc", e, h] => match engine e, ofHex h with
      | some e, some bs => "ok " ++ showHex (lpEncodeBytes e bs) | _, _ => bad
  | ["dec", e, h] => match engine e, ofHex h with
      | some e, some bs => showBytesRes (decodeBytes e bs) | _, _ => bad
  | ["repair", e, h] => match engine e, ofHex h with
      | some e, some bs => showRes (fun (p : Bool × Bytes) => (if p.1 then "1 " else "0 ") ++ showHex p.2)
          (checkRepairUnused e bs)
      | _, _ => bad
  | ["encint", e, bits, v] => match engine e, bits.toNat?, v.toNat? with
      | some e, some b, some v =>
        (match b with
          | 6 => showBytesRes (encodeInt6 e v) | 12 => showBytesRes (encodeInt12 e v)
          | 24 => showBytesRes (encodeInt24 e v) | 30 => showBytesRes (encodeInt30 e v)
          | 64 => showBytesRes (encodeInt64 e v) | _ => bad)
      | _, _, _ => bad
  | ["encintg", e, bits, v] => match engine e, bits.toNat?, v.toNat? with
      | some e, some b, some v => "ok " ++ showHex (encodeInt e v b) | _, _, _ => bad
  | ["decint", e, bits, h] => match engine e, bits.toNat?, ofHex h with
      | some e, some b, some s =>
        (match b with
          | 6 => showNatRes (decodeInt6 e s) | 12 => showNatRes (decodeInt12 e s)
          | 24 => showNatRes (decodeInt24 e s) | 30 => showNatRes (decodeInt e s 30)
          | 64 => showNatRes (decodeInt e s 64) | _ => bad)
      | _, _, _ => bad
  | ["decintg", e, bits, h] => match engine e, bits.toNat?, ofHex h with
      | some e, some b, some s => showNatRes (decodeInt e s b) | _, _, _ => bad
  | ["enct", e, h, offs] => match engine e, ofHex h, natList offs with
      | some e, some bs, some o => showBytesRes (encodeTransposed e bs o) | _, _, _ => bad
  | ["dect", e, h, offs] => match engine e, ofHex h, natList offs with
      | some e, some bs, some o => showBytesRes (decodeTransposed e bs o) | _, _, _ => bad
  | ["b64senc", h] => match ofHex h with | some bs => "ok " ++ showHex (b64sEncode bs) | _ => bad
  | ["ab64enc", h] => match ofHex h with | some bs => "ok " ++ showHex (ab64Encode bs) | _ => bad
  | ["b64sdec", h] => match ofHex h with
      | some bs => (match b64sDecode bs with | some r => showBytesRes r | none => "unmodelled") | _ => bad
  | ["ab64dec", h] => match ofHex h with
      | some bs => (match ab64Decode bs with | some r => showBytesRes r | none => "unmodelled") | _ => bad
  | ["b32enc", h] => match ofHex h with | some bs => "ok " ++ showHex (b32encode bs) | _ => bad
  | ["b32dec", h] => match ofHex h with | some bs => showBytesRes (b32decode bs) | _ => bad
  | _ => bad

end Driver.B64
