/-
  Line protocol for the hash / verify / identify model of the hashers built on another hasher (C01, PrefixWrapper family):

    vfyW <name> hash   <secret> <setting args…>     -> "ok <hash cps>" | "err <kind>"
    vfyW <name> verify <secret> <hash cps>          -> "ok True|False" | "err <kind>"
    vfyW <name> identify <hash cps>                 -> "ok True|False"
    vfyW <name> hverify <secret> <hash cps>         -> `verify` of the HASHER view (`wrapHasher`), for the names over a generic handler

      secret : b:<hex>  (bytes)   |   t:<code points>  (text)
      setting args (code point / byte value lists; te = truncate_error 0|1):
        ldap_des_crypt                                   salt te
        ldap_bsdi_crypt ldap_sha1_crypt                  salt rounds
        ldap_sha256_crypt ldap_sha512_crypt              salt rounds
        ldap_md5_crypt                                   salt
        ldap_bcrypt django_bcrypt                        ident salt rounds te      (salt as passed to `using`; `_norm_salt` repair applied here)
        ldap_pbkdf2_sha1 ldap_pbkdf2_sha256 ldap_pbkdf2_sha512   salt(byte values) rounds
        bsd_nthash ldap_hex_md5 ldap_hex_sha1 roundup_plaintext  -
        django_bcrypt_sha256_code (checksum = the CODE model of `_calc_checksum`, builtin backend flags)   ident salt rounds
-/
import PasslibVerif.Model.VerifyFmt.Wrap
import PasslibVerif.Model.VerifyFmt.WrapCode
import Driver.Verify
import Driver.Util

namespace Driver.VerifyFmtWrap
open Py Driver Driver.Verify Model.Handler Model.Formats Model.Verify Model.VerifyCrypt Model.VerifyFmt.Wrap
open Model.VerifyFmt.DesBcrypt Model.VerifyFmt.Static
open Model.VerifyFmt.Pbkdf (mc3Settings)

def showBool (b : Bool) : String := if b then "True" else "False"

def flag : String → Option Bool
  | "0" => some false
  | "1" => some true
  | _ => none

/-- the instance (for verify / identify the truncation policy is the class default: off) and, where there is one, the wrapped hasher -/
def inst (name : String) (te : Bool := false) : Option (Inst × Option Hasher) :=
  match name with
  | "ldap_des_crypt" => some (ldap_des_cryptI te, some (desHasher te))
  | "ldap_bsdi_crypt" => some (ldap_bsdi_cryptI, some bsdiHasher)
  | "ldap_sha1_crypt" => some (ldap_sha1_cryptI, some Model.VerifyFmt.Pbkdf.sha1CryptHasher)
  | "ldap_bcrypt" => some (ldap_bcryptI te, none)
  | "django_bcrypt" => some (django_bcryptI te, none)
  | "ldap_md5_crypt" => some (ldap_md5_cryptI, some (md5Hasher false))
  | "ldap_sha256_crypt" => some (ldap_sha256_cryptI, some sha256Hasher)
  | "ldap_sha512_crypt" => some (ldap_sha512_cryptI, some sha512Hasher)
  | "bsd_nthash" => some (bsd_nthashI, some nthashHasher)
  | "ldap_hex_md5" => some (ldap_hex_md5I, some hex_md5Hasher)
  | "ldap_hex_sha1" => some (ldap_hex_sha1I, some hex_sha1Hasher)
  | "ldap_pbkdf2_sha1" => some (ldap_pbkdf2_sha1I, some Model.VerifyFmt.Pbkdf.pbkdf2_sha1Hasher)
  | "ldap_pbkdf2_sha256" => some (ldap_pbkdf2_sha256I, some Model.VerifyFmt.Pbkdf.pbkdf2_sha256Hasher)
  | "ldap_pbkdf2_sha512" => some (ldap_pbkdf2_sha512I, some Model.VerifyFmt.Pbkdf.pbkdf2_sha512Hasher)
  | "roundup_plaintext" => some (roundup_plaintextI, none)
  | _ => none

/-- `hash` with the settings given on the line -/
def hashOp (name : String) (s : Secret) (args : List String) : Option (Res Str) :=
  match name, args with
  | "ldap_des_crypt", [salt, te] => do
      let salt ← natList salt; let te ← flag te
      pure ((ldap_des_cryptI te).wHash s (desSettings salt))
  | "ldap_bsdi_crypt", [salt, rounds] => do
      let salt ← natList salt; let r ← rounds.toNat?
      pure (ldap_bsdi_cryptI.wHash s (bsdiSettings salt r))
  | "ldap_sha1_crypt", [salt, rounds] => do
      let salt ← natList salt; let r ← rounds.toNat?
      pure (ldap_sha1_cryptI.wHash s (mc3Settings SHA1C_IDENT salt r))
  | "ldap_md5_crypt", [salt] => do
      let salt ← natList salt
      pure (ldap_md5_cryptI.wHash s { ident := md5Ident false, salt := some salt })
  | "ldap_sha256_crypt", [salt, rounds] => do
      let salt ← natList salt; let r ← rounds.toNat?
      pure (ldap_sha256_cryptI.wHash s (sha2Settings (ofString "$5$") salt r))
  | "ldap_sha512_crypt", [salt, rounds] => do
      let salt ← natList salt; let r ← rounds.toNat?
      pure (ldap_sha512_cryptI.wHash s (sha2Settings (ofString "$6$") salt r))
  | "ldap_bcrypt", [ident, salt, rounds, te] => do
      let ident ← natList ident; let salt ← natList salt; let r ← rounds.toNat?; let te ← flag te
      pure (match bcNormSalt salt with
        | some salt' => (ldap_bcryptI te).wHash s (bcryptSettings ident salt' r)
        | none => .error .valueError)
  | "django_bcrypt", [ident, salt, rounds, te] => do
      let ident ← natList ident; let salt ← natList salt; let r ← rounds.toNat?; let te ← flag te
      pure (match bcNormSalt salt with
        | some salt' => (django_bcryptI te).wHash s (bcryptSettings ident salt' r)
        | none => .error .valueError)
  | "ldap_pbkdf2_sha1", [salt, rounds] => do
      let salt ← natList salt; let r ← rounds.toNat?
      pure (ldap_pbkdf2_sha1I.wHash s (mc3Settings ldap_pbkdf2_sha1I.orig salt r))
  | "ldap_pbkdf2_sha256", [salt, rounds] => do
      let salt ← natList salt; let r ← rounds.toNat?
      pure (ldap_pbkdf2_sha256I.wHash s (mc3Settings ldap_pbkdf2_sha256I.orig salt r))
  | "ldap_pbkdf2_sha512", [salt, rounds] => do
      let salt ← natList salt; let r ← rounds.toNat?
      pure (ldap_pbkdf2_sha512I.wHash s (mc3Settings ldap_pbkdf2_sha512I.orig salt r))
  | "bsd_nthash", [] => some (bsd_nthashI.wHash s noSettings)
  | "ldap_hex_md5", [] => some (ldap_hex_md5I.wHash s noSettings)
  | "ldap_hex_sha1", [] => some (ldap_hex_sha1I.wHash s noSettings)
  | "roundup_plaintext", [] => some (roundup_plaintextI.wHash s {})
  | "django_bcrypt_sha256_code", [ident, salt, rounds] => do
      let ident ← natList ident; let salt ← natList salt; let r ← rounds.toNat?
      pure (match bcNormSalt salt with
        | some salt' => hashSecret (djangoBcryptSha256CodeHasher Model.Code.Wrap.builtinFlags) s (bcryptSettings ident salt' r)
        | none => .error .valueError)
  | _, _ => none

def handle (args : List String) : String :=
  match args with
  | name :: "hash" :: sec :: rest => match parseSecret sec with
    | some s => match hashOp name s rest with
      | some r => showRes showNatList r
      | none => bad
    | none => bad
  | ["django_bcrypt_sha256_code", "verify", sec, hs] => match parseSecret sec, natList hs with
    | some s, some hs => showRes showBool (Model.Verify.verify (djangoBcryptSha256CodeHasher Model.Code.Wrap.builtinFlags) s hs)
    | _, _ => bad
  | [name, "verify", sec, hs] => match parseSecret sec, natList hs, inst name with
    | some s, some hs, some (i, _) => showRes showBool (i.wVerify s hs)
    | _, _, _ => bad
  | [name, "hverify", sec, hs] => match parseSecret sec, natList hs, inst name with
    | some s, some hs, some (i, some h) => showRes showBool (Model.Verify.verify (wrapHasher i.pfx i.orig h) s hs)
    | _, _, _ => bad
  | [name, "identify", hs] => match natList hs, inst name with
    | some hs, some (i, _) => "ok " ++ showBool (i.wIdentify hs)
    | _, _ => bad
  | _ => bad

end Driver.VerifyFmtWrap
