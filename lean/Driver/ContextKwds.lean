import Driver.Util
import PasslibVerif.Model.ContextKwds
/-
suite `ckw`:  ckw <history> <call> <call> …      (answers joined by " | "; the calls run one after the other on the same object)
  history  = events joined by ";"; an event is "X" (failed load / no-op update) or a configuration
             hashers|cats|own|dep|defaults
               hashers  name:kw+kw:req+req,…   ("-" = none)        cats  a,b | -
               own      scheme@cat,…                                dep   scheme@cat,… (cat "-" = default category)
               defaults cat=scheme,… (cat "-" = default category)
  call     = hash/<scheme>/<cat>/<kws>            verify|vau/<hash>/<scheme>/<cat>/<kws>/<dummy facts>
             needs/<hash>/<scheme>/<cat>           identify/<hash>/<cat>/<required 0|1>
             handler/<scheme>/<cat>                flag
  argument = N | O (a non-str object) | s.<text>;  hash = N | O | f.<facts>;  facts = scheme=<claims 0|1><verify T|F|E|Y><stale T|F|E|Y><undeclared kw E|Y><missing kw E|Y>,…
-/
namespace Driver.ContextKwds
open Py Driver Model.ContextKwds

def listOf (sep : String) (s : String) : List String := if s = "-" || s = "" then [] else s.splitOn sep

def catOf (s : String) : Cat := if s = "-" then none else some s

def hasherOf (s : String) : Option Hasher :=
  match s.splitOn ":" with
  | [n, kws, req] => some ⟨n, listOf "+" kws, listOf "+" req⟩
  | _ => none

def pairOf (sep : String) (s : String) : Option (String × String) :=
  match s.splitOn sep with
  | [a, b] => some (a, b)
  | _ => none

def cfgOf (s : String) : Option Cfg :=
  match s.splitOn "|" with
  | [hs, cats, own, dep, defs] => do
    let hs ← (listOf "," hs).mapM hasherOf
    let own ← (listOf "," own).mapM (pairOf "@")
    let dep ← (listOf "," dep).mapM (pairOf "@")
    let defs ← (listOf "," defs).mapM (pairOf "=")
    pure ⟨hs, listOf "," cats, own, dep.map (fun p => (p.1, catOf p.2)), defs.map (fun p => (catOf p.1, p.2))⟩
  | _ => none

def eventOf (s : String) : Option Event := if s = "X" then some .failed else (cfgOf s).map .load

def argOf (s : String) : Option Arg :=
  if s = "N" then some .none else if s = "O" then some .other
  else if s.startsWith "s." then some (.str (s.drop 2).toString) else none

def resB (c : Char) : Option (Res Bool) :=
  if c = 'T' then some (.ok true) else if c = 'F' then some (.ok false)
  else if c = 'E' then some (.error .valueError) else if c = 'Y' then some (.error .typeError) else none

def factOf (s : String) : Option (String × SchemeFacts) :=
  match s.splitOn "=" with
  | [n, v] => match v.toList with
    | [c, a, b, u, m] => do
      let a ← resB a
      let b ← resB b
      let ek (x : Char) : ErrKind := if x = 'E' then .valueError else .typeError
      pure (n, ⟨c = '1', a, b, ek u, ek m⟩)
    | _ => none
  | _ => none

def factsFn (l : List (String × SchemeFacts)) (n : String) : SchemeFacts :=
  match l.find? (·.1 = n) with
  | some p => p.2
  | none => ⟨false, .error .valueError, .error .valueError, .valueError, .valueError⟩

def factsOf (s : String) : Option (String → SchemeFacts) := ((listOf "," s).mapM factOf).map factsFn

def hashOf (s : String) : Option HashArg :=
  if s = "N" then some .none else if s = "O" then some .other
  else if s.startsWith "f." then (factsOf (s.drop 2).toString).map .str else none

def showCat : Cat → String | none => "-" | some k => k
def showOp : Op → String | .hash => "hash" | .verify => "verify" | .needsUpdate => "needs"
def showCall (c : Call) : String := s!"{c.scheme}@{showCat c.cat}.{showOp c.op}({"+".intercalate c.kws})"
def showTrace (t : List Call) : String := if t.isEmpty then "-" else ",".intercalate (t.map showCall)
def showB (b : Bool) : String := if b then "T" else "F"
def showRec (r : Rec) : String := s!"{r.hasher.name}@{showCat r.cat}" ++ (if r.deprecated then " dep" else " nodep")
def withTrace {α} (f : α → String) (t : List Call) (r : Res α) : String := showRes f r ++ " # " ++ showTrace t

def runCall (st : State) (q : String) : String × State :=
  match q.splitOn "/" with
  | ["flag"] => ("ok " ++ (if st.instNone then "1" else "0"), st)
  | ["hash", sc, cat, kws] => match argOf sc, argOf cat with
    | some sc, some cat => let (t, r) := ctxHash st sc cat (listOf "+" kws); (withTrace (fun _ => "H") t r, st)
    | _, _ => (bad, st)
  | ["verify", h, sc, cat, kws, df] => match hashOf h, argOf sc, argOf cat, factsOf df with
    | some h, some sc, some cat, some df =>
      let (t, r, s) := ctxVerify st h sc cat (listOf "+" kws) df; (withTrace showB t r, s)
    | _, _, _, _ => (bad, st)
  | ["vau", h, sc, cat, kws, df] => match hashOf h, argOf sc, argOf cat, factsOf df with
    | some h, some sc, some cat, some df =>
      let (t, r, s) := ctxVau st h sc cat (listOf "+" kws) df
      (withTrace (fun o => match o with | .fail => "F N" | .ok => "T N" | .rehash => "T H") t r, s)
    | _, _, _, _ => (bad, st)
  | ["needs", h, sc, cat] => match hashOf h, argOf sc, argOf cat with
    | some h, some sc, some cat => let (t, r) := ctxNeedsUpdate st h sc cat; (withTrace showB t r, st)
    | _, _, _ => (bad, st)
  | ["identify", h, cat, req] => match hashOf h, argOf cat with
    | some h, some cat => (showRes (fun o => match o with | none => "None" | some n => n) (ctxIdentify st h cat (req = "1")), st)
    | _, _ => (bad, st)
  | ["handler", sc, cat] => match argOf sc, argOf cat with
    | some sc, some cat => (showRes showRec (ctxHandler st sc cat), st)
    | _, _ => (bad, st)
  | _ => (bad, st)

def handle (args : List String) : String :=
  match args with
  | hist :: calls =>
    match (hist.splitOn ";").mapM eventOf with
    | some evs =>
      let st := run State.raw evs
      let (outs, _) := calls.foldl (fun (acc : List String × State) q => let (o, s) := runCall acc.2 q; (acc.1 ++ [o], s)) ([], st)
      " | ".intercalate outs
    | none => bad
  | _ => bad

end Driver.ContextKwds
