/-
  Line protocol for the hash / verify / identify model of the DES / bcrypt family (C01):

    vfyD <name> hash   <secret> <setting args…>     -> "ok <hash cps>" | "err <kind>"
    vfyD <name> verify <secret> <hash cps>          -> "ok True|False" | "err <kind>"
    vfyD <name> identify <hash cps>                 -> "ok True|False"

      secret : b:<hex>  (bytes)   |   t:<code points>  (text)
      setting args (code point lists; te = truncate_error 0|1):
        des_crypt crypt16 django_des_crypt     salt te
        bigcrypt                               salt
        bsdi_crypt                             salt rounds
        phpass                                 ident salt rounds
        sun_md5_crypt                          salt rounds bare(0|1)
        bcrypt django_bcrypt                   ident salt rounds te
        bcrypt_sha256                          version ident salt rounds
        django_bcrypt_sha256                   ident salt rounds
      the bcrypt salts are given as passed to `using(salt=…)`; the padding-bit repair of `_norm_salt` is applied here.
-/
import PasslibVerif.Model.VerifyFmt.DesBcrypt
import Driver.Verify
import Driver.Util

namespace Driver.VerifyFmtDesBcrypt
open Py Driver Driver.Verify Model.Handler Model.Formats Model.Verify Model.VerifyFmt.DesBcrypt

def showBool (b : Bool) : String := if b then "True" else "False"

def flag : String → Option Bool
  | "0" => some false
  | "1" => some true
  | _ => none

/-- `hash` with the settings given on the line -/
def hashOp (name : String) (s : Secret) (args : List String) : Option (Res Str) :=
  match name, args with
  | "des_crypt", [salt, te] => do
      let salt ← natList salt; let te ← flag te
      pure (hashSecret (desHasher te) s (desSettings salt))
  | "crypt16", [salt, te] => do
      let salt ← natList salt; let te ← flag te
      pure (hashSecret (crypt16Hasher te) s (desSettings salt))
  | "django_des_crypt", [salt, te] => do
      let salt ← natList salt; let te ← flag te
      pure (hashSecret (djangoDesHasher te) s (djangoDesSettings salt))
  | "bigcrypt", [salt] => do
      let salt ← natList salt
      pure (hashSecret bigcryptHasher s (desSettings salt))
  | "bsdi_crypt", [salt, rounds] => do
      let salt ← natList salt; let r ← rounds.toNat?
      pure (hashSecret bsdiHasher s (bsdiSettings salt r))
  | "phpass", [ident, salt, rounds] => do
      let ident ← natList ident; let salt ← natList salt; let r ← rounds.toNat?
      pure (hashSecret phpassHasher s (phpassSettings ident salt r))
  | "sun_md5_crypt", [salt, rounds, bare] => do
      let salt ← natList salt; let r ← rounds.toNat?; let bare ← flag bare
      pure (hashSecret sunHasher s (sunSettings salt r bare))
  | "bcrypt", [ident, salt, rounds, te] => do
      let ident ← natList ident; let salt ← natList salt; let r ← rounds.toNat?; let te ← flag te
      pure (match bcNormSalt salt with
        | some salt' => bcHashSecret (bcryptHasher te) s (bcryptSettings ident salt' r)
        | none => .error .valueError)
  | "django_bcrypt", [ident, salt, rounds, te] => do
      let ident ← natList ident; let salt ← natList salt; let r ← rounds.toNat?; let te ← flag te
      pure (match bcNormSalt salt with
        | some salt' => djangoBcryptHash te s (bcryptSettings ident salt' r)
        | none => .error .valueError)
  | "bcrypt_sha256", [ver, ident, salt, rounds] => do
      let ver ← ver.toNat?; let ident ← natList ident; let salt ← natList salt; let r ← rounds.toNat?
      pure (match bcNormSalt salt with
        | some salt' => hashSecret bcryptSha256Hasher s (bcryptSha256Settings ver ident salt' r)
        | none => .error .valueError)
  | "django_bcrypt_sha256", [ident, salt, rounds] => do
      let ident ← natList ident; let salt ← natList salt; let r ← rounds.toNat?
      pure (match bcNormSalt salt with
        | some salt' => hashSecret djangoBcryptSha256Hasher s (bcryptSettings ident salt' r)
        | none => .error .valueError)
  | _, _ => none

def verifyOp (name : String) (s : Secret) (hs : Str) : Option (Res Bool) :=
  match name with
  | "des_crypt" => some (verify (desHasher false) s hs)
  | "crypt16" => some (verify (crypt16Hasher false) s hs)
  | "django_des_crypt" => some (verify (djangoDesHasher false) s hs)
  | "bigcrypt" => some (verify bigcryptHasher s hs)
  | "bsdi_crypt" => some (verify bsdiHasher s hs)
  | "phpass" => some (verify phpassHasher s hs)
  | "sun_md5_crypt" => some (verify sunHasher s hs)
  | "bcrypt" => some (bcVerify (bcryptHasher false) s hs)
  | "django_bcrypt" => some (djangoBcryptVerify false s hs)
  | "bcrypt_sha256" => some (verify bcryptSha256Hasher s hs)
  | "django_bcrypt_sha256" => some (verify djangoBcryptSha256Hasher s hs)
  | _ => none

def identifyOp (name : String) (hs : Str) : Option Bool :=
  (desBcryptAll.find? (·.name = name)).map (·.identify hs)

def handle (args : List String) : String :=
  match args with
  | name :: "hash" :: sec :: rest => match parseSecret sec with
    | some s => match hashOp name s rest with
      | some r => showRes showNatList r
      | none => bad
    | none => bad
  | [name, "verify", sec, hs] => match parseSecret sec, natList hs with
    | some s, some hs => match verifyOp name s hs with
      | some r => showRes showBool r
      | none => bad
    | _, _ => bad
  | [name, "identify", hs] => match natList hs with
    | some hs => match identifyOp name hs with
      | some b => "ok " ++ showBool b
      | none => bad
    | none => bad
  | _ => bad

end Driver.VerifyFmtDesBcrypt
