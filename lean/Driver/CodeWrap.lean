/-
  Line protocol for the models of the hashers built from another hasher / adding a pre-hash (C02, group `Wrap`,
  Model/Code/Wrap.lean):

    cwrap repeat  <hex> <size>                                                   repeat_string (non-empty source)
    cwrap norm    <flags> <cls> <secret> <ident cps> <new 0|1>                   _BcryptCommon._norm_digest_args   -> ok <hex secret>:<hex ident>
    cwrap bcrypt  <flags> <cls> <ident cps> <salt cps> <rounds> <use_defaults 0|1> <secret>     _BuiltinBackend._calc_checksum
    cwrap bsha    <flags> <version> <ident cps> <salt cps> <rounds> <use_defaults 0|1> <secret> bcrypt_sha256._calc_checksum
    cwrap dbsha   <flags> <ident cps> <salt cps> <rounds> <use_defaults 0|1> <secret>           django_bcrypt_sha256._calc_checksum
    cwrap wrap    <prefix cps> <orig_prefix cps> <hash cps>                      PrefixWrapper._wrap_hash
    cwrap unwrap  <prefix cps> <orig_prefix cps> <hash cps>                      PrefixWrapper._unwrap_hash

      flags  : <wraparound><lacks20><lacks2y><lacks2b>:<fallback ident cps>   e.g. 0000:36,50,98,36
      cls    : w (the _wrapped_bcrypt classes) | b0 | b1 (bcrypt, truncate_error False / True)
      secret : b:<hex> (bytes) | t:<code points> (text)
      answers: "ok <hex of the returned bytes / ASCII characters>" | "err <kind>"
-/
import PasslibVerif.Model.Code.Wrap
import Driver.Digest
import Driver.Util

namespace Driver.CodeWrap
open Py Driver Driver.Digest Model.Code.Wrap
open Model.Verify (Secret)

def parseSecret (s : String) : Option Secret :=
  if s.startsWith "b:" then (unhex (s.drop 2).toString).map Secret.bytes
  else if s.startsWith "t:" then (natList (s.drop 2).toString).map Secret.text
  else none

def parseBool (s : String) : Option Bool :=
  if s = "1" then some true else if s = "0" then some false else none

def parseFlags (s : String) : Option Flags :=
  match s.splitOn ":" with
  | [bits, fb] =>
    match bits.toList.map (fun c => parseBool (String.singleton c)), natList fb with
    | [some a, some b, some c, some d], some fb => some ⟨a, b, c, d, fb⟩
    | _, _ => none
  | _ => none

def parseCls (s : String) : Option Cls :=
  if s = "w" then some wrappedCls else if s = "b0" then some (bcryptCls false) else if s = "b1" then some (bcryptCls true) else none

def out (r : Res Bytes) : String := showRes showHex r

def handle (args : List String) : String :=
  match args with
  | ["repeat", src, size] => match unhex src, size.toNat? with
    | some s, some n => if s.isEmpty then bad else out (.ok (repeatString s n))
    | _, _ => bad
  | ["norm", fl, cls, sec, ident, new] => match parseFlags fl, parseCls cls, parseSecret sec, natList ident, parseBool new with
    | some fl, some cls, some s, some ident, some new =>
      showRes (fun (p : Bytes × List Nat) => showHex p.1 ++ ":" ++ showHex p.2) (normDigestArgs fl cls s ident new)
    | _, _, _, _, _ => bad
  | ["bcrypt", fl, cls, ident, salt, r, ud, sec] =>
    match parseFlags fl, parseCls cls, natList ident, natList salt, r.toNat?, parseBool ud, parseSecret sec with
    | some fl, some cls, some ident, some salt, some r, some ud, some s => out (builtinCalcChecksum fl cls ident salt r ud s)
    | _, _, _, _, _, _, _ => bad
  | ["bsha", fl, v, ident, salt, r, ud, sec] =>
    match parseFlags fl, v.toNat?, natList ident, natList salt, r.toNat?, parseBool ud, parseSecret sec with
    | some fl, some v, some ident, some salt, some r, some ud, some s => out (bcryptSha256CalcChecksum fl v ident salt r ud s)
    | _, _, _, _, _, _, _ => bad
  | ["dbsha", fl, ident, salt, r, ud, sec] =>
    match parseFlags fl, natList ident, natList salt, r.toNat?, parseBool ud, parseSecret sec with
    | some fl, some ident, some salt, some r, some ud, some s => out (djangoBcryptSha256CalcChecksum fl ident salt r ud s)
    | _, _, _, _, _, _ => bad
  | ["wrap", p, o, h] => match natList p, natList o, natList h with
    | some p, some o, some h => showRes showNatList (wrapHash ⟨p, o⟩ h)
    | _, _, _ => bad
  | ["unwrap", p, o, h] => match natList p, natList o, natList h with
    | some p, some o, some h => showRes showNatList (unwrapHash ⟨p, o⟩ h)
    | _, _, _ => bad
  | _ => bad

end Driver.CodeWrap
