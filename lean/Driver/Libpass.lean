/-
  Line protocol for the libpass / passlib interop model (C20):

    lp sha   <256|512> <R> hash     <hexsecret> <salt cps>   -> "ok <hash cps>"
    lp sha   <256|512> <R> verify   <hash cps> <hexsecret>   -> "ok True|False"
    lp sha   <256|512> <R> identify <hash cps>               -> "ok True|False"
    lp sha   <256|512> <R> needs    <hash cps>               -> "ok True|False"
    lp pbkdf <256|512> <R> hash     <hexsecret> <hexsalt> <rounds>
    lp pbkdf <256|512> <R> verify|identify|needs …
    lp passlib <256|512> verify <hash cps> <hexsecret>       -> the classic hasher (Model.VerifyCrypt) on the same string
    lp passlib <256|512> hash   <hexsecret> <salt cps> <rounds>
    lp bc <R> identify|needs <hash cps>
    lp bc <R> verify <hash cps> <0|1|E>        -- what bcrypt.checkpw answered (E = it raised ValueError) on the real side
    lp bcsha <R> identify|needs <record cps>
    lp bcsha <R> verify <record cps> <0|1>     -- the last field is what bcrypt.checkpw answered on the real side (bcrypt is a parameter of the model)
-/
import PasslibVerif.Model.Libpass
import PasslibVerif.Model.LibpassCodec
import PasslibVerif.Model.LibpassBcrypt
import PasslibVerif.Model.VerifyCrypt
import PasslibVerif.Model.B64
import PasslibVerif.Spec.Pbkdf
import Driver.Digest
import Driver.Util

namespace Driver.Libpass
open Py Driver Driver.Digest Model.Handler Model.Libpass Model.Verify Model.VerifyCrypt

def sha (v : String) (R : Nat) : Option ShaHasher :=
  match v with
  | "256" => some ⟨ofString "$5$", 43, R, fun b salt r => Model.ShaCrypt.lpSha256 Spec.SHA256.sha256 b salt r⟩
  | "512" => some ⟨ofString "$6$", 86, R, fun b salt r => Model.ShaCrypt.lpSha512 Spec.SHA512.sha512 b salt r⟩
  | _ => none

def pbkdf (v : String) (R : Nat) : Option PbkdfHasher :=
  match v with
  | "256" => some (lpPbkdf256 R)
  | "512" => some (lpPbkdf512 R)
  | _ => none

def showB : Res Bool → String := showRes (fun b => if b then "True" else "False")
def showS : Res Str → String := showRes showNatList

def classic (v : String) : Option Hasher :=
  match v with | "256" => some sha256Hasher | "512" => some sha512Hasher | _ => none

def handle (args : List String) : String :=
  match args with
  | ["sha", v, r, "hash", sec, salt] => match r.toNat?.bind (sha v), unhex sec, natList salt with
    | some h, some b, some s => showS (h.hash b s) | _, _, _ => bad
  | ["sha", v, r, "verify", hs, sec] => match r.toNat?.bind (sha v), natList hs, unhex sec with
    | some h, some hs, some b => showB (h.verify hs b) | _, _, _ => bad
  | ["sha", v, r, "identify", hs] => match r.toNat?.bind (sha v), natList hs with
    | some h, some hs => showB (h.identify hs) | _, _ => bad
  | ["sha", v, r, "needs", hs] => match r.toNat?.bind (sha v), natList hs with
    | some h, some hs => showB (h.needsUpdate hs) | _, _ => bad
  | ["pbkdf", v, r, "hash", sec, salt, rounds] => match r.toNat?.bind (pbkdf v), unhex sec, unhex salt, rounds.toNat? with
    | some h, some b, some s, some n => if s.isEmpty ∨ n = 0 then "unmodelled" else showS (h.hashWith b s n) | _, _, _, _ => bad
  | ["pbkdf", v, r, "verify", hs, sec] => match r.toNat?.bind (pbkdf v), natList hs, unhex sec with
    | some h, some hs, some b => (match h.verify hs b with | .error .runtimeError => "unmodelled" | x => showB x) | _, _, _ => bad
  | ["pbkdf", v, r, "identify", hs] => match r.toNat?.bind (pbkdf v), natList hs with
    | some h, some hs => showB (match h.inspect hs with | .error e => .error e | .ok x => .ok x.isSome) | _, _ => bad
  | ["pbkdf", v, r, "needs", hs] => match r.toNat?.bind (pbkdf v), natList hs with
    | some h, some hs => showB (h.needsUpdate hs) | _, _ => bad
  | ["bc", r, "identify", hs] => match r.toNat?, natList hs with
    | some R, some hs => showB ((⟨R, fun _ _ => .ok false⟩ : BcHasher).identify hs) | _, _ => bad
  | ["bc", r, "needs", hs] => match r.toNat?, natList hs with
    | some R, some hs => showB ((⟨R, fun _ _ => .ok false⟩ : BcHasher).needsUpdate hs) | _, _ => bad
  | ["bc", r, "verify", hs, ck] => match r.toNat?, natList hs with
    | some R, some hs =>
      let ans : Res Bool := if ck == "E" then .error .valueError else .ok (ck == "1")
      showB ((⟨R, fun _ _ => ans⟩ : BcHasher).verify hs []) | _, _ => bad
  | ["bcsha", r, "identify", hs] => match r.toNat?, natList hs with
    | some R, some hs => showB ((⟨R, fun _ _ _ _ _ => false⟩ : BcSha256Hasher).identify hs) | _, _ => bad
  | ["bcsha", r, "needs", hs] => match r.toNat?, natList hs with
    | some R, some hs => showB ((⟨R, fun _ _ _ _ _ => false⟩ : BcSha256Hasher).needsUpdate hs) | _, _ => bad
  | ["bcsha", r, "verify", hs, ck] => match r.toNat?, natList hs with
    | some R, some hs => showB ((⟨R, fun _ _ _ _ _ => ck == "1"⟩ : BcSha256Hasher).verify hs []) | _, _ => bad
  | ["passlib", v, "verify", hs, sec] => match classic v, natList hs, unhex sec with
    | some h, some hs, some b => showB (verify h (.bytes b) hs) | _, _, _ => bad
  | ["passlib", v, "hash", sec, salt, rounds] => match classic v, unhex sec, natList salt, rounds.toNat? with
    | some h, some b, some s, some n =>
      showS (hashSecret h (.bytes b) (sha2Settings (ofString (if v = "256" then "$5$" else "$6$")) s n))
    | _, _, _, _ => bad
  | _ => bad

end Driver.Libpass
