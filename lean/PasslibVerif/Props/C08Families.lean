import PasslibVerif.Props.C08FamiliesPbkdf
import PasslibVerif.Props.C08FamiliesDesBcrypt
import PasslibVerif.Props.C08FamiliesStatic
/-
C08 at hasher level for the C01 format families — index.  The generic theorems (for ANY `Model.Verify.Hasher` with `C08Facts`) are in
Lemmas/C08Families.lean; the per-hasher corollaries are generated (tools/dev/gen_c08_families.py) into

  Props/C08FamiliesPbkdf.lean       13 hashers + 3 LDAP wrappers     (examples: Props/C08FamiliesPbkdfExamples.lean)
  Props/C08FamiliesDesBcrypt.lean   10 hashers + django_bcrypt        (examples: Props/C08FamiliesDesBcryptExamples.lean)
  Props/C08FamiliesStatic.lean      24 hashers + 3 wrappers + mssql2000 / htdigest own `verify`  (examples: Props/C08FamiliesStaticExamples.lean)

Not covered yet: the Misc family (fshp, scrypt, scram) and the Wrap family (`Inst.wVerify`, plaintext, roundup_plaintext).

The generic set restated here on the structure, so that the property reads in one place: for every hasher `h` with `C08Facts extra h`,
every stored string and every secret.
-/
namespace Props.C08Families
open Py Model.Handler Model.Verify Props.C01 Lemmas.C08Families

theorem verify_total {extra : List ErrKind} {h : Hasher} (F : C08Facts extra h) (s : Secret) (hs : Str) :
    Total extra h.rejectsNul (verify h s hs) := Lemmas.C08Families.verify_total F s hs

theorem altered_checksum_rejected {extra : List ErrKind} {h : Hasher} (F : C08Facts extra h) (s : Secret) (hs hs' : Str) (p : Parsed)
    (c c' : Str) (hp : h.parse hs = .ok { p with checksum := some c }) (hp' : h.parse hs' = .ok { p with checksum := some c' })
    (hne : c' ≠ c) (hv : verify h s hs = .ok true) : verify h s hs' = .ok false :=
  Lemmas.C08Families.altered_checksum_rejected F s hs hs' p c c' hp hp' hne hv

theorem altered_hash_rejected {extra : List ErrKind} {h : Hasher} (F : C08Facts extra h) (s : Secret) (p : Parsed) (hs hs' c' : Str)
    (hrt : RoundTrips h p) (hh : hashSecret h s p = .ok hs) (hp' : h.parse hs' = .ok { p with checksum := some c' })
    (hne : h.parse hs' ≠ h.parse hs) : verify h s hs' = .ok false :=
  Lemmas.C08Families.altered_hash_rejected F s p hs hs' c' hrt hh hp' hne

theorem same_parse_same_answer (h : Hasher) (s : Secret) (h1 h2 : Str) (hp : h.parse h1 = h.parse h2) :
    verify h s h1 = verify h s h2 := Lemmas.C08Families.same_parse_same_answer h s h1 h2 hp

theorem config_string_value_error (h : Hasher) (s : Secret) (hs : Str) (p : Parsed) (hl : s.len ≤ MAX_PASSWORD_SIZE)
    (hp : h.parse hs = .ok p) (hc : p.checksum = none) : verify h s hs = .error .valueError :=
  Lemmas.C08Families.config_string_value_error h s hs p hl hp hc

/-- non-vacuity of the structure: the toy hasher of Props/C01.lean has the facts -/
example : C08Facts [] Props.C01.toy where
  parseErr := fun hs e he => by
    unfold Props.C01.toy at he; simp only at he
    split at he
    · cases he
    · cases he; exact Or.inl rfl
  digestErr := fun hs p b e _ he => by cases he
  ignores := fun _ _ _ => rfl

end Props.C08Families
