import PasslibVerif.Props.C01
/-
C08 — malformed or altered hash strings.  The logic part, for ANY hasher: `verify` looks at a stored string only through
`from_string`; two strings that parse to the same value are indistinguishable (this is exactly the set of "documented equivalent
re-encodings": hex letter case, unused padding bits — which strings parse alike is proved per format under C07/C12); a string whose
checksum field differs never verifies a secret the original verified; the only errors `verify` raises are the size / value / NUL
errors of its own checks, the parser's, and the digest's.  That parsers raise nothing but ValueError/TypeError on arbitrary input, and
that `identify` never raises, is established against the real code on mutation streams (corr/C08.py, corr/C07.py).
-/
namespace Props.C08
open Py Model.Handler Model.Verify Props.C01

/-- `verify` sees a stored string only through the parser -/
theorem verify_depends_on_parse (h : Hasher) (s : Secret) (h1 h2 : Str) (hp : h.parse h1 = h.parse h2) :
    verify h s h1 = verify h s h2 := by
  unfold verify; rw [hp]

/-- altering the checksum (and nothing else) of a stored hash makes every secret that verified stop verifying -/
theorem altered_checksum_never_verifies (h : Hasher) (s : Secret) (hs hs' : Str) (p : Parsed) (c c' : Str)
    (hi : IgnoresChecksum h) (hp : h.parse hs = .ok { p with checksum := some c })
    (hp' : h.parse hs' = .ok { p with checksum := some c' }) (hne : c' ≠ c)
    (hv : verify h s hs = .ok true) : verify h s hs' = .ok false := by
  unfold verify at hv ⊢
  cases hvs : validateSecret s with
  | error e => simp [hvs] at hv
  | ok u =>
    simp only [hvs, hp, hp'] at hv ⊢
    rw [checksumOf_ignores h hi] at hv ⊢
    cases hc : checksumOf h false s p with
    | error e => simp [hc] at hv
    | ok d =>
      simp only [hc, Except.ok.injEq, beq_iff_eq] at hv ⊢
      subst hv
      simpa using fun e => hne e.symm

/-- a string without a checksum (a configuration string) never verifies: it is a value error -/
theorem config_string_is_value_error (h : Hasher) (s : Secret) (hs : Str) (p : Parsed)
    (hv : validateSecret s = .ok ()) (hp : h.parse hs = .ok p) (hc : p.checksum = none) :
    verify h s hs = .error .valueError := by
  unfold verify; simp [hv, hp, hc]

/-- a string the parser refuses is refused by `verify` with the parser's error -/
theorem unparsable_is_refused (h : Hasher) (s : Secret) (hs : Str) (e : ErrKind)
    (hv : validateSecret s = .ok ()) (hp : h.parse hs = .error e) : verify h s hs = .error e := by
  unfold verify; simp [hv, hp]

/-- the errors `verify` can raise: its own three checks, the parser's, the digest's -/
theorem verify_error_sources (h : Hasher) (s : Secret) (hs : Str) (e : ErrKind) (hv : verify h s hs = .error e) :
    e = .sizeError ∨ e = .valueError ∨ e = .nullError ∨ h.parse hs = .error e ∨ ∃ b p, h.digest b p = .error e := by
  unfold verify at hv
  cases hvs : validateSecret s with
  | error e' =>
    simp only [hvs, Except.error.injEq] at hv
    unfold validateSecret at hvs
    by_cases hl : s.len > MAX_PASSWORD_SIZE
    · simp [hl] at hvs; left; rw [← hv, ← hvs]
    · simp [hl] at hvs
  | ok u =>
    simp only [hvs] at hv
    cases hp : h.parse hs with
    | error e' => simp only [hp, Except.error.injEq] at hv; right; right; right; left; rw [hv]
    | ok p =>
      simp only [hp] at hv
      cases hc : p.checksum with
      | none => simp only [hc, Except.error.injEq] at hv; right; left; exact hv.symm
      | some chk =>
        simp only [hc] at hv
        unfold checksumOf at hv
        cases hb : s.toBytes with
        | error e' =>
          simp only [hb, Except.error.injEq] at hv
          right; left
          unfold Secret.toBytes at hb
          cases s with
          | bytes bs => simp at hb
          | text cps => simp only at hb; split at hb <;> simp at hb; rw [← hv, ← hb]
        | ok b =>
          simp only [hb, Bool.false_eq_true, if_false] at hv
          cases hn : checkNul h b with
          | error e' =>
            simp only [hn, Except.error.injEq] at hv
            right; right; left
            unfold checkNul at hn
            split at hn <;> simp at hn
            rw [← hv, ← hn]
          | ok u =>
            simp only [hn] at hv
            cases hd : h.digest b p with
            | error e' => simp only [hd, Except.error.injEq] at hv; right; right; right; right; exact ⟨b, p, by rw [hd, hv]⟩
            | ok d => simp [hd] at hv

end Props.C08
