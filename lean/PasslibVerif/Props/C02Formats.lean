import PasslibVerif.Lemmas.C02Formats
/-
C02, part 2 — the per-format checksum specifications (`Spec.Formats`, written from the published descriptions and compared
with the real hashers by `tools/corr/C02_formats.py`) and the relations between them that the descriptions state in prose.
Statements only; proofs are in `Lemmas/C02Formats.lean`.
-/
namespace Props.C02Formats
open Spec.Formats

/-! ### DES family -/

/-- traditional crypt looks at the first eight characters only (every password, every salt) -/
theorem des_crypt_uses_first_8_chars (pwd salt : Bytes) : desCrypt (pwd.take 8) salt = desCrypt pwd salt :=
  Lemmas.C02Formats.desCrypt_take8 pwd salt

/-- … and at the first two salt characters only (`django_des_crypt` stores a longer salt) -/
theorem des_crypt_uses_first_2_salt_chars (pwd salt : Bytes) : desCrypt pwd (salt.take 2) = desCrypt pwd salt :=
  Lemmas.C02Formats.desCrypt_salt_take2 pwd salt

theorem des_crypt_checksum_length (pwd salt : Bytes) : (desCrypt pwd salt).length = 11 :=
  Lemmas.C02Formats.desCrypt_length pwd salt

/-- "bigcrypt hashes of any passwords less than 9 characters will be identical to des-crypt" -/
theorem bigcrypt_le8_eq_des_crypt (pwd salt : Bytes) (h : pwd.length ≤ 8) : bigcrypt pwd salt = desCrypt pwd salt :=
  Lemmas.C02Formats.bigcrypt_short pwd salt h

/-- "the first 13 characters of any bigcrypt hash form a valid des_crypt hash of the same password" -/
theorem bigcrypt_first_segment_is_des_crypt (pwd salt : Bytes) : (bigcrypt pwd salt).take 11 = desCrypt pwd salt :=
  Lemmas.C02Formats.bigcrypt_prefix pwd salt

theorem crypt16_checksum_length (pwd salt : Bytes) : (crypt16 pwd salt).length = 22 :=
  Lemmas.C02Formats.crypt16_length pwd salt

/-- the first half of crypt16 is the 20-iteration crypt of the first eight characters, whatever follows them -/
theorem crypt16_first_half (pwd salt : Bytes) :
    (crypt16 pwd salt).take 11 = desCryptBlock (desKeyOfChars pwd) (h64leNat (salt.take 2)) 20 :=
  Lemmas.C02Formats.crypt16_first_half_only_first8 pwd salt

/-- LAN Manager: for a password of at most seven octets the second half of the hash is the constant `aad3b435b51404ee`
    (DES of `KGS!@#$%` under the all-zero key) -/
theorem lmhash_short_second_half (oem : Bytes) (h : oem.length ≤ 7) : (lmhash oem).drop 16 = ascii "aad3b435b51404ee" :=
  Lemmas.C02Formats.lmhash_short oem h

/-! ### bcrypt family -/

/-- bcrypt_sha256 version 2 = bcrypt ∘ base64 ∘ HMAC-SHA-256 keyed with the salt string -/
theorem bcrypt_sha256_v2_is_bcrypt_of_hmac (ident : Bytes) (cost : Nat) (salt22 pwd : Bytes) :
    bcryptSha256V2 ident cost salt22 pwd = bcrypt ident cost salt22 (b64 (Spec.Hmac.hmac Spec.SHA256.sha256 64 salt22 pwd)) := rfl

/-- version 1 = bcrypt ∘ base64 ∘ SHA-256 -/
theorem bcrypt_sha256_v1_is_bcrypt_of_sha256 (ident : Bytes) (cost : Nat) (salt22 pwd : Bytes) :
    bcryptSha256V1 ident cost salt22 pwd = bcrypt ident cost salt22 (b64 (Spec.SHA256.sha256 pwd)) := rfl

/-- Django's variant = bcrypt ∘ hex ∘ SHA-256 -/
theorem django_bcrypt_sha256_is_bcrypt_of_hex_sha256 (ident : Bytes) (cost : Nat) (salt22 pwd : Bytes) :
    djangoBcryptSha256 ident cost salt22 pwd = bcrypt ident cost salt22 (hexDigest Spec.SHA256.sha256 pwd) := rfl

/-- `$2a$`, `$2b$` and `$2y$` name the same function -/
theorem bcrypt_2a_2b_2y_agree (cost : Nat) (salt22 pwd : Bytes) :
    bcrypt (ascii "2a") cost salt22 pwd = bcrypt (ascii "2b") cost salt22 pwd ∧
    bcrypt (ascii "2y") cost salt22 pwd = bcrypt (ascii "2b") cost salt22 pwd :=
  ⟨rfl, rfl⟩

/-! ### digests -/

/-- `ldap_md5` / `ldap_sha1` are the base64 of the bytes whose hexadecimal form is `hex_md5` / `hex_sha1`
    (hex is injective on byte strings, `unhexLower` is its inverse) -/
theorem ldap_digest_from_hex_digest (H : Bytes → Bytes) (pwd : Bytes) (hH : ∀ b ∈ H pwd, b < 256) :
    ldapDigest H pwd = b64 (Lemmas.C02Formats.unhexLower (hexDigest H pwd)) := by
  unfold ldapDigest hexDigest
  rw [Lemmas.C02Formats.unhexLower_hexLower _ hH]

/-- on ASCII passwords the NT hash is MD4 of the characters interleaved with zero bytes -/
theorem nthash_ascii (pwd : Bytes) (h : ∀ b ∈ pwd, b < 128) :
    nthash pwd = hexLower (Spec.MD4.md4 (pwd.flatMap fun c => [c, 0])) := by
  unfold nthash ntHashRaw
  rw [Lemmas.C02Formats.utf16le_ascii pwd h]

/-- msdcc2 is PBKDF2-HMAC-SHA1 over the raw msdcc (version 1) digest -/
theorem msdcc2_from_msdcc (pwd user : Bytes) :
    msdcc2 pwd user = hexLower (Spec.Pbkdf.pbkdf2 Spec.SHA1.sha1 64 20 (msdccRaw pwd user) (dccUser user) 10240 16) ∧
    msdcc pwd user = hexLower (msdccRaw pwd user) :=
  ⟨rfl, rfl⟩

/-- "For passwords less than 13 characters, cisco_asa should be identical to cisco_pix": whenever password + user fit
    in 16 bytes -/
theorem cisco_asa_eq_pix_when_short (pwd user : Bytes) (h : pwd.length + (ciscoUser4 user).length ≤ 16) :
    ciscoAsa pwd user = ciscoPix pwd user :=
  Lemmas.C02Formats.ciscoAsa_eq_pix pwd user h

theorem cisco_user_part_is_4_bytes (user : Bytes) (h : user ≠ []) : (ciscoUser4 user).length = 4 :=
  Lemmas.C02Formats.ciscoUser4_length user h

/-! ### KDF formats -/

/-- a `$scram$` digest is the `$pbkdf2-<alg>$` checksum of the normalized password (RFC 5802 `Hi` = one-block PBKDF2) -/
theorem scram_digest_is_pbkdf2_checksum (a : HashAlg) (pwd salt : Bytes) (rounds : Nat) :
    scramDigest a pwd salt rounds = pbkdf2Digest a pwd salt rounds := rfl

/-- grub_pbkdf2_sha512 and pbkdf2_sha512 encode the same derived key -/
theorem grub_and_pbkdf2_sha512_share_key (pwd salt : Bytes) (rounds : Nat) :
    grubPbkdf2Sha512 pwd salt rounds = hexUpper (pbkdf2 algSha512 pwd salt rounds 64) ∧
    pbkdf2Digest algSha512 pwd salt rounds = ab64 (pbkdf2 algSha512 pwd salt rounds 64) :=
  ⟨rfl, rfl⟩

/-- sun_md5_crypt: the standard configuration string is the bare one followed by `$` -/
theorem sun_md5_config_bare (salt : Bytes) (rounds : Nat) :
    sunConfig salt rounds false = sunConfig salt rounds true ++ ascii "$" :=
  Lemmas.C02Formats.sunConfig_bare salt rounds

end Props.C02Formats
