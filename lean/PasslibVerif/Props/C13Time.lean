import PasslibVerif.Lemmas.TotpTimeNorm
import PasslibVerif.Lemmas.TotpTimeC
import PasslibVerif.Props.C13
/-
C13, timestamps given as date-times — `TOTP.normalize_time` (int / float / None / naive and aware datetime) and the CPython
calendar code under it (`_ymd2ord`, `_ord2ymd`, `datetime.utctimetuple`, `calendar.timegm`), for ALL inputs:

 * the civil-date ↔ day-number maps are inverse bijections, strictly monotone, 1970-01-01 ↦ 0;
 * `calendar.timegm` of the UTC fields of epoch second t is t, and back;
 * a well-formed date-time normalises to the FLOOR second of the instant it denotes (wall clock − utcoffset, microseconds
   dropped, naive read as UTC), or raises OverflowError exactly when the UTC view leaves 0001-01-01 … 9999-12-31;
   hence two date-times denoting the same instant in different zones give the same integer;
 * every finite float t normalises to ⌊t⌋ (`math.floor`, commit 2bc064c; before it `int()` truncated toward zero, so −0.5 became
   second 0 — see the history note at `old_truncation_history`); a float and a date-time denoting the same instant normalise alike,
   also before the epoch; `generate` refuses every negative float like every negative time;
 * the counter used for a date-time is ⌊instant / period⌋ and the reported interval contains the instant (joining
   Props/C13.lean), and the generated token is the RFC 4226 value of that counter.
-/
namespace Props.C13Time
open Py Gen.Totp Model.Totp Model.TotpTime Digits

/-! ### civil dates and day numbers -/

/-- `civilFromDays ∘ daysFromCivil = id` on every valid date of the years 1 … 9999 -/
theorem civil_days_roundtrip (y m d : Int) (h : ValidDate y m d) : civilFromDays (daysFromCivil y m d) = (y, m, d) :=
  Lemmas.TotpTimeNorm.civilFromDays_daysFromCivil y m d h.2.2.1 h.2.2.2.1 h.2.2.2.2.1 h.2.2.2.2.2

/-- the same for every year whatsoever (the proof never uses the year range) -/
theorem civil_days_roundtrip_any_year (y m d : Int) (hm : 1 ≤ m) (hm' : m ≤ 12) (hd : 1 ≤ d) (hd' : d ≤ daysInMonth y m) :
    civilFromDays (daysFromCivil y m d) = (y, m, d) :=
  Lemmas.TotpTimeNorm.civilFromDays_daysFromCivil y m d hm hm' hd hd'

/-- the converse: every day number of the datetime range is the number of the valid date `civilFromDays` gives for it -/
theorem days_civil_roundtrip (n : Int) (h1 : -719162 ≤ n) (h2 : n ≤ 2932896) :
    ValidDate (civilFromDays n).1 (civilFromDays n).2.1 (civilFromDays n).2.2 ∧
    daysFromCivil (civilFromDays n).1 (civilFromDays n).2.1 (civilFromDays n).2.2 = n :=
  ⟨Lemmas.TotpTimeNorm.valid_civilFromDays n h1 h2, Lemmas.TotpTimeNorm.daysFromCivil_civilFromDays n⟩

/-- … and outside the range too: a valid month and day of some year, with that day number -/
theorem days_civil_roundtrip_any (n : Int) :
    1 ≤ (civilFromDays n).2.1 ∧ (civilFromDays n).2.1 ≤ 12 ∧ 1 ≤ (civilFromDays n).2.2 ∧
    (civilFromDays n).2.2 ≤ daysInMonth (civilFromDays n).1 (civilFromDays n).2.1 ∧
    daysFromCivil (civilFromDays n).1 (civilFromDays n).2.1 (civilFromDays n).2.2 = n := by
  obtain ⟨a, b, c, d, _⟩ := Lemmas.TotpTimeOrd.ymdToOrd_ordToYmd (n + EPOCH_ORD)
  exact ⟨a, b, c, d, Lemmas.TotpTimeNorm.daysFromCivil_civilFromDays n⟩

/-- the valid dates are exactly the day numbers −719162 (0001-01-01) … 2932896 (9999-12-31) -/
theorem valid_date_days_range (y m d : Int) (h : ValidDate y m d) :
    -719162 ≤ daysFromCivil y m d ∧ daysFromCivil y m d ≤ 2932896 := Lemmas.TotpTimeNorm.days_range_of_valid y m d h

/-- `daysFromCivil` is strictly monotone for the lexicographic order of (year, month, day) -/
theorem daysFromCivil_strictMono (y m d y' m' d' : Int) (h : ValidDate y m d) (h' : ValidDate y' m' d')
    (hlt : y < y' ∨ (y = y' ∧ (m < m' ∨ (m = m' ∧ d < d')))) :
    daysFromCivil y m d < daysFromCivil y' m' d' := by
  have := Lemmas.TotpTimeMono.ymdToOrd_strictMono y m d y' m' d' h.2.2.1 h.2.2.2.1 h.2.2.2.2.1 h.2.2.2.2.2
    h'.2.2.1 h'.2.2.2.1 h'.2.2.2.2.1 h'.2.2.2.2.2 hlt
  unfold daysFromCivil; omega

/-- hence it is injective on valid dates -/
theorem daysFromCivil_injective (y m d y' m' d' : Int) (h : ValidDate y m d) (h' : ValidDate y' m' d')
    (he : daysFromCivil y m d = daysFromCivil y' m' d') : (y, m, d) = (y', m', d') := by
  rw [← civil_days_roundtrip y m d h, ← civil_days_roundtrip y' m' d' h', he]

theorem epoch_day : daysFromCivil 1970 1 1 = 0 := by decide
theorem first_day : daysFromCivil 1 1 1 = -719162 := by decide
theorem last_day : daysFromCivil 9999 12 31 = 2932896 := by decide

/-- the 400-year cycle: 146097 days -/
theorem cycle_400 (y m d : Int) : daysFromCivil (y + 400) m d = daysFromCivil y m d + 146097 := by
  have hl : isLeap (y + 400) = isLeap y := by
    rw [Bool.eq_iff_iff, Lemmas.TotpTimeCal.isLeap_iff, Lemmas.TotpTimeCal.isLeap_iff]; omega
  simp only [daysFromCivil, ymdToOrd, daysBeforeMonth, hl, daysBeforeYear]; omega

/-- weekday (Monday = 0) of day number n: 1970-01-01 was a Thursday -/
theorem weekday_of_days (n : Int) :
    weekday (civilFromDays n).1 (civilFromDays n).2.1 (civilFromDays n).2.2 = (n + 3) % 7 := by
  have h := Lemmas.TotpTimeNorm.daysFromCivil_civilFromDays n
  unfold daysFromCivil EPOCH_ORD at h
  unfold weekday; omega

/-! ### `calendar.timegm` -/

/-- `timegm ∘ fieldsOfEpoch = id` for every second a datetime can denote -/
theorem timegm_is_epoch_seconds (t : Int) (h1 : EPOCH_MIN ≤ t) (h2 : t ≤ EPOCH_MAX) :
    timegm (fieldsOfEpoch t).1 (fieldsOfEpoch t).2.1 (fieldsOfEpoch t).2.2.1 (fieldsOfEpoch t).2.2.2.1
      (fieldsOfEpoch t).2.2.2.2.1 (fieldsOfEpoch t).2.2.2.2.2 = .ok t := Lemmas.TotpTimeNorm.timegm_fieldsOfEpoch t h1 h2

/-- `fieldsOfEpoch ∘ timegm = id` on valid field tuples, and `timegm` succeeds on them within the range -/
theorem fields_of_timegm (y mo d h mi s : Int) (hv : ValidDate y mo d)
    (hh : 0 ≤ h) (hh' : h < 24) (hmi : 0 ≤ mi) (hmi' : mi < 60) (hs : 0 ≤ s) (hs' : s < 60) :
    ∃ t, timegm y mo d h mi s = .ok t ∧ fieldsOfEpoch t = (y, mo, d, h, mi, s) ∧ EPOCH_MIN ≤ t ∧ t ≤ EPOCH_MAX := by
  refine ⟨timegmRaw y mo d h mi s, Lemmas.TotpTimeNorm.timegm_of_valid _ _ _ _ _ _ ⟨hv.1, hv.2.1, hv.2.2.1, hv.2.2.2.1⟩,
    Lemmas.TotpTimeNorm.fieldsOfEpoch_timegmRaw y mo d h mi s hv hh hh' hmi hmi' hs hs', ?_⟩
  have := valid_date_days_range y mo d hv
  rw [Lemmas.TotpTimeNorm.timegmRaw_eq]; unfold EPOCH_MIN EPOCH_MAX; omega

/-- closed form: 86400 · days + 3600 h + 60 mi + s (no check on day, hour, minute, second) -/
theorem timegm_closed_form (y mo d h mi s : Int) (hy : MINYEAR ≤ y ∧ y ≤ MAXYEAR ∧ 1 ≤ mo ∧ mo ≤ 12) :
    timegm y mo d h mi s = .ok (daysFromCivil y mo d * 86400 + h * 3600 + mi * 60 + s) := by
  rw [Lemmas.TotpTimeNorm.timegm_of_valid _ _ _ _ _ _ hy, Lemmas.TotpTimeNorm.timegmRaw_eq]

/-- the date constructor inside `timegm` refuses other years and months -/
theorem timegm_rejects (y mo d h mi s : Int) (hy : ¬ (MINYEAR ≤ y ∧ y ≤ MAXYEAR ∧ 1 ≤ mo ∧ mo ≤ 12)) :
    timegm y mo d h mi s = .error .valueError := by unfold timegm; rw [if_neg hy]

/-! ### `TOTP.normalize_time` -/

theorem int_identity (now : PyFloat) (n : Int) : normalizeTime now (.int n) = .ok n := rfl
theorem other_is_type_error (now : PyFloat) : normalizeTime now .other = .error .typeError := rfl
/-- `None`: `int(cls.now())` — still `int()`, i.e. truncation of the clock value -/
theorem none_truncates_clock (now : PyFloat) : normalizeTime now .none = floatToInt now := rfl
/-- for a clock that is not negative (what `TOTP.using(now=…)` asserts) `None` is the same as passing the clock value as a float -/
theorem none_reads_clock (now : PyFloat) (hnow : ∀ num den, now = .finite num den → 0 ≤ num) :
    normalizeTime now .none = normalizeTime now (.float now) := by
  cases now with
  | finite num den =>
    simp only [normalizeTime, floatToInt, floatFloor, Int.tdiv_eq_ediv_of_nonneg (hnow num den rfl)]
  | nan => rfl
  | inf neg => rfl
theorem nan_is_value_error (now : PyFloat) : normalizeTime now (.float .nan) = .error .valueError := rfl
theorem inf_is_overflow_error (now : PyFloat) (neg : Bool) : normalizeTime now (.float (.inf neg)) = .error .overflowError := rfl

/-- the main statement for date-times: the floor second of the denoted instant, or OverflowError exactly when the UTC view
    leaves the datetime range -/
theorem normalize_datetime (now : PyFloat) (dt : DateTime) (h : dt.WF) :
    normalizeTime now (.datetime dt) =
      (if EPOCH_MIN ≤ instantSec dt ∧ instantSec dt ≤ EPOCH_MAX then .ok (instantSec dt) else .error .overflowError) :=
  Lemmas.TotpTimeNorm.normalizeTime_datetime now dt h

/-- floor: `US · result ≤ instant < US · (result + 1)` -/
theorem datetime_floor (now : PyFloat) (dt : DateTime) (h : dt.WF) (t : Int) (hn : normalizeTime now (.datetime dt) = .ok t) :
    t * US ≤ instantUs dt ∧ instantUs dt < (t + 1) * US := by
  rw [normalize_datetime now dt h] at hn
  split at hn
  · cases hn; unfold instantSec US; omega
  · cases hn

/-- two well-formed date-times denoting the same instant (in whatever zones) normalise alike -/
theorem aware_same_instant (now : PyFloat) (dt1 dt2 : DateTime) (h1 : dt1.WF) (h2 : dt2.WF) (he : instantUs dt1 = instantUs dt2) :
    normalizeTime now (.datetime dt1) = normalizeTime now (.datetime dt2) := by
  rw [normalize_datetime now dt1 h1, normalize_datetime now dt2 h2]; unfold instantSec; rw [he]

/-- even when they differ by less than the second they share -/
theorem same_second_same_result (now : PyFloat) (dt1 dt2 : DateTime) (h1 : dt1.WF) (h2 : dt2.WF)
    (he : instantUs dt1 / US = instantUs dt2 / US) :
    normalizeTime now (.datetime dt1) = normalizeTime now (.datetime dt2) := by
  rw [normalize_datetime now dt1 h1, normalize_datetime now dt2 h2]; unfold instantSec; rw [he]

/-- a naive date-time is read as UTC, and never fails -/
theorem naive_is_utc (now : PyFloat) (dt : DateTime) (h : dt.WF) (hn : dt.offset = none) :
    normalizeTime now (.datetime dt) = normalizeTime now (.datetime { dt with offset := some 0 }) ∧
    normalizeTime now (.datetime dt) =
      .ok (daysFromCivil dt.year dt.month dt.day * 86400 + dt.hour * 3600 + dt.minute * 60 + dt.second) := by
  have h' : ({ dt with offset := some 0 } : DateTime).WF := by
    obtain ⟨a, b, c, d, e, f, g, i, j, _⟩ := h
    exact ⟨a, b, c, d, e, f, g, i, j, (by decide : offsetOk (some 0))⟩
  refine ⟨aware_same_instant now dt _ h h' (by simp only [instantUs, hn]), ?_⟩
  rw [normalize_datetime now dt h, Lemmas.TotpTimeNorm.instantSec_of_utc dt h (Or.inl hn)]
  have hr := valid_date_days_range _ _ _ h.1
  obtain ⟨_, h0, h1, h2, h3, h4, h5, _⟩ := h
  rw [if_pos (by unfold EPOCH_MIN EPOCH_MAX; omega)]

/-- failure of an aware date-time: exactly when its UTC wall clock is before 0001-01-01 or after 9999-12-31 -/
theorem datetime_overflow_iff (now : PyFloat) (dt : DateTime) (h : dt.WF) :
    normalizeTime now (.datetime dt) = .error .overflowError ↔ (instantSec dt < EPOCH_MIN ∨ EPOCH_MAX < instantSec dt) := by
  rw [normalize_datetime now dt h]
  split
  · constructor
    · intro hh; cases hh
    · omega
  · constructor
    · intro _; omega
    · intro _; rfl

/-- no other error is possible for a well-formed date-time -/
theorem datetime_ok_or_overflow (now : PyFloat) (dt : DateTime) (h : dt.WF) :
    normalizeTime now (.datetime dt) = .ok (instantSec dt) ∨ normalizeTime now (.datetime dt) = .error .overflowError := by
  rw [normalize_datetime now dt h]; split
  · exact Or.inl rfl
  · exact Or.inr rfl

/-- `datetime` is normally the C accelerator: its `utctimetuple` (four `normalize_pair`s and `normalize_y_m_d` with the one-day
    shortcuts) gives, for every well-formed date-time, what the Python text modelled by `utcTimeTuple` gives — errors included;
    so every statement of this file holds for either implementation -/
theorem c_accelerator_agrees (dt : DateTime) (h : dt.WF) : utcTimeTupleC dt = utcTimeTuple dt :=
  Lemmas.TotpTimeC.utcTimeTupleC_eq dt h

/-- C `normalize_date` for ANY day offset from a valid month (also the `date + timedelta` path): the date of ordinal
    `toordinal(y, m, 1) + d − 1`, or OverflowError outside 1 … 3652059 -/
theorem c_normalize_date (y m d : Int) (hm : 1 ≤ m) (hm' : m ≤ 12) :
    normalizeYmdC y m d =
      (if 0 < ymdToOrd y m 1 + d - 1 ∧ ymdToOrd y m 1 + d - 1 ≤ MAXORDINAL then .ok (ordToYmd (ymdToOrd y m 1 + d - 1))
       else .error .overflowError) := Lemmas.TotpTimeC.normalizeYmdC_eq y m d hm hm'

/-- floats: for EVERY finite float t = num/den the result is ⌊t⌋ (toward −∞) -/
theorem float_floor (now : PyFloat) (num : Int) (den : Nat) (hden : 0 < den) :
    normalizeTime now (.float (.finite num den)) = .ok (num / den) ∧
    (num / den) * den ≤ num ∧ num < (num / den + 1) * den := by
  refine ⟨rfl, ?_, ?_⟩
  · have := Int.emod_add_mul_ediv num den
    have := Int.emod_nonneg num (show (den : Int) ≠ 0 by omega)
    rw [Int.mul_comm]; omega
  · have := Int.emod_add_mul_ediv num den
    have := Int.emod_lt_of_pos num (show (0 : Int) < den by omega)
    rw [Int.add_mul, Int.mul_comm]; omega

/-- a float and a well-formed date-time denoting the same instant (num/den s = instantUs/10⁶ s) normalise to the same second —
    before the epoch as well as after it -/
theorem float_same_instant_as_datetime (now : PyFloat) (num : Int) (den : Nat) (hden : 0 < den) (dt : DateTime) (h : dt.WF)
    (he : num * US = instantUs dt * den) :
    normalizeTime now (.float (.finite num den)) = .ok (instantSec dt) ∧
    (EPOCH_MIN ≤ instantSec dt → instantSec dt ≤ EPOCH_MAX →
      normalizeTime now (.datetime dt) = normalizeTime now (.float (.finite num den))) := by
  have e : num / (den : Int) = instantUs dt / US := by
    rw [← Int.mul_ediv_mul_of_pos_left num (den : Int) (show (0 : Int) < US by decide), he, Int.mul_comm (den : Int) US,
      Int.mul_ediv_mul_of_pos_left _ _ (show (0 : Int) < (den : Int) by omega)]
  have hf : normalizeTime now (.float (.finite num den)) = .ok (instantSec dt) := by
    rw [(float_floor now num den hden).1, e]; rfl
  refine ⟨hf, fun h1 h2 => ?_⟩
  rw [hf, normalize_datetime now dt h, if_pos ⟨h1, h2⟩]

/-
  History.  Before commit 2bc064c the float branch was `int(time)` (`floatToInt`: truncation toward zero), and the statements
  "for every float the result is ⌊t⌋", "a float and a date-time of the same instant normalise alike" and "the reported interval
  contains the timestamp" were FALSE for floats in (−1, 0): −0.5 became second 0, a token of counter 0 with interval [0, period)
  was issued, while 1969-12-31T23:59:59.5 became second −1 and was refused.  The old theorems `float_negative_toward_zero`,
  `float_floor_counterexample`, `generate_negative_float_counterexample`, `representations_disagree_before_epoch` recorded that.
-/
theorem old_truncation_history :
    floatToInt (.finite (-1) 2) = .ok 0 ∧ floatFloor (.finite (-1) 2) = .ok (-1) := by decide

/-! ### counter, interval and token for a date-time (joining Props/C13.lean) -/

/-- the counter used for a date-time is ⌊instant / period⌋ (instant in microseconds, period in seconds) -/
theorem counter_of_datetime (now : PyFloat) (dt : DateTime) (h : dt.WF) (p t : Int) (hp : 0 < p)
    (hn : normalizeTime now (.datetime dt) = .ok t) :
    timeToCounter t p = instantUs dt / (US * p) ∧ timeToCounter t p = Spec.Hotp.timeStep (instantUs dt) (US * p) := by
  have ht : t = instantUs dt / US := by
    rw [normalize_datetime now dt h] at hn
    split at hn
    · cases hn; rfl
    · cases hn
  have e : timeToCounter t p = instantUs dt / (US * p) := by
    unfold timeToCounter
    rw [Lemmas.Totp.fdiv_eq_ediv t p hp, ht, Int.ediv_ediv]
    have : ¬ (US < 0 ∧ ¬ p ∣ instantUs dt / US) := by unfold US; omega
    rw [if_neg this]; omega
  exact ⟨e, e⟩

/-- the validity interval reported for a date-time contains the instant (in microseconds) and is one period long -/
theorem interval_of_datetime (now : PyFloat) (dt : DateTime) (h : dt.WF) (p t : Int) (hp : 0 < p)
    (hn : normalizeTime now (.datetime dt) = .ok t) :
    tokenStartTime (timeToCounter t p) p * US ≤ instantUs dt ∧ instantUs dt < tokenExpireTime (timeToCounter t p) p * US ∧
    tokenExpireTime (timeToCounter t p) p - tokenStartTime (timeToCounter t p) p = p := by
  obtain ⟨i1, i2, i3⟩ := Props.C13.interval t p hp
  obtain ⟨f1, f2⟩ := datetime_floor now dt h t hn
  refine ⟨?_, ?_, i3⟩
  · have : tokenStartTime (timeToCounter t p) p * US ≤ t * US := Int.mul_le_mul_of_nonneg_right i1 (by decide)
    omega
  · have : (t + 1) * US ≤ tokenExpireTime (timeToCounter t p) p * US := Int.mul_le_mul_of_nonneg_right (by omega) (by decide)
    omega

/-- `TOTP.generate(datetime)`: for an instant at or after the epoch (and within the datetime range in UTC) the call succeeds with
    counter ⌊instant/period⌋, its interval, and the token `_generate` makes for that counter -/
theorem generate_datetime (mac : Bytes → Bytes) (digits : Nat) (p : Int) (now : PyFloat) (dt : DateTime) (h : dt.WF) (hp : 0 < p)
    (h0 : 0 ≤ instantUs dt) (hmax : instantSec dt ≤ EPOCH_MAX) :
    let c := instantUs dt / (US * p)
    generateAt mac digits p now (.datetime dt) =
      .ok { token := generate mac digits c.toNat, counter := c, startTime := c * p, expireTime := (c + 1) * p } ∧ 0 ≤ c := by
  intro c
  have hs : 0 ≤ instantSec dt := by unfold instantSec US; omega
  have hn : normalizeTime now (.datetime dt) = .ok (instantSec dt) := by
    rw [normalize_datetime now dt h, if_pos ⟨by unfold EPOCH_MIN; omega, hmax⟩]
  have hc := (counter_of_datetime now dt h p _ hp hn).1
  have hc0 : 0 ≤ c := Int.ediv_nonneg h0 (by unfold US; omega)
  refine ⟨?_, hc0⟩
  simp only [generateAt, hn, hc]
  rw [if_neg (by omega)]
  rfl

/-- … and that token is the RFC 4226 value (dynamic truncation, mod 10^digits, zero padded) of the HMAC of the packed counter -/
theorem token_of_datetime (mac : Bytes → Bytes) (hmac : ∀ m, Bytes.WF (mac m) ∧ 20 ≤ (mac m).length)
    (digits : Nat) (p : Int) (now : PyFloat) (dt : DateTime) (h : dt.WF) (hp : 0 < p)
    (h0 : 0 ≤ instantUs dt) (hmax : instantSec dt ≤ EPOCH_MAX) :
    ∃ out, generateAt mac digits p now (.datetime dt) = .ok out ∧
      out.counter = Spec.Hotp.timeStep (instantUs dt) (US * p) ∧
      out.token = (Spec.Hotp.hotp (mac (packUint64 out.counter.toNat)) digits).map
        (fun v => ((toDigits 10 digits v).reverse).map digitChar) ∧
      out.startTime * US ≤ instantUs dt ∧ instantUs dt < out.expireTime * US ∧ out.expireTime - out.startTime = p := by
  obtain ⟨hg, hc0⟩ := generate_datetime mac digits p now dt h hp h0 hmax
  refine ⟨_, hg, rfl, ?_, ?_⟩
  · have ht := Props.C13.token_eq_rfc4226 (mac (packUint64 (instantUs dt / (US * p)).toNat))
      (hmac _).1 (hmac _).2 digits
    show Option.map ((List.map digitChar) ∘ (renderToken digits)) _ = _
    rw [← Option.map_map, ht, Option.map_map]
    rfl
  · have hs : 0 ≤ instantSec dt := by unfold instantSec US; omega
    have hn : normalizeTime now (.datetime dt) = .ok (instantSec dt) := by
      rw [normalize_datetime now dt h, if_pos ⟨by unfold EPOCH_MIN; omega, hmax⟩]
    have hi := interval_of_datetime now dt h p _ hp hn
    have hc := (counter_of_datetime now dt h p _ hp hn).1
    simp only [hc, tokenStartTime, tokenExpireTime, counterToTime] at hi
    exact hi

/-- an instant before the epoch is refused by `generate` ("timestamp must be >= 0") -/
theorem generate_before_epoch (mac : Bytes → Bytes) (digits : Nat) (p : Int) (now : PyFloat) (dt : DateTime) (h : dt.WF) (hp : 0 < p)
    (h0 : instantUs dt < 0) (hmin : EPOCH_MIN ≤ instantSec dt) :
    generateAt mac digits p now (.datetime dt) = .error .valueError := by
  have hs : instantSec dt < 0 := by unfold instantSec US; omega
  have hn : normalizeTime now (.datetime dt) = .ok (instantSec dt) := by
    rw [normalize_datetime now dt h, if_pos ⟨hmin, by unfold EPOCH_MAX; omega⟩]
  have hc : timeToCounter (instantSec dt) p < 0 := (Lemmas.Totp.counter_lt_iff 0 _ p hp).2 (by omega)
  simp only [generateAt, hn]
  rw [if_pos hc]

/-- every finite float t = num/den: counter ⌊t / period⌋ -/
theorem counter_of_float (now : PyFloat) (num : Int) (den : Nat) (hden : 0 < den) (p t : Int) (hp : 0 < p)
    (hn : normalizeTime now (.float (.finite num den)) = .ok t) : timeToCounter t p = num / (den * p) := by
  rw [(float_floor now num den hden).1] at hn
  cases hn
  unfold timeToCounter
  rw [Lemmas.Totp.fdiv_eq_ediv _ p hp, Int.ediv_ediv]
  have : ¬ ((den : Int) < 0 ∧ ¬ p ∣ num / den) := by omega
  rw [if_neg this]; omega

/-- every finite float: the validity interval of its counter contains it (start ≤ t < expire, written without division) -/
theorem interval_of_float (now : PyFloat) (num : Int) (den : Nat) (hden : 0 < den) (p t : Int) (hp : 0 < p)
    (hn : normalizeTime now (.float (.finite num den)) = .ok t) :
    tokenStartTime (timeToCounter t p) p * den ≤ num ∧ num < tokenExpireTime (timeToCounter t p) p * den ∧
    tokenExpireTime (timeToCounter t p) p - tokenStartTime (timeToCounter t p) p = p := by
  obtain ⟨f0, f1, f2⟩ := float_floor now num den hden
  rw [f0] at hn; cases hn
  obtain ⟨i1, i2, i3⟩ := Props.C13.interval (num / den) p hp
  have hd : (0 : Int) ≤ (den : Int) := by omega
  refine ⟨?_, ?_, i3⟩
  · have := Int.mul_le_mul_of_nonneg_right i1 hd
    omega
  · have := Int.mul_le_mul_of_nonneg_right (show num / (den : Int) + 1 ≤ tokenExpireTime (timeToCounter (num / den) p) p by omega) hd
    omega

/-- `TOTP.generate(float)` for t = num/den ≥ 0: counter ⌊t/period⌋, its interval, the token of that counter -/
theorem generate_float (mac : Bytes → Bytes) (digits : Nat) (p : Int) (now : PyFloat) (num : Int) (den : Nat) (hden : 0 < den)
    (hp : 0 < p) (hnum : 0 ≤ num) :
    generateAt mac digits p now (.float (.finite num den)) =
      .ok { token := generate mac digits (num / (den * p)).toNat, counter := num / (den * p),
            startTime := num / (den * p) * p, expireTime := (num / (den * p) + 1) * p } := by
  have hn := (float_floor now num den hden).1
  have hc := counter_of_float now num den hden p _ hp hn
  have hc0 : 0 ≤ num / ((den : Int) * p) := Int.ediv_nonneg hnum (Int.le_of_lt (Int.mul_pos (by omega) hp))
  simp only [generateAt, hn, hc]
  rw [if_neg (by omega)]
  rfl

/-- `TOTP.generate` refuses EVERY negative float ("timestamp must be >= 0"), −0.5 included — like every negative integer and
    every date-time before the epoch (`generate_before_epoch`) -/
theorem generate_negative_float_refused (mac : Bytes → Bytes) (digits : Nat) (p : Int) (now : PyFloat) (num : Int) (den : Nat)
    (hden : 0 < den) (hp : 0 < p) (hnum : num < 0) :
    generateAt mac digits p now (.float (.finite num den)) = .error .valueError := by
  have hn := (float_floor now num den hden).1
  have hneg : num / (den : Int) < 0 := Int.ediv_neg_of_neg_of_pos hnum (by omega)
  have hc : timeToCounter (num / den) p < 0 := (Lemmas.Totp.counter_lt_iff 0 _ p hp).2 (by omega)
  simp only [generateAt, hn]
  rw [if_pos hc]

theorem generate_negative_int_refused (mac : Bytes → Bytes) (digits : Nat) (p : Int) (now : PyFloat) (n : Int)
    (hp : 0 < p) (hn : n < 0) : generateAt mac digits p now (.int n) = .error .valueError := by
  have hc : timeToCounter n p < 0 := (Lemmas.Totp.counter_lt_iff 0 _ p hp).2 (by omega)
  simp only [generateAt, normalizeTime]
  rw [if_pos hc]

/-- the two ways of writing the instant −0.5 s now agree: second −1, and `generate` refuses both -/
theorem representations_agree_before_epoch (mac : Bytes → Bytes) (now : PyFloat) :
    instantUs ⟨1969, 12, 31, 23, 59, 59, 500000, none⟩ = -500000 ∧
    normalizeTime now (.datetime ⟨1969, 12, 31, 23, 59, 59, 500000, none⟩) = .ok (-1) ∧
    normalizeTime now (.float (.finite (-1) 2)) = .ok (-1) ∧
    generateAt mac 6 30 now (.datetime ⟨1969, 12, 31, 23, 59, 59, 500000, none⟩) = .error .valueError ∧
    generateAt mac 6 30 now (.float (.finite (-1) 2)) = .error .valueError := by
  have h1 : normalizeTime now (.datetime ⟨1969, 12, 31, 23, 59, 59, 500000, none⟩) = .ok (-1) := by
    rw [normalize_datetime now _ (by decide)]; decide +kernel
  refine ⟨by decide +kernel, h1, rfl, ?_, generate_negative_float_refused mac 6 30 now (-1) 2 (by decide) (by decide) (by decide)⟩
  simp only [generateAt, h1]
  rfl

/-! ### non-vacuity: concrete values produced by the real code (tools/corr/c13_time.py reproduces them) -/

/-- 2024-02-29T23:59:59.999999+05:30 and the same instant shown in −08:00 and in UTC -/
def ex1 : DateTime := ⟨2024, 2, 29, 23, 59, 59, 999999, some 19800000000⟩
def ex2 : DateTime := ⟨2024, 2, 29, 10, 29, 59, 999999, some (-28800000000)⟩
def ex3 : DateTime := ⟨2024, 2, 29, 18, 29, 59, 999999, none⟩

example : ex1.WF ∧ ex2.WF ∧ ex3.WF := by decide
example : instantUs ex1 = instantUs ex2 ∧ instantUs ex2 = instantUs ex3 := by decide
example : normalizeTime .nan (.datetime ex1) = .ok 1709231399 := by decide +kernel
example : normalizeTime .nan (.datetime ex2) = .ok 1709231399 := by decide +kernel
example : normalizeTime .nan (.datetime ex3) = .ok 1709231399 := by decide +kernel
example : ValidDate 2024 2 29 ∧ ¬ ValidDate 2023 2 29 ∧ ValidDate 2000 2 29 ∧ ¬ ValidDate 1900 2 29 := by decide
example : civilFromDays 19782 = (2024, 2, 29) ∧ daysFromCivil 2024 2 29 = 19782 := by decide +kernel
example : utcTimeTupleC ex1 = .ok (2024, 2, 29, 18, 29, 59) := by decide +kernel
example : utcTimeTuple ex1 = .ok (2024, 2, 29, 18, 29, 59) := by decide +kernel
example : normalizeYmdC 2024 3 0 = .ok (2024, 2, 29) := by decide +kernel
example : normalizeYmdC 9999 12 32 = .error .overflowError := by decide +kernel
example : fieldsOfEpoch 1709231399 = (2024, 2, 29, 18, 29, 59) := by decide +kernel
/-- the first day in a zone east of Greenwich is before year 1 in UTC: OverflowError, as CPython raises -/
example : normalizeTime .nan (.datetime ⟨1, 1, 1, 0, 0, 0, 0, some 3600000000⟩) = .error .overflowError := by decide +kernel
example : (⟨1, 1, 1, 0, 0, 0, 0, some 3600000000⟩ : DateTime).WF := by decide
/-- before the epoch the microseconds are dropped downwards (floor), and so is the fraction of a float -/
example : normalizeTime .nan (.float (.finite (-1) 2)) = .ok (-1) := by decide
example : (float_same_instant_as_datetime .nan (-1) 2 (by decide) ⟨1969, 12, 31, 23, 59, 59, 500000, none⟩ (by decide)
    (by decide +kernel)).1 = (by decide +kernel : normalizeTime .nan (.float (.finite (-1) 2)) = .ok (instantSec ⟨1969, 12, 31, 23, 59, 59, 500000, none⟩)) := rfl
example : normalizeTime .nan (.datetime ⟨1969, 12, 31, 23, 59, 59, 500000, none⟩) = .ok (-1) := by decide +kernel
example : normalizeTime .nan (.float (.finite 3999999 2000000)) = .ok 1 := by decide
/-- RFC 6238 appendix B, time 59 written as a date-time in +01:00 (HMAC-SHA1 of counter 1 under the RFC key given as the digest,
    RFC 4226 appendix D): token 94287082, counter 1, interval [30, 60) -/
example : generateAt (fun _ => [0x75,0xa4,0x8a,0x19,0xd4,0xcb,0xe1,0x00,0x64,0x4e,0x8a,0xc1,0x39,0x7e,0xea,0x74,0x7a,0x2d,0x33,0xab])
    8 30 .nan (.datetime ⟨1970, 1, 1, 1, 0, 59, 5, some 3600000000⟩) =
    .ok { token := some [57, 52, 50, 56, 55, 48, 56, 50], counter := 1, startTime := 30, expireTime := 60 } := by decide +kernel

end Props.C13Time
